"""C13 — entrypoint resolution and parameter decoding are mutual inverses.

Cases: parameter types = binary trees of `or` with an optional `%field` annotation on every node (inner nodes, leaves,
the root; names distinct, or deliberately `default` / `root` / duplicated / empty), leaves of five opaque types;
non-union roots; every leaf value of the type; every listed entrypoint with every argument of its type.

Streams compared with the Lean mirror (`lean/Driver/C13.lean`): root name, `list_entrypoints` (dict order, types),
`to_parameters`, `from_parameters` (also with ill-typed arguments and unknown names), plus the Lean `Spec.entrypoints`
against the independent Python statement below.

Oracle (independent of the mirror, structural, no paths): `spec_entrypoints`, `spec_resolve` (deepest annotated
branch on the value's path whose name is not the root name), `spec_inject`.

Extension: every type is sent to the model as the type expression the real code gets (`rty_toks`): raw annotation lists
(`:type` names — fresh or equal to entrypoint names —, several annotations on a node in any order, `@var` noise, the
rejected shapes `%a %b` / `:s :t`), leaves that are `pair` / `option` / `list` types with annotated unions below them
(ids 5..7; 8, 9 are leaves `Micheline.match` refuses).  Two more streams: the Python-object form of a call
(`from_python_object({entrypoint: obj})`, the string form, names that are display names but no entrypoints) and
`to_python_object` of full values."""
import json
import itertools

from translator import extract

PROP = 'C13'

LEAF_TYPES = [{'prim': 'unit'}, {'prim': 'nat'}, {'prim': 'string'}, {'prim': 'bytes'},
              {'prim': 'pair', 'args': [{'prim': 'nat'}, {'prim': 'string'}]}]
# non-union types with unions below them: the inner %names are deliberately names the generator also uses for entrypoints
LEAF_TYPES += [
    {'prim': 'pair', 'args': [{'prim': 'or', 'args': [{'prim': 'nat', 'annots': ['%default']}, {'prim': 'string', 'annots': ['%e1']}]}, {'prim': 'nat'}]},
    {'prim': 'option', 'args': [{'prim': 'or', 'args': [{'prim': 'unit', 'annots': ['%n1']}, {'prim': 'nat', 'annots': ['%root']}]}]},
    {'prim': 'list', 'args': [{'prim': 'or', 'args': [{'prim': 'nat', 'annots': ['%e2']}, {'prim': 'string', 'annots': [':e3', '%n0']}]}]},
    # refused by Micheline.match (a %field annotation on the argument of option / list)
    {'prim': 'option', 'args': [{'prim': 'nat', 'annots': ['%x']}]},
    {'prim': 'list', 'args': [{'prim': 'or', 'annots': ['%l'], 'args': [{'prim': 'nat'}, {'prim': 'string'}]}]},
]
N_PLAIN_LEAVES, STRUCTURED_LEAVES, REFUSED_LEAVES = 5, [5, 6, 7], [8, 9]
LEAF_ID = {json.dumps(e, sort_keys=True): i for i, e in enumerate(LEAF_TYPES)}


# ------------------------------------------------------------------------------------------ trees <-> Micheline
def ty_expr(t, deco=None, path=''):
    """deco: path -> the raw annotation list of the node there (default: its %annotation alone)"""
    if t[0] == 'l':
        e = dict(LEAF_TYPES[t[2]])
    else:
        e = {'prim': 'or', 'args': [ty_expr(t[2], deco, path + '0'), ty_expr(t[3], deco, path + '1')]}
    annots = deco[path] if deco and path in deco else (['%' + t[1]] if t[1] is not None else [])
    if annots:
        e['annots'] = list(annots)
    return e


def ty_of_expr(e):
    annots = e.get('annots', [])
    ann = None
    for a in annots:
        if a.startswith('%'):
            ann = a[1:]
    if e['prim'] == 'or':
        return ('o', ann, ty_of_expr(e['args'][0]), ty_of_expr(e['args'][1]))
    return ('l', ann, LEAF_ID[json.dumps({k: v for k, v in e.items() if k != 'annots'}, sort_keys=True)])


def hex_tok(s):
    return '+' + s.encode().hex()


def rty_toks(e, spine=True):
    """the type expression as the model reads it; spine: still reached through `or` nodes only (then a non-union node is a
    leaf of the parameter type and carries its id in the leaf table; ids below a leaf are never read: 0)"""
    annots = e.get('annots', [])
    out = [str(len(annots))] + [hex_tok(a) for a in annots]
    prim, args = e['prim'], e.get('args', [])
    if prim == 'or':
        return ['o'] + out + rty_toks(args[0], spine) + rty_toks(args[1], spine)
    tid = str(LEAF_ID[json.dumps({k: v for k, v in e.items() if k != 'annots'}, sort_keys=True)] if spine else 0)
    if prim == 'pair' and len(args) == 2:
        return ['p'] + out + [tid] + rty_toks(args[0], False) + rty_toks(args[1], False)
    if prim == 'option':
        return ['O'] + out + [tid] + rty_toks(args[0], False)
    if prim == 'list':
        return ['S'] + out + [tid] + rty_toks(args[0], False)
    assert not args, e
    return ['l'] + out + [hex_tok(prim), tid]


def raw_ok(e):
    """independent statement of what a type expression must satisfy as far as annotations go (Tezos: at most one field
    and one type annotation per node; pytezos additionally: none on the argument of option / list)"""
    annots = e.get('annots', [])
    if sum(a.startswith('%') for a in annots) > 1 or sum(a.startswith(':') for a in annots) > 1:
        return False
    args = e.get('args', [])
    if e['prim'] in ('option', 'list') and any(a.startswith('%') for a in args[0].get('annots', [])):
        return False
    return all(raw_ok(a) for a in args)


def minimal_rejected(e):
    """a smallest type expression with the same offending node that the real code also accepts (else the expression itself)"""
    from pytezos.michelson.sections.parameter import ParameterSection

    def offending(n):
        annots = n.get('annots', [])
        if sum(a.startswith('%') for a in annots) > 1 or sum(a.startswith(':') for a in annots) > 1:
            return {'prim': 'unit', 'annots': annots}
        if n['prim'] in ('option', 'list') and any(a.startswith('%') for a in n['args'][0].get('annots', [])):
            return {'prim': n['prim'], 'args': [{'prim': 'unit', 'annots': [a for a in n['args'][0]['annots'] if a.startswith('%')][:1]}]}
        for a in n.get('args', []):
            r = offending(a)
            if r is not None:
                return r
        return None
    node = offending(e)
    for cand in ([node, {'prim': 'or', 'args': [node, {'prim': 'unit'}]}] if node is not None else []):
        try:
            ParameterSection.match({'prim': 'parameter', 'args': [cand]})
            return cand
        except Exception:
            pass
    return e


def view_expr(e):
    """the parameter tree the entrypoint rules see in an accepted type expression"""
    names = [a[1:] for a in e.get('annots', []) if a.startswith('%')]
    ann = names[0] if names else None
    if e['prim'] == 'or':
        return ('o', ann, view_expr(e['args'][0]), view_expr(e['args'][1]))
    return ('l', ann, LEAF_ID[json.dumps({k: v for k, v in e.items() if k != 'annots'}, sort_keys=True)])


def val_expr(v):
    if v[0] == 'L':
        return {'prim': 'Left', 'args': [val_expr(v[1])]}
    if v[0] == 'R':
        return {'prim': 'Right', 'args': [val_expr(v[1])]}
    _, t, x = v
    if t == 0:
        return {'prim': 'Unit'}
    if t == 1:
        return {'int': str(x)}
    if t == 2:
        return {'string': f's{x}'}
    if t == 3:
        return {'bytes': '%02x' % (x % 256) * (1 + x // 256)}
    if t == 5:
        return {'prim': 'Pair', 'args': [{'prim': 'Left', 'args': [{'int': str(x)}]} if x % 2 == 0 else {'prim': 'Right', 'args': [{'string': 'q'}]}, {'int': str(x)}]}
    if t in (6, 8):
        return {'prim': 'None'} if x == 0 else {'prim': 'Some', 'args': [{'prim': 'Right', 'args': [{'int': str(x)}]}]}
    if t in (7, 9):
        return [{'prim': 'Left', 'args': [{'int': str(x)}]}] + [{'prim': 'Right', 'args': [{'string': 'r'}]}] * (x % 2)
    return {'prim': 'Pair', 'args': [{'int': str(x)}, {'string': f'p{x}'}]}


def val_of_expr(e):
    if isinstance(e, list):
        return ('V', 7, int(e[0]['args'][0]['int']))
    if 'prim' in e:
        if e['prim'] == 'None':
            return ('V', 6, 0)
        if e['prim'] == 'Some':
            return ('V', 6, int(e['args'][0]['args'][0]['int']))
        if e['prim'] == 'Pair' and e['args'][0].get('prim') in ('Left', 'Right'):
            return ('V', 5, int(e['args'][1]['int']))
        if e['prim'] == 'Left':
            return ('L', val_of_expr(e['args'][0]))
        if e['prim'] == 'Right':
            return ('R', val_of_expr(e['args'][0]))
        if e['prim'] == 'Unit':
            return ('V', 0, 0)
        if e['prim'] == 'Pair':
            return ('V', 4, int(e['args'][0]['int']))
        raise ValueError(e)
    if 'int' in e:
        return ('V', 1, int(e['int']))
    if 'string' in e:
        return ('V', 2, int(e['string'][1:]))
    if 'bytes' in e:
        b = bytes.fromhex(e['bytes'])
        return ('V', 3, b[0] + 256 * (len(b) - 1))
    raise ValueError(e)


def ann_tok(a):
    return '-' if a is None else '+' + a.encode().hex()


def ty_toks(t):
    if t[0] == 'l':
        return ['l', ann_tok(t[1]), str(t[2])]
    return ['o', ann_tok(t[1])] + ty_toks(t[2]) + ty_toks(t[3])


def val_toks(v):
    if v[0] == 'V':
        return ['V', str(v[1]), str(v[2])]
    return [v[0]] + val_toks(v[1])


def ty_str(t):
    """Michelson-ish rendering for messages"""
    a = '' if t[1] is None else f' %{t[1]}'
    if t[0] == 'l':
        if t[2] < 4:
            return ['unit', 'nat', 'string', 'bytes'][t[2]] + a
        from pytezos.michelson.format import micheline_to_michelson
        e = dict(LEAF_TYPES[t[2]])
        if t[1] is not None:
            e['annots'] = ['%' + t[1]]
        return '(' + micheline_to_michelson(e, inline=True) + ')'
    l, r = ty_str(t[2]), ty_str(t[3])
    wrap = lambda s, n: f'({s})' if n[0] == 'o' or (n[1] is not None and n[2] < 4) else s
    return f'or{a} {wrap(l, t[2])} {wrap(r, t[3])}'


def val_str(v):
    if v[0] == 'V':
        if v[1] == 0:
            return 'Unit'
        from pytezos.michelson.format import micheline_to_michelson
        return micheline_to_michelson(val_expr(v), inline=True, wrap=True)
    return ('Left ' if v[0] == 'L' else 'Right ') + (val_str(v[1]) if v[1][0] == 'V' else f'({val_str(v[1])})')


# ------------------------------------------------------------------------------------------ the specification
def truthy(a):
    return a if a else None


def anon(t):
    return (t[0], None) + t[2:]


def branches(t):
    out = [(truthy(t[1]), anon(t))] if truthy(t[1]) else []
    if t[0] == 'o':
        out += branches(t[2]) + branches(t[3])
    return out


def proper_branches(t):
    return branches(t[2]) + branches(t[3]) if t[0] == 'o' else []


def spec_root_name(t):
    if truthy(t[1]):
        return t[1]
    return 'root' if any(n == 'default' for n, _ in proper_branches(t)) else 'default'


def spec_entrypoints(t):
    """None: ill-formed (two branches with the same entrypoint name)"""
    br = proper_branches(t)
    names = [n for n, _ in br]
    if len(set(names)) != len(names):
        return None
    rn = spec_root_name(t)
    d = {n: ty for n, ty in br if n != rn}
    d[rn] = t
    return d


def spec_resolve(t, v):
    """(entrypoint, argument) a full value should be rendered as: the deepest annotated branch the value passes
    through (a branch named like the root entrypoint does not count), the root entrypoint otherwise"""
    rn = spec_root_name(t)
    best = (rn, v)
    node = t
    while node[0] == 'o' and v[0] in 'LR':
        node = node[2] if v[0] == 'L' else node[3]
        v = v[1]
        if truthy(node[1]) and node[1] != rn:
            best = (node[1], v)
    return best


def spec_inject(t, name, arg):
    """full value denoted by calling entrypoint `name` with `arg` (None: no such entrypoint)"""
    if name == spec_root_name(t):
        return arg

    def go(n):
        if truthy(n[1]) == name:
            return arg
        if n[0] == 'o':
            for tag, ch in (('L', n[2]), ('R', n[3])):
                r = go(ch)
                if r is not None:
                    return (tag, r)
        return None
    if t[0] != 'o':
        return None
    for tag, ch in (('L', t[2]), ('R', t[3])):
        r = go(ch)
        if r is not None:
            return (tag, r)
    return None


def values_of(t, payload=lambda i: i):
    """one value per leaf (all Left/Right paths)"""
    out = []

    def go(n, wrap):
        if n[0] == 'l':
            x = 0 if n[2] == 0 else payload(len(out) + 1)
            out.append(wrap(('V', n[2], x)))
        else:
            go(n[2], lambda v: wrap(('L', v)))
            go(n[3], lambda v: wrap(('R', v)))
    go(t, lambda v: v)
    return out


def well_typed(t, v):
    if t[0] == 'l':
        return v[0] == 'V' and v[1] == t[2]
    if v[0] == 'L':
        return well_typed(t[2], v[1])
    if v[0] == 'R':
        return well_typed(t[3], v[1])
    return False


# ------------------------------------------------------------------------------------------ the implementation
def classify(e):
    root = e
    while root.__cause__ is not None:
        root = root.__cause__
    msg = str(root.args[-1]) if root.args else ''
    if isinstance(root, KeyError):
        return 'err:key-error'
    if 'annotations are not allowed' in msg or 'argument type cannot be annotated' in msg:
        return 'err:rejected-type'
    if msg.startswith('duplicate key'):
        return 'err:duplicate-key'
    if msg.startswith('unexpected entrypoint'):
        return 'err:unknown-entrypoint'
    if isinstance(root, AssertionError) and msg.startswith('expected `'):
        return 'err:not-union'
    return 'err:bad-value'


class Impl:
    def __init__(self, t, warm=False, deco=None):
        """warm: before anything else the matched type is used the way a Python-object view uses it (to_python_object /
        from_python_object of a few values) — the answers of the parameter API must not depend on what was called before
        on the same type (per-class caches of layouts are shared between the two views)"""
        from pytezos.michelson.sections.parameter import ParameterSection
        self.t = t
        self.err = None
        self.texpr = ty_expr(t, deco)
        try:
            self.sec = ParameterSection.match({'prim': 'parameter', 'args': [self.texpr]})
        except Exception as e:
            self.sec, self.err = None, classify(e)
        if warm and self.sec is not None:
            for v in values_of(t)[:3]:
                try:
                    obj = self.sec.from_micheline_value(val_expr(v)).to_python_object()
                    self.sec.from_python_object(obj)
                except Exception:      # the Python-object view itself is property C12; here only its side effects matter
                    pass

    def root(self):
        return self.err or ann_tok(self.sec.root_name)

    def list(self):
        """dict name -> tree, or error string"""
        if self.err:
            return self.err
        try:
            return {k: ty_of_expr(v.as_micheline_expr()) for k, v in self.sec.list_entrypoints().items()}
        except Exception as e:
            return classify(e)

    def to(self, v):
        if self.err:
            return self.err
        try:
            r = self.sec.from_micheline_value(val_expr(v)).to_parameters()
            return (r['entrypoint'], val_of_expr(r['value']))
        except Exception as e:
            return classify(e)

    def frm(self, name, v):
        if self.err:
            return self.err
        try:
            return val_of_expr(self.sec.from_parameters({'entrypoint': name, 'value': val_expr(v)}).to_micheline_value())
        except Exception as e:
            return classify(e)


_LEAF_CLS = {}


def leaf_py(ty, x):
    """the Python object of the leaf value (ty, x), by the leaf type's own conversion (C12's subject; opaque here)"""
    from pytezos.michelson.types.base import MichelsonType
    if ty not in _LEAF_CLS:
        _LEAF_CLS[ty] = MichelsonType.match(LEAF_TYPES[ty])
    return _LEAF_CLS[ty].from_micheline_value(val_expr(('V', ty, x))).to_python_object()


def leaf_of(v):
    while v[0] != 'V':
        v = v[1]
    return v


def py_toks(obj, v):
    """tokens of the Python object `obj` that the real code produced for the value `v` (of a union type or a leaf type):
    a string, {name: leaf object} or the leaf object itself; None when it has another shape"""
    from pytezos.michelson.types.core import unit
    lv = leaf_of(v)
    leaf = ['U'] if lv[1] == 0 else ['V', str(lv[1]), str(lv[2])]

    def is_leaf(o):
        try:
            return isinstance(o, unit) if lv[1] == 0 else (type(o) is type(leaf_py(lv[1], lv[2])) and o == leaf_py(lv[1], lv[2]))
        except Exception:
            return False
    if v[0] == 'V':
        return leaf if is_leaf(obj) else None
    if isinstance(obj, str):
        return ['S', hex_tok(obj)]
    if isinstance(obj, dict) and len(obj) == 1:
        k = next(iter(obj))
        if isinstance(k, str) and is_leaf(obj[k]):
            return ['D', hex_tok(k)] + leaf
    return None


def py_of_toks(toks):
    from pytezos.michelson.types.core import Unit
    if toks[0] == 'U':
        return Unit
    if toks[0] == 'V':
        return leaf_py(int(toks[1]), int(toks[2]))
    name = bytes.fromhex(toks[1][1:]).decode()
    return name if toks[0] == 'S' else {name: py_of_toks(toks[2:])}


def python_object_cases(ctx, en):
    """calls in the Python-object form (ParameterSection.from_python_object — what `contract.<entrypoint>(arg)` uses) and the
    Python-object view of full values, for one matched type.  Returns [(line, kind, payload)]: the model lines and what to do with
    the answer.  Oracle: the call `{e: object of a}` builds the full value `from_parameters(e, a)` denotes (spec_inject), whatever
    `:type` names the nodes carry — a type name (display name) is not an entrypoint."""
    rng = ctx.rng
    t, im, toks = en['t'], en['im'], en['toks']
    out = []
    sp = spec_entrypoints(t)
    if im.sec is None or sp is None:
        return out
    try:
        listed = im.sec.list_entrypoints()
    except Exception:
        return out
    rn = spec_root_name(t)
    names = list(sp)
    if len(names) > 4:
        names = rng.sample(names, 4)
    for n in names:
        if n not in listed:
            continue
        args = values_of(sp[n], payload=lambda i: i * 7 + 3)
        a = rng.choice(args)
        try:
            obj = listed[n].from_micheline_value(val_expr(a)).to_python_object()
        except Exception:
            continue
        ot = py_toks(obj, a)
        if ot is None:
            continue
        out.append((f'pyfrom {toks} D {hex_tok(n)} ' + ' '.join(ot), 'call', (n, a, {n: obj})))
        if sp[n][0] == 'l' and sp[n][2] == 0:
            out.append((f'pyfrom {toks} S {hex_tok(n)}', 'call', (n, a, n)))
    # names that are display names of leaves (`:type` names, generated names) or nothing at all
    others = set(en['type_names']) | {'nat_0', 'unit_1', 'nosuch'}
    for n in sorted(others)[:3]:
        a = ('V', 1, 5)
        out.append((f'pyfrom {toks} D {hex_tok(n)} V 1 5', 'probe', (n, a, {n: 5})))
    # the Python-object view of full values
    vals = en['vals']
    for v in (vals if len(vals) <= 2 else rng.sample(vals, 2)):
        out.append((f'pyto {toks} ' + ' '.join(val_toks(v)), 'view', v))
    return out


def python_object_check(ctx, en, kind, payload, model_line):
    t, im = en['t'], en['im']
    sp = spec_entrypoints(t)
    if kind == 'view':
        v = payload
        try:
            obj = im.sec.from_micheline_value(val_expr(v)).to_python_object()
            if t[0] != 'o':
                assert isinstance(obj, dict) and list(obj) == [im.sec.root_name]
                inner = py_toks(obj[im.sec.root_name], v)
                got = None if inner is None else ' '.join(['D', hex_tok(im.sec.root_name)] + inner)
            else:
                got = py_toks(obj, v)
                got = None if got is None else ' '.join(got)
            if got is None:
                got = 'other-shape'
        except Exception as e:
            got = classify(e)
        ctx.case({'op': 'to_python_object', 'type': en['tdesc'], 'value': val_str(v)}, nontrivial=True)
        if model_line is not None and model_line != got:
            ctx.mismatch('to-python-object', {'type': en['tdesc'], 'value': val_str(v)}, got, model_line)
        return
    n, a, obj = payload
    try:
        got = val_of_expr(im.sec.from_python_object(obj).to_micheline_value())
    except Exception as e:
        got = classify(e)
    ctx.case({'op': 'from_python_object', 'type': en['tdesc'], 'entrypoint': n, 'form': 'str' if isinstance(obj, str) else 'dict', 'kind': kind}, nontrivial=True)
    shown = show_val(got)
    if isinstance(got, str) and got not in ('err:key-error', 'err:rejected-type', 'err:duplicate-key'):
        # TypeError / AssertionError / the leaf reader's own exception: one class on both sides
        shown = 'err'
    if model_line is not None:
        m = model_line if not model_line.startswith('err:') or model_line in ('err:key-error', 'err:rejected-type', 'err:duplicate-key') else 'err'
        if m != shown:
            ctx.mismatch('from-python-object', {'type': en['tdesc'], 'call': repr(obj)}, shown, m)
    ctx.count('python_object_form', f'{kind}:{en["deco_mode"]}')
    if kind == 'call':
        want = spec_inject(t, n, a)
        if got != want:
            ctx.violation(f'from_python_object-wrong-value:{en["deco_mode"]}',
                          f'parameter {json.dumps(im.texpr)}: the call {obj!r} given as a Python object builds '
                          f'{got if isinstance(got, str) else val_str(got)}, expected {val_str(want)} (= from_parameters({n}, {val_str(a)}))',
                          {'type': im.texpr, 'entrypoint': n, 'argument': val_expr(a), 'got': got if isinstance(got, str) else val_expr(got), 'expected': val_expr(want)})
    elif n not in sp and not isinstance(got, str):
        ctx.violation(f'from_python_object-accepts-unlisted-name:{en["deco_mode"]}',
                      f'parameter {json.dumps(im.texpr)}: the call {obj!r} names no entrypoint (listed: {sorted(sp)}) but was decoded as {val_str(got)}',
                      {'type': im.texpr, 'call': n, 'got': val_expr(got)})


# ------------------------------------------------------------------------------------------ decorations
DECO_MODES = ['plain'] * 9 + ['type-names'] * 3 + ['type-names=entrypoints'] * 3 + ['several-annotations'] * 4 + ['rejected-annotations']


def decorate(rng, t, mode):
    """raw annotation lists for some nodes: (deco, type names used)"""
    nodes = []

    def walk(n, path):
        nodes.append((path, n))
        if n[0] == 'o':
            walk(n[2], path + '0')
            walk(n[3], path + '1')
    walk(t, '')
    deco, tnames = {}, []
    if mode == 'plain':
        return deco, tnames
    entry = [n[1] for _, n in nodes if n[1]] + ['default', 'root']
    k = 0
    for path, n in nodes:
        base = ['%' + n[1]] if n[1] is not None else []
        if rng.random() < 0.35:
            continue
        k += 1
        if mode == 'type-names':
            tn = f'ty{rng.randrange(4)}'
            deco[path] = [':' + tn] + base
        elif mode == 'type-names=entrypoints':
            tn = rng.choice(entry)
            deco[path] = rng.choice([[':' + tn] + base, base + [':' + tn]])
        else:
            tn = rng.choice([f't{k}', rng.choice(entry)])
            extra = rng.choice([[':' + tn], ['@v'], [':' + tn, '@v'], ['@v', '@w'], ['@' + (n[1] or 'x'), ':' + tn], ['$odd', ':' + tn], ['']])
            lst = base + extra
            rng.shuffle(lst)
            deco[path] = lst
            if not any(a.startswith(':') for a in lst):
                tn = None
        if tn is not None:
            tnames.append(tn)
    if mode == 'rejected-annotations':
        path, n = rng.choice(nodes)
        base = deco.get(path, ['%' + n[1]] if n[1] is not None else [])
        extra = rng.choice([['%zz'], ['%' + (n[1] or 'a'), '%' + (n[1] or 'b')], [':s', ':t'], ['%'], [':s', '@v', ':s']])
        if extra == ['%'] and not any(a.startswith('%') for a in base):
            extra = ['%', '%q']
        if extra[0].startswith(':'):
            base = [a for a in base if not a.startswith(':')]
        lst = base + extra
        while sum(a.startswith('%') for a in lst) < 2 and sum(a.startswith(':') for a in lst) < 2:
            lst.append('%' + rng.choice(['zz', '', n[1] or 'b']))
        rng.shuffle(lst)
        deco[path] = lst
    return deco, tnames


def show_dict(d):
    return d if isinstance(d, str) else ' ; '.join(' '.join([ann_tok(k)] + ty_toks(v)) for k, v in d.items())


def show_pair(r):
    return r if isinstance(r, str) else ' '.join([ann_tok(r[0])] + val_toks(r[1]))


def show_val(r):
    return r if isinstance(r, str) else ' '.join(val_toks(r))


# ------------------------------------------------------------------------------------------ generation
def shapes(n):
    """all binary tree shapes with n leaves: None = leaf, (l, r)"""
    if n == 1:
        return [None]
    out = []
    for k in range(1, n):
        for l in shapes(k):
            for r in shapes(n - k):
                out.append((l, r))
    return out


def n_nodes(s):
    return 1 if s is None else 1 + n_nodes(s[0]) + n_nodes(s[1])


def build(shape, anns, leaf_types):
    """anns: list of annotations in pre-order, leaf_types: iterator of leaf type ids"""
    it = iter(anns)
    lt = iter(leaf_types)

    def go(s):
        a = next(it)
        if s is None:
            return ('l', a, next(lt))
        return ('o', a, go(s[0]), go(s[1]))
    return go(shape)


def random_shape(rng, depth):
    if depth == 0 or rng.random() < 0.38:
        return None
    return (random_shape(rng, depth - 1), random_shape(rng, depth - 1))


def special_names(rng, anns, mode):
    """rename some of the annotated nodes (index 0 = the root)"""
    idx = [i for i, a in enumerate(anns) if a is not None and i > 0]
    anns = list(anns)
    if mode == 'default' and idx:
        anns[rng.choice(idx)] = 'default'
    elif mode == 'root' and idx:
        anns[rng.choice(idx)] = 'root'
    elif mode == 'default+root' and len(idx) >= 2:
        a, b = rng.sample(idx, 2)
        anns[a], anns[b] = 'default', 'root'
    elif mode == 'dup' and len(idx) >= 2:
        a, b = rng.sample(idx, 2)
        anns[a] = anns[b]
    elif mode == 'root-shadow' and idx and anns[0] is not None:
        anns[rng.choice(idx)] = anns[0]
    elif mode == 'empty' and idx:
        anns[rng.choice(idx)] = ''
    elif mode == 'long' and idx:
        # the longest names Tezos accepts for an entrypoint (31 characters) and their neighbours
        n = rng.choice([31, 31, 30, 29, 16])
        anns[rng.choice(idx)] = ('transfer_ownership_of_the_token_x' * 2)[:n] if rng.random() < 0.5 else ''.join(rng.choice('abcXYZ019_') for _ in range(n))
    elif mode == 'root=default' and anns:
        anns[0] = rng.choice(['default', 'root', ''])
    return anns


MODES = ['plain', 'plain', 'plain', 'default', 'root', 'default+root', 'dup', 'root-shadow', 'empty', 'root=default', 'long']


def gen_types(ctx):
    rng = ctx.rng
    out = []
    # hand-picked: the recorded defects and the root-name corner cases
    nat, string, unit = 1, 2, 0
    out += [
        ('corpus', ('o', None, ('o', 'A', ('l', None, nat), ('l', None, string)), ('l', 'B', nat))),
        ('corpus', ('o', None, ('l', 'a', nat), ('o', None, ('l', 'b', string), ('l', None, unit)))),
        ('corpus', ('o', None, ('l', 'default', nat), ('l', 'root', string))),
        ('corpus', ('o', 'foo', ('l', 'foo', nat), ('l', None, string))),
        ('corpus', ('o', None, ('l', 'a', nat), ('l', 'a', string))),
        ('corpus', ('o', 'r', ('l', 'a', nat), ('l', 'a', string))),
        ('corpus', ('o', None, ('l', None, nat), ('l', None, string))),
        ('corpus', ('o', None, ('l', '', nat), ('l', None, string))),
        ('corpus', ('o', None, ('o', 'default', ('l', 'x', nat), ('l', None, unit)), ('l', None, string))),
        ('corpus', ('o', None, ('o', 'A', ('o', 'B', ('l', 'C', nat), ('l', None, unit)), ('l', None, unit)), ('l', None, string))),
        ('corpus', ('o', None, ('l', 'a', 5), ('l', None, 6))), ('corpus', ('o', None, ('l', 'e2', 7), ('o', 'b', ('l', None, 6), ('l', None, 5)))),
        ('corpus', ('l', None, 5)), ('corpus', ('l', 'x', 7)), ('corpus', ('o', None, ('l', 'a', 8), ('l', None, 1))), ('corpus', ('l', None, 9)),
        ('corpus', ('l', None, nat)), ('corpus', ('l', 'x', nat)), ('corpus', ('l', '', string)), ('corpus', ('l', 'default', 4)), ('corpus', ('l', 'root', unit)),
    ]
    if ctx.tier == 'thorough':
        # every annotation subset of every union shape with <= 6 leaves (distinct names) ...
        for n in range(1, 7):
            for sh in shapes(n):
                k = n_nodes(sh)
                for bits in itertools.product((False, True), repeat=k):
                    anns = [f'n{i}' if b else None for i, b in enumerate(bits)]
                    lts = [(i + n) % 5 for i in range(n)]
                    out.append(('exhaustive', build(sh, anns, lts)))
                    # ... and one variant of it with the reserved / clashing names
                    mode = rng.choice(MODES[3:])
                    anns2 = special_names(rng, anns, mode)
                    if anns2 != anns:
                        out.append(('exhaustive-' + mode, build(sh, anns2, lts)))
        n_random = 6000
    else:
        for n in range(1, 5):
            for sh in shapes(n):
                k = n_nodes(sh)
                for bits in itertools.product((False, True), repeat=k):
                    anns = [f'n{i}' if b else None for i, b in enumerate(bits)]
                    out.append(('exhaustive', build(sh, anns, [(i + n) % 5 for i in range(n)])))
        n_random = 2600
    for _ in range(n_random):
        sh = random_shape(rng, rng.choice([1, 2, 3, 4, 5, 5]))
        if sh is None and rng.random() < 0.8:
            sh = (None, None)
        k = n_nodes(sh)
        p = rng.choice([0.15, 0.4, 0.7, 0.95])
        anns = [f'e{i}' if rng.random() < p else None for i in range(k)]
        if rng.random() < 0.75:
            anns[0] = None
        mode = rng.choice(MODES)
        anns = special_names(rng, anns, mode)
        lts = [rng.randrange(5) if rng.random() < 0.85 else rng.choice(STRUCTURED_LEAVES + STRUCTURED_LEAVES + STRUCTURED_LEAVES + REFUSED_LEAVES[:1] + STRUCTURED_LEAVES + REFUSED_LEAVES[1:]) for _ in range(k)]
        out.append(('random-' + mode, build(sh, anns, lts)))
    return out


def iter_nodes(t):
    yield t
    if t[0] == 'o':
        yield from iter_nodes(t[2])
        yield from iter_nodes(t[3])


def depth(t):
    return 0 if t[0] == 'l' else 1 + max(depth(t[2]), depth(t[3]))


def n_leaves(t):
    return 1 if t[0] == 'l' else n_leaves(t[2]) + n_leaves(t[3])


# ------------------------------------------------------------------------------------------ shrinking
def shrink(t, v, fails):
    """greedy: drop annotations / replace off-path subtrees by a unit leaf / strip the root while `fails(t, v)`"""
    def candidates(t, v):
        # strip the root union (keep the branch the value takes)
        if t[0] == 'o' and v[0] in 'LR':
            yield (t[2] if v[0] == 'L' else t[3]), v[1]

        def sub(n, w):
            """(n', w') variants of node n with value w on the path (w None: off path)"""
            if n[1] is not None:
                yield (n[0], None) + n[2:], w
            if n[0] == 'o':
                if w is None or w[0] not in 'LR':
                    yield ('l', n[1], 0), w
                    return
                onl = w[0] == 'L'
                for n2, w2 in sub(n[2], w[1] if onl else None):
                    yield ('o', n[1], n2, n[3]), (('L', w2) if onl else w)
                for n3, w3 in sub(n[3], None if onl else w[1]):
                    yield ('o', n[1], n[2], n3), (w if onl else ('R', w3))
            elif w is not None and w[0] == 'V' and n[2] != 0:
                yield ('l', n[1], 0), ('V', 0, 0)
            elif w is None and n[2] != 0:
                yield ('l', n[1], 0), None
        yield from sub(t, v)

    changed = True
    steps = 0
    while changed and steps < 200:
        changed = False
        for t2, v2 in candidates(t, v):
            steps += 1
            try:
                if t2[0] == 'o' and well_typed(t2, v2) and fails(t2, v2):
                    t, v, changed = t2, v2, True
                    break
            except Exception:
                pass
    return t, v


# ------------------------------------------------------------------------------------------ the check
def roundtrip_failure(t, v, im=None, warm=False):
    """None when the full value v of t round-trips through (entrypoint, argument) on the real code; else (kind, what)"""
    im = im or Impl(t, warm=warm)
    r = im.to(v)
    want = spec_resolve(t, v)
    if isinstance(r, str):
        kind = 'to_parameters-raises'
        leaf_annotated = want[1][0] == 'V' and want[0] != spec_root_name(t)
        if not leaf_annotated:
            kind += ':value-on-unannotated-leaf'
        return kind, f'to_parameters raised {r}, expected {want[0]} {val_str(want[1])}'
    back = im.frm(r[0], r[1])
    if back != v:
        kind = 'to_parameters-returns-shadowed-name' if r[0] == spec_root_name(t) and r != want else 'roundtrip-differs'
        return kind, f'to_parameters gave ({r[0]}, {val_str(r[1])}); from_parameters of that gave {back if isinstance(back, str) else val_str(back)}'
    return None     # (whether the answer is the *deepest* annotated branch is compared with the mirror, it is not demanded by the property)


def run(ctx):
    ctx.prepare_lean(extract.generate(PROP))
    ctx.extra['rule'] = ('parameter types = `or` trees (depth <= 5) with a %annotation on any subset of nodes (distinct names, or default/root/'
                         'duplicate/empty/root-shadowing names), five opaque leaf types, non-union roots; per type: root name, entrypoint list, '
                         'to_parameters/from_parameters of every leaf value, from/to of every listed entrypoint with every argument, '
                         'ill-typed and unknown-entrypoint calls; thorough = all annotation subsets of all shapes with <= 6 leaves. '
                         'Random types (and half of the corpus) are decorated: `:type` names (fresh / equal to entrypoint names) on 65 % of the nodes, several '
                         'annotations on a node in random order with @var / odd-prefix / empty noise, one node with two % or two : annotations (rejected); '
                         '15 % of the random leaves are pair / option / list types with annotated unions below them (or leaves Micheline.match refuses). '
                         'Per accepted type additionally: from_python_object({e: object of a}) for up to 4 listed entrypoints, the string form for unit '
                         'entrypoints, three names that are no entrypoints (type names, generated display names), to_python_object of two full values. '
                         'non-trivial = union type with at least one annotated node')
    ctx.assumptions += [
        'Spec.entrypoints / spec_entrypoints are my transcription of Tezos\' rule: every annotated union branch (inner or leaf, any depth) is an '
        'entrypoint named by its annotation and typed by the branch without that annotation; duplicate names make the type ill-formed',
        'root entrypoint name: the root type\'s own %annotation (legacy Tezos syntax, the only one pytezos parses), else `default`; when a branch is '
        'named `default` pytezos exposes the whole parameter as `root` (pytezos convention; Tezos then has no name for the whole parameter)',
        'unsure: Tezos additionally resolves `default` to the whole parameter when the root is annotated and no branch is named default — pytezos '
        'lists one root name only; this check follows pytezos there (listing), the round-trip statements do not depend on it',
        'a branch whose name equals the root name (root annotated %x with a branch %x — Tezos rejects that type as a duplicate; `%root` next to '
        '`%default`) is treated as shadowed by the root entrypoint, as from_parameters and list_entrypoints do',
        'leaf types are opaque: unit, nat, string, bytes, pair nat string stand for all non-union types; their own decoding is C11',
        'Python objects of non-union types are opaque in the model (produced and read by the real leaf type: C12); of the shapes '
        'OrType.from_python_object accepts, `{name: obj}` and the enum string are modelled (not tuples / lists)',
        'a type expression with two `%` or two `:` annotations on a node is rejected by Tezos and by Micheline.match; pytezos also refuses a '
        '%annotation on the argument of option / list and ignores `@var` annotations on types (Tezos rejects those): the model follows pytezos',
    ]
    types = gen_types(ctx)
    max_vals = 10 if ctx.tier == 'quick' else 6
    lines, plan = [], []   # plan: (kind, payload, line index)
    impls = []
    for ti, (origin, t) in enumerate(types):
        mode = 'plain' if origin.startswith('exhaustive') or (origin == 'corpus' and ti % 2 == 0) else ctx.rng.choice(DECO_MODES)
        deco, tnames = decorate(ctx.rng, t, mode)
        im = Impl(t, warm=(ti % 2 == 1), deco=deco)
        toks = ' '.join(rty_toks(im.texpr))
        ctx.count('python_view_used_first', ti % 2 == 1)
        entry = {'origin': origin, 't': t, 'im': im, 'i0': len(lines), 'warm': ti % 2 == 1, 'toks': toks, 'deco_mode': mode,
                 'type_names': tnames, 'rejected': not raw_ok(im.texpr), 'py': [], 'vals': [], 'calls': [],
                 'tdesc': ty_str(t) if not deco else json.dumps(im.texpr)}
        lines += ['root ' + toks, 'list ' + toks, 'spec ' + toks]
        if entry['rejected']:
            impls.append(entry)
            continue
        assert view_expr(im.texpr) == t, (im.texpr, t)
        vals = values_of(t, payload=lambda i: i * 3 + 1)
        if len(vals) > max_vals:
            vals = ctx.rng.sample(vals, max_vals)
        entry['vals'] = vals
        for v in vals:
            lines.append('to ' + toks + ' ' + ' '.join(val_toks(v)))
        # calls: every spec entrypoint x every argument (sampled when large), + an unknown name, + an ill-typed argument
        calls = []
        sp = spec_entrypoints(t)
        names = list(sp) if sp is not None else [n for n, _ in proper_branches(t)] + [spec_root_name(t)]
        for n in names:
            aty = sp[n] if sp is not None else t
            args = values_of(aty, payload=lambda i: i * 5 + 2)
            if len(args) > 4:
                args = ctx.rng.sample(args, 4)
            calls += [(n, a, 'listed') for a in args]
        calls.append(('nosuch', ('V', 1, 7), 'unknown'))
        if names:
            n = ctx.rng.choice(names)
            calls.append((n, ctx.rng.choice([('V', 3, 9), ('L', ('L', ('L', ('L', ('L', ('L', ('V', 1, 1))))))), ('R', ('V', 0, 0))]), 'ill-typed?'))
        if len(calls) > (3 * max_vals if ctx.tier == 'quick' else 8):
            calls = ctx.rng.sample(calls, 3 * max_vals if ctx.tier == 'quick' else 8)
        entry['calls'] = calls
        for n, a, _ in calls:
            lines.append('from ' + toks + ' ' + ann_tok(n) + ' ' + ' '.join(val_toks(a)))
        if (ti % 8 == 0 if (ctx.tier == 'thorough' and origin.startswith('exhaustive')) else (ti % 3 != 2 or mode != 'plain')):
            for ln, kind, payload in python_object_cases(ctx, entry):
                entry['py'].append((len(lines), kind, payload))
                lines.append(ln)
        impls.append(entry)
    model = ctx.model(lines)
    if model and model[0] == 'unrecognised-source':
        model = None     # the translator did not recognise the source (obligation already broken): oracle only

    def cmp(stream, desc, impl, idx):
        if model is not None and model[idx] != impl:
            ctx.mismatch(stream, desc, impl, model[idx])

    seen_kinds = set()
    for en in impls:
        t, im, i = en['t'], en['im'], en['i0']
        tdesc = en['tdesc']
        nontriv = t[0] == 'o' and any(truthy(n) for n, _ in branches(t))
        ctx.count('origin', en['origin'])
        ctx.count('annotations', en['deco_mode'])
        has = lambda ids: any(n[0] == 'l' and n[2] in ids for n in iter_nodes(t))
        ctx.count('leaves_with_unions_below', 'refused' if has(REFUSED_LEAVES) else has(STRUCTURED_LEAVES))
        if en['rejected']:
            # the type expression itself is refused (two % / two : annotations on a node, %annotation below option / list)
            ctx.case({'op': 'match', 'type': tdesc}, nontrivial=True)
            cmp('root-name', tdesc, im.root(), i)
            cmp('list-entrypoints', tdesc, show_dict(im.list()), i + 1)
            if model is not None and model[i + 2] != 'rejected':
                ctx.mismatch('lean-spec-vs-python-spec', tdesc, 'rejected', model[i + 2])
            ctx.count('spec', 'rejected-type-expression')
            if im.err is None:
                small = minimal_rejected(im.texpr)
                ctx.violation('accepts-rejected-type-expression', f'parameter {json.dumps(small)} was matched although a node carries several field / type '
                              f'annotations (or the argument of option / list a field annotation)', {'type': small, 'found_on': im.texpr})
            continue
        ctx.count('depth', depth(t))
        ctx.count('leaves', min(n_leaves(t), 12))
        ctx.count('annotated_nodes', min(len(branches(t)), 8))
        sp = spec_entrypoints(t)
        # ---- listing
        got = im.list()
        ctx.case({'op': 'list', 'type': tdesc}, nontrivial=nontriv)
        cmp('root-name', tdesc, im.root(), i)
        cmp('list-entrypoints', tdesc, show_dict(got), i + 1)
        if model is not None:
            want_line = 'ill-formed' if sp is None else None
            mspec = model[i + 2]
            if sp is None:
                if mspec != 'ill-formed':
                    ctx.mismatch('lean-spec-vs-python-spec', tdesc, 'ill-formed', mspec)
            else:
                if sorted(mspec.split(' ; ')) != sorted(show_dict(sp).split(' ; ')):
                    ctx.mismatch('lean-spec-vs-python-spec', tdesc, show_dict(sp), mspec)
        if sp is None:
            ctx.count('spec', 'ill-formed')
            if not isinstance(got, str):
                ctx.violation(f'lists-ill-formed-type:{tdesc}', f'parameter ({tdesc}) has duplicate entrypoint names but list_entrypoints returned {sorted(got)}', {'type': im.texpr})
        else:
            ctx.count('spec', 'shadowed-branch' if any(n == spec_root_name(t) for n, _ in proper_branches(t)) else 'ok')
            if isinstance(got, str) or got != sp:
                ctx.violation(f'entrypoints-differ:{tdesc}',
                              f'parameter ({tdesc}): list_entrypoints = {got if isinstance(got, str) else {k: ty_str(v) for k, v in got.items()}}, '
                              f'expected {{{", ".join(k + ": " + ty_str(v) for k, v in sp.items())}}}', {'type': im.texpr})
        # ---- full value -> (entrypoint, argument) -> full value
        j = i + 3
        for v in en['vals']:
            ctx.case({'op': 'to', 'type': tdesc, 'value': val_str(v)}, nontrivial=nontriv)
            r = im.to(v)
            cmp('to-parameters', {'type': tdesc, 'value': val_str(v)}, show_pair(r), j)
            j += 1
            if sp is None:
                if not isinstance(r, str):
                    ctx.violation(f'to_parameters-on-ill-formed-type:{tdesc}', f'to_parameters succeeded on a type with duplicate entrypoints', {'type': im.texpr, 'value': val_expr(v)})
                continue
            f = roundtrip_failure(t, v, im)
            ctx.count('to_parameters', 'ok' if f is None else f[0])
            if f is not None:
                kind = f[0]
                if kind in seen_kinds and ctx.tier != 'quick' and len(ctx.violations) > 200:
                    continue
                seen_kinds.add(kind)
                w = en['warm']
                t2, v2 = shrink(t, v, lambda a, b: (roundtrip_failure(a, b, warm=w) or ('',))[0] == kind)
                f2 = roundtrip_failure(t2, v2, warm=w)
                if f2 is None:          # not reproducible on a freshly matched type: keep the case as found
                    t2, v2, f2 = t, v, f
                after = ' (after to_python_object / from_python_object were used on the same matched type)' if w else ''
                ctx.violation(f'{kind}' + (':after-python-view' if w else ''), f'parameter ({ty_str(t2)}), value {val_str(v2)}{after}: {f2[1]}',
                              {'type': ty_expr(t2), 'value': val_expr(v2), 'kind': kind, 'python_view_used_first': w,
                               'found_on': {'type': im.texpr, 'value': val_expr(v)}})
        # ---- (entrypoint, argument) -> full value -> (entrypoint', argument') -> full value
        for n, a, why in en['calls']:
            ctx.case({'op': 'from', 'type': tdesc, 'entrypoint': n, 'arg': val_str(a)}, nontrivial=nontriv)
            r = im.frm(n, a)
            cmp('from-parameters', {'type': tdesc, 'entrypoint': n, 'arg': val_str(a)}, show_val(r), j)
            j += 1
            if sp is None:
                continue
            listed = n in sp and well_typed(sp[n], a)
            ctx.count('from_parameters', 'listed+typed' if listed else ('ok' if not isinstance(r, str) else r))
            if not listed:
                if not isinstance(r, str) and (n not in sp):
                    ctx.violation(f'accepts-unlisted-entrypoint:{tdesc}:{n}', f'from_parameters accepted entrypoint {n} that is not listed', {'type': im.texpr, 'entrypoint': n})
                continue
            want = spec_inject(t, n, a)
            if r != want:
                ctx.violation(f'from_parameters-wrong-value:{tdesc}:{n}', f'parameter ({tdesc}): from_parameters({n}, {val_str(a)}) = {r if isinstance(r, str) else val_str(r)}, expected {val_str(want)}',
                              {'type': im.texpr, 'entrypoint': n, 'value': val_expr(a)})
                continue
            back = im.to(r)
            if isinstance(back, str) or im.frm(*back) != r:
                # the full value does not convert back: same defect class as the value round trip (reported there, shrunk)
                f = roundtrip_failure(t, r, im)
                if f is not None and f[0] not in seen_kinds:
                    seen_kinds.add(f[0])
                    w = en['warm']
                    t2, v2 = shrink(t, r, lambda x, y: (roundtrip_failure(x, y, warm=w) or ('',))[0] == f[0])
                    f2 = roundtrip_failure(t2, v2, warm=w)
                    if f2 is None:
                        t2, v2, f2 = t, r, f
                    ctx.violation(f[0] + (':after-python-view' if w else ''), f'parameter ({ty_str(t2)}), value {val_str(v2)}: {f2[1]}',
                                  {'type': ty_expr(t2), 'value': val_expr(v2), 'kind': f[0], 'found_via_entrypoint': n, 'python_view_used_first': w})
                continue
            # strongest form: a leaf-typed, unshadowed entrypoint comes back as the very same pair
            if sp[n][0] == 'l' and back != (n, a):
                ctx.violation(f'pair-not-preserved:{tdesc}:{n}', f'parameter ({tdesc}): ({n}, {val_str(a)}) came back as ({back[0]}, {val_str(back[1])})',
                              {'type': im.texpr, 'entrypoint': n, 'value': val_expr(a)})
        # ---- the Python-object form of calls / of full values
        for idx, kind, payload in en['py']:
            python_object_check(ctx, en, kind, payload, model[idx] if model is not None else None)
