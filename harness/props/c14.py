"""C14 — sets and maps behave like sorted dictionaries under any update history.

Real code: a history is executed instruction by instruction on a real `MichelsonStack` (EMPTY_SET / EMPTY_MAP or a PUSHed
literal, then UPDATE, GET_AND_UPDATE, MAP { CDR; PUSH int c; ADD }, and the read-only MEM / GET / SIZE / ITER { CONS } on a
DUP); after EVERY step the whole collection is read back from the stack.  Oracle: a reference dictionary (Python dict keyed by
the equivalence class of the key, iterated in the order of harness/gen_c03.py `tz_cmp`).  Model: lean/Driver/C14.lean
(`Impl.Coll.*` instantiated with the C03 mirror of `__eq__` / `__lt__` on typed structured values)."""
import functools
import itertools

from harness import gen_c03 as G
from harness import real_c03 as R
from translator import extract

PROP = 'C14'

FIXED_TYPES = [
    'int', 'string', 'bytes', ('pair', 'int', 'int'), ('pair', 'string', 'bytes'), ('option', 'int'), ('or', 'int', 'string'),
    'address', ('pair', 'address', 'nat'), ('pair', ('option', ('or', 'int', 'string')), ('pair', 'address', 'nat')),
    'key', 'key_hash', 'signature', 'bool', 'unit', ('option', 'unit'), ('or', 'unit', 'bool'), 'mutez', 'timestamp', 'chain_id',
    ('pair', 'nat', ('pair', 'nat', 'nat')), ('or', ('pair', 'int', 'int'), ('option', 'string')),
]
INT = {'prim': 'int'}
OPT_INT = {'prim': 'option', 'args': [INT]}


# value types of the maps: the dictionary semantics never looks at the value, so the histories carry an integer CODE that is
# rendered as a value of the chosen type on the real side (code 0 is the one Python treats as falsy: False, "", 0x, {} …)
VALUE_KINDS = {
    'int': (INT, None, None),
    'bool': ({'prim': 'bool'}, [{'prim': 'False'}, {'prim': 'True'}], lambda o: 1 if bool(o) else 0),
    'string': ({'prim': 'string'}, [{'string': ''}, {'string': 'a'}, {'string': 'b'}, {'string': 'ab'}], lambda o: ['', 'a', 'b', 'ab'].index(str(o))),
    'bytes': ({'prim': 'bytes'}, [{'bytes': ''}, {'bytes': '00'}, {'bytes': '01'}, {'bytes': 'ff00'}],
              lambda o: ['', '00', '01', 'ff00'].index(bytes(o).hex())),
    'list int': ({'prim': 'list', 'args': [INT]}, [[], [{'int': '0'}], [{'int': '1'}, {'int': '2'}]], lambda o: [0, 1, 2].index(len(list(o)))),
    'option int': ({'prim': 'option', 'args': [INT]}, [{'prim': 'None'}, {'prim': 'Some', 'args': [{'int': '0'}]}, {'prim': 'Some', 'args': [{'int': '5'}]}],
                   lambda o: 0 if o.item is None else (1 if int(o.item) == 0 else 2)),
    'set nat': ({'prim': 'set', 'args': [{'prim': 'nat'}]}, [[], [{'int': '0'}], [{'int': '1'}, {'int': '2'}]], lambda o: [0, 1, 2].index(len(list(o)))),
}


def P(prim, *args):
    return {'prim': prim, 'args': list(args)} if args else {'prim': prim}


# ---------------------------------------------------------------------------------------------------------------------
class Universe:
    def __init__(self, t, vals, vkind='int'):
        self.t, self.vals, self.vkind = t, vals, vkind
        self.vty, self.vlits, self.vdec_fn = VALUE_KINDS[vkind]
        self.raws = [R.raw_of_abs(t, v) for v in vals]
        self.rep = [next(j for j in range(len(vals)) if G.tz_eq(vals[j], vals[i])) for i in range(len(vals))]
        order = sorted(set(self.rep), key=functools.cmp_to_key(lambda i, j: G.tz_cmp(vals[i], vals[j])))
        self.rank = {c: r for r, c in enumerate(order)}

    def venc(self, code):
        return {'int': str(code)} if self.vlits is None else self.vlits[int(code)]

    def vdec(self, obj):
        return int(obj) if self.vlits is None else self.vdec_fn(obj)

    def cls_of_raw(self, raw):
        i = R._index_of(raw, self.raws)
        return self.rep[i] if i >= 0 else -1


def gen_universe(rng, t, n):
    vals = [G.gen_value(rng, t)]
    while len(vals) < n:
        r = rng.random()
        if r < 0.65:
            v = G.near(rng, t, rng.choice(vals))
        elif r < 0.75:
            v = rng.choice(vals)            # an exact duplicate (another index for the same key)
        else:
            v = G.gen_value(rng, t)
        vals.append(v)
    rng.shuffle(vals)
    return vals


def _val(rng, hi):
    """map value codes: a quarter are 0 — the falsy value of every value kind (`if prev_val:` is not `if prev_val is not None:`)"""
    return 0 if rng.random() < 0.25 else rng.randrange(-3 if hi > 4 else 0, hi)


def gen_history(rng, kind, n, max_len, vcodes=None):
    """(start, ops) in the token form of the driver"""
    if rng.random() < 0.7:
        start = ['e']
    else:
        k = rng.randrange(0, n + 1)
        idxs = [rng.randrange(n) for _ in range(k)] if rng.random() < 0.3 else rng.sample(range(n), k)
        start = [f'l{k}'] + [str(i) if kind == 'set' else f'{i}:{_val(rng, vcodes or 9)}' for i in idxs]
    ln = rng.randrange(1, max_len + 1)
    ops = []
    for _ in range(ln):
        i = rng.randrange(n)
        r = rng.random()
        if kind == 'set':
            ops.append(f'a{i}' if r < 0.45 else f'r{i}' if r < 0.75 else f'm{i}' if r < 0.88 else 'z' if r < 0.94 else 'i')
        else:
            v = _val(rng, vcodes or 50)
            ops.append(f'u{i}:{v}' if r < 0.36 else f'd{i}' if r < 0.54 else f'G{i}:{v}' if r < 0.64 else f'D{i}' if r < 0.72
                       else f'g{i}' if r < 0.80 else f'm{i}' if r < 0.86 else (f'M{rng.randrange(-2, 4)}' if vcodes is None else f'g{i}') if r < 0.92 else 'z' if r < 0.96 else 'i')
    return start, ops


# ---------------------------------------------------------------------------------------------------------------------
# the reference dictionary
def oracle_run(u, kind, start, ops, sort_literal=None):
    """list of step outputs in the driver's format"""
    state = {}

    def show():
        ks = sorted(state, key=lambda c: u.rank[c])
        return ','.join(str(k) if kind == 'set' else f'{k}:{state[k]}' for k in ks)

    out = []
    if start[0] == 'e':
        out.append(';')
    else:
        items = [(int(x.split(':')[0]), int(x.split(':')[1]) if ':' in x else 0) for x in start[1:]]
        keys = [u.vals[i] for i, _ in items]
        if not G.strictly_sorted(keys):
            dup = any(G.tz_eq(keys[i], keys[j]) for i in range(len(keys)) for j in range(i))
            return ['reject-dup' if dup else 'reject-unsorted']
        for i, v in items:
            state[u.rep[i]] = v
        out.append(';' + show())
    for op in ops:
        c, body = op[0], op[1:]
        obs = ''
        if c in 'armgdD':
            k = u.rep[int(body)]
        if c in 'uG':
            i, v = body.split(':')
            k, v = u.rep[int(i)], int(v)
        if c == 'a':
            state.setdefault(k, 0)
        elif c in 'rd':
            state.pop(k, None)
        elif c == 'm':
            obs = '1' if k in state else '0'
        elif c == 'g':
            obs = str(state[k]) if k in state else 'N'
        elif c == 'u':
            state[k] = v
        elif c == 'G':
            obs = str(state[k]) if k in state else 'N'
            state[k] = v
        elif c == 'D':
            obs = str(state[k]) if k in state else 'N'
            state.pop(k, None)
        elif c == 'M':
            for kk in state:
                state[kk] += int(body)
        elif c == 'z':
            obs = str(len(state))
        elif c == 'i':
            obs = show()
        out.append(obs + ';' + show())
    return out


# ---------------------------------------------------------------------------------------------------------------------
# the real interpreter
def real_run(u, kind, start, ops):
    t = u.t
    te = G.ty_expr(t)
    m = R._mods()
    stack = m['Stack']()

    def show(coll):
        if kind == 'set':
            return ','.join(str(u.cls_of_raw(R.raw_of_obj(x))) for x in coll)
        return ','.join(f'{u.cls_of_raw(R.raw_of_obj(k))}:{u.vdec(v)}' for k, v in coll)

    def ex(seq):
        st, e = R.run_seq(seq, stack)
        return e

    def key(i):
        return G.to_micheline(u.vals[int(i)])

    out = []
    if start[0] == 'e':
        e = ex([P('EMPTY_SET', te)] if kind == 'set' else [P('EMPTY_MAP', te, u.vty)])
    elif kind == 'set':
        e = ex([P('PUSH', P('set', te), [key(x) for x in start[1:]])])
    else:
        e = ex([P('PUSH', P('map', te, u.vty), [P('Elt', key(x.split(':')[0]), u.venc(x.split(':')[1])) for x in start[1:]])])
    if e is not None:
        return [R.classify_error(e)]
    out.append(';' + show(stack.items[0]))
    for op in ops:
        c, body = op[0], op[1:]
        obs = ''
        if c == 'a' or c == 'r':
            e = ex([P('PUSH', P('bool'), P('True' if c == 'a' else 'False')), P('PUSH', te, key(body)), P('UPDATE')])
        elif c == 'm':
            e = ex([P('DUP'), P('PUSH', te, key(body)), P('MEM')])
            if e is None:
                obs = '1' if bool(stack.items.pop(0)) else '0'
        elif c == 'g':
            e = ex([P('DUP'), P('PUSH', te, key(body)), P('GET')])
            if e is None:
                r = stack.items.pop(0)
                obs = 'N' if r.item is None else str(u.vdec(r.item))
        elif c in 'ud':
            val = P('None') if c == 'd' else P('Some', u.venc(body.split(':')[1]))
            e = ex([P('PUSH', P('option', u.vty), val), P('PUSH', te, key(body.split(':')[0])), P('UPDATE')])
        elif c in 'GD':
            val = P('None') if c == 'D' else P('Some', u.venc(body.split(':')[1]))
            e = ex([P('PUSH', P('option', u.vty), val), P('PUSH', te, key(body.split(':')[0])), P('GET_AND_UPDATE')])
            if e is None:
                r = stack.items.pop(0)
                obs = 'N' if r.item is None else str(u.vdec(r.item))
        elif c == 'M':
            e = ex([P('MAP', [P('CDR'), P('PUSH', INT, {'int': body}), P('ADD')])])
        elif c == 'z':
            e = ex([P('DUP'), P('SIZE')])
            if e is None:
                obs = str(int(stack.items.pop(0)))
        elif c == 'i':
            elt = te if kind == 'set' else P('pair', te, u.vty)
            e = ex([P('DUP'), P('NIL', elt), P('SWAP'), P('ITER', [P('CONS')])])
            if e is None:
                lst = list(stack.items.pop(0))[::-1]
                if kind == 'set':
                    obs = ','.join(str(u.cls_of_raw(R.raw_of_obj(x))) for x in lst)
                else:
                    obs = ','.join(f'{u.cls_of_raw(R.raw_of_obj(x.items[0]))}:{u.vdec(x.items[1])}' for x in lst)
        else:
            raise ValueError(op)
        if e is not None:
            out.append(R.classify_error(e))
            return out
        if len(stack.items) != 1 or stack.items[0].prim != kind:
            out.append('stack-corrupt')
            return out
        out.append(obs + ';' + show(stack.items[0]))
    return out


def ty_family(t):
    return t if isinstance(t, str) else t[0]


def first_diff(a, b):
    for i, (x, y) in enumerate(zip(a, b)):
        if x != y:
            return i
    return min(len(a), len(b)) if len(a) != len(b) else None


def describe(u, kind, start, ops):
    return {'kind': kind, 'key_type': G.ty_text(u.t), 'value_type': u.vkind, 'universe': [G.to_text(v) for v in u.vals], 'start': start, 'ops': ops}


def shrink(u, kind, start, ops):
    """cut after the first deviating step, then drop earlier operations while the history still deviates"""
    def bad(o):
        return first_diff(real_run(u, kind, start, o), oracle_run(u, kind, start, o)) is not None
    d = first_diff(real_run(u, kind, start, ops), oracle_run(u, kind, start, ops))
    ops = ops[:d] if d else []
    i = 0
    while i < len(ops) and len(ops) > 1:
        cand = ops[:i] + ops[i + 1:]
        if bad(cand):
            ops = cand
        else:
            i += 1
    return ops


def run(ctx):
    ctx.prepare_lean(extract.generate(PROP), extra_targets=())
    quick = ctx.tier == 'quick'
    rng = ctx.rng
    n_hist = 1200 if quick else 2500
    max_len = 30 if quick else 300
    ctx.extra['rule'] = (
        f'history = start (empty or a literal over the universe: sorted, shuffled, or with duplicates) + 1..{max_len} operations; key type from a '
        'fixed list (int, string, bytes, pair, option, or, address, key, signature, nested …) or random (nesting <= 2); key universe of 3..8 '
        'values built by minimal mutations (equal prefixes, exact duplicates) so that collisions are frequent; the whole collection is read back '
        'after every step; non-trivial = at least two distinct keys were inserted; thorough adds ALL length-5 histories over 3-key universes')
    hists = []
    for h in range(n_hist):
        t = rng.choice(FIXED_TYPES) if rng.random() < 0.7 else None
        while t is None or not G.inhabited(t):
            t = G.gen_type(rng, rng.randrange(0, 3), allow_never=False)
        n = rng.randrange(3, 9)
        kind = 'set' if h % 2 == 0 else 'map'
        vkind = rng.choice(list(VALUE_KINDS)) if (kind == 'map' and rng.random() < 0.4) else 'int'
        u = Universe(t, gen_universe(rng, t, n), vkind)
        ln = max_len if (not quick and h % 5 == 0) else min(max_len, 30)
        start, ops = gen_history(rng, kind, n, ln, None if vkind == 'int' else len(u.vlits))
        hists.append((u, kind, start, ops, 'random'))
    if not quick:
        small = [
            ('int', [('int', 5), ('int', 1), ('int', 3)]),
            (('pair', 'int', 'int'), [('pair', ('int', 2), ('int', 3)), ('pair', ('int', 1), ('int', 5)), ('pair', ('int', 2), ('int', 4))]),
        ]
        for t, vals in small:
            u = Universe(t, vals)
            for seq in itertools.product(['a0', 'a1', 'a2', 'r0', 'r1', 'r2'], repeat=5):
                hists.append((u, 'set', ['e'], list(seq), 'exhaustive'))
            for seq in itertools.product(['u0:0', 'u1:1', 'u2:2', 'd0', 'd1', 'd2', 'M1'], repeat=5):
                hists.append((u, 'map', ['e'], list(seq), 'exhaustive'))
        ctx.extra['exhaustive_subspace'] = 'all 6^5 set histories and all 7^5 map histories (UPDATE insert/remove of 3 keys, MAP) for key types int and pair int int'

    lines = []
    for u, kind, start, ops, _ in hists:
        toks = [x for v in u.vals for x in G.val_tokens(v)]
        lines.append(' '.join([kind] + G.ty_tokens(u.t) + [str(len(u.vals))] + toks + start + ops))
    model = ctx.model(lines)

    for idx, (u, kind, start, ops, origin) in enumerate(hists):
        real = real_run(u, kind, start, ops)
        want = oracle_run(u, kind, start, ops)
        inserted = {u.rep[int(o[1:].split(':')[0])] for o in ops if o[0] in 'auG'} | {u.rep[int(x.split(':')[0])] for x in start[1:]}
        desc = describe(u, kind, start, ops) if origin == 'random' else {'kind': kind, 'key_type': G.ty_text(u.t), 'ops': ops}
        ctx.case(desc, nontrivial=len(inserted) >= 2)
        ctx.count('kind', kind + ':' + origin)
        ctx.count('key-type', ty_family(u.t))
        if kind == 'map':
            ctx.count('map-value-type', u.vkind)
        ctx.count('length', min(len(ops) // 10 * 10, 100))
        ctx.count('start', 'empty' if start[0] == 'e' else want[0] if want[0].startswith('reject') else 'literal-accepted')
        d = first_diff(real, want)
        if d is not None:
            sops = shrink(u, kind, start, ops)
            r2, w2 = real_run(u, kind, start, sops), oracle_run(u, kind, start, sops)
            d2 = first_diff(r2, w2)
            got = r2[d2] if d2 is not None and d2 < len(r2) else '(missing)'
            exp = w2[d2] if d2 is not None and d2 < len(w2) else '(missing)'
            what = 'literal' if d2 == 0 else ('raise' if got in ('raise', 'reject-dup', 'reject-unsorted', 'stack-corrupt') else
                                              'order' if sorted(got.split(';')[-1].split(',')) == sorted(exp.split(';')[-1].split(',')) else 'content')
            ctx.violation(f'{kind}-history:{ty_family(u.t)}:{what}',
                          f'{kind} of {G.ty_text(u.t)}, keys {[G.to_text(v) for v in u.vals]}: {start + sops} -> step {d2}: {got} (reference: {exp})',
                          {**describe(u, kind, start, sops), 'observed': r2, 'expected': w2})
        if model is not None:
            got = '|'.join(real)
            if model[idx] != got:
                ctx.mismatch(f'{kind}-history', desc, got[:400], model[idx][:400])

    ctx.assumptions += [
        'the key order is the one C03 establishes (theorems are stated for any key type under `StrictTotal eq lt`, proved for the values of '
        'every comparable type in C03.tval_strictTotal and for Int keys in C14.int_strictTotal)',
        'CPython `sorted` (stable, `__lt__` only), `set` (eq-classes; `__hash__` consistent with `__eq__`), `filter`, `next`, list `==`/`in` '
        'are modelled, not verified; sampled by every history here',
        'MAP bodies are modelled as a function of (key, value) that cannot change the key; the histories use { CDR; PUSH int c; ADD } (int-valued maps only); map values '
        'are opaque to the dictionary semantics: 40% of the map histories carry bool / string / bytes / list / option / set values (incl. the empty / False ones) rendered from integer codes',
        'big_map is C15',
    ]
