"""C20 — tickets are never forged, duplicated, zeroed or merged incorrectly.

Each case is a program of 1–3 segments (every segment has its own self address = ticketer) over the modelled
instruction set.  It is executed on the real `Interpreter` one top-level instruction at a time (the stack persists
across `execute` calls), with `TicketType.create` wrapped in-process to log what TICKET mints, and by the Lean
mini-interpreter (`Impl.Tickets.run`).

correspondence   failure-or-not (and the failing segment) + the complete final stack (values with their runtime
                 classes, tickets inside pairs / options / lists / maps / big_maps) must coincide
oracle (real)    after every successful top-level step: (1) for every (ticketer, contents) the total amount on the
                 stack is <= the total before + what TICKET minted during the step; (2) no ticket of amount 0;
                 (3) TICKET with amount 0 gives None; (4) SPLIT_TICKET gives Some of parts (a, b) iff a + b = amount,
                 a > 0, b > 0, otherwise None; (5) JOIN_TICKETS of two tickets of the same type gives Some with the
                 amounts added iff ticketer and contents coincide, otherwise None — and does not fail; (6) DUP / DUP n /
                 GET never succeed on a ticket-bearing operand.
"""
import json

from harness import gen_c20 as G
from translator import extract

PROP = 'C20'


# ------------------------------------------------------------------------------------- real values -> tokens / tickets
def ty_tokens_of_expr(e):
    p = e['prim']
    args = e.get('args', [])
    if p == 'ticket' and not args:
        return ['ticket_bare']
    out = [p]
    for a in args:
        out += ty_tokens_of_expr(a)
    return out


def cls_tokens(v_or_cls):
    return ty_tokens_of_expr(v_or_cls.as_micheline_expr())


def val_tokens(v):
    from pytezos.michelson.types import (AddressType, BigMapType, BoolType, LambdaType, ListType, MapType, NatType, OptionType, OrType, PairType,
                                         SetType, StringType, TicketType, UnitType)
    if v is None:
        return ['?']
    if isinstance(v, NatType):
        return [f'N{int(v)}']
    if isinstance(v, AddressType):
        return ['A' + str(v).encode().hex()]
    if isinstance(v, StringType):
        return ['S' + (str(v).encode().hex() or '-')]
    if isinstance(v, UnitType):
        return ['U']
    if isinstance(v, BoolType):
        return ['B1' if bool(v) else 'B0']
    if isinstance(v, LambdaType):
        return ['LAM'] + cls_tokens(type(v).args[0]) + cls_tokens(type(v).args[1])
    if isinstance(v, OrType):
        if v.is_left():
            return ['left'] + val_tokens(v.items[0]) + cls_tokens(type(v).args[1])
        return ['right'] + cls_tokens(type(v).args[0]) + val_tokens(v.items[1])
    if isinstance(v, SetType):
        out = [f'E{len(v.items)}'] + cls_tokens(type(v).args[0])
        for x in v.items:
            out += val_tokens(x)
        return out
    if isinstance(v, PairType):
        return ['P'] + val_tokens(v.items[0]) + val_tokens(v.items[1])
    if isinstance(v, TicketType):
        return ['T'] + cls_tokens(type(v)) + [v.ticketer.encode().hex()] + val_tokens(v.item) + [str(v.amount)]
    if isinstance(v, OptionType):
        if v.item is None:
            return ['none'] + cls_tokens(type(v).args[0])
        return ['some'] + val_tokens(v.item)
    if isinstance(v, ListType):
        out = [f'L{len(v.items)}'] + cls_tokens(type(v).args[0])
        for x in v.items:
            out += val_tokens(x)
        return out
    if isinstance(v, MapType):
        big = isinstance(v, BigMapType)
        out = [f'M{len(v.items)}', '1' if big else '0'] + cls_tokens(type(v).args[0]) + cls_tokens(type(v).args[1])
        for k, x in v.items:
            out += val_tokens(k) + val_tokens(x)
        rem = sorted(val_tokens(k)[0] for k in (v.removed_keys if big else []))
        return out + [f'R{len(rem)}'] + rem
    return ['<' + type(v).__name__ + '>']


def tickets_in(v, out):
    """every ticket reachable inside a runtime value, as (ticketer, canonical contents, amount)"""
    from pytezos.michelson.types import ListType, MapType, OptionType, OrType, PairType, SetType, TicketType
    if v is None:
        return out
    if isinstance(v, TicketType):
        out.append((v.ticketer, ' '.join(val_tokens(v.item)), v.amount))
    elif isinstance(v, (PairType, OrType)):
        for x in v.items:
            if hasattr(x, 'prim'):
                tickets_in(x, out)
    elif isinstance(v, OptionType):
        tickets_in(v.item, out)
    elif isinstance(v, (ListType, SetType)):
        for x in v.items:
            tickets_in(x, out)
    elif isinstance(v, MapType):
        for _, x in v.items:
            tickets_in(x, out)
    return out


def sums(stack):
    d = {}
    for v in stack:
        for tk, ct, a in tickets_in(v, []):
            d[(tk, ct)] = d.get((tk, ct), 0) + a
    return d


def type_has_ticket(cls):
    def walk(e):      # a lambda value is code: its argument types say nothing about what it holds
        return e['prim'] == 'ticket' or (e['prim'] != 'lambda' and any(walk(a) for a in e.get('args', [])))
    return walk(cls.as_micheline_expr())


class Real:
    def __init__(self):
        from pytezos.michelson.repl import Interpreter
        from pytezos.michelson.types import TicketType
        self.I = Interpreter()
        self.minted = []
        orig = TicketType.__dict__['create'].__func__ if isinstance(TicketType.__dict__['create'], staticmethod) else TicketType.create
        log = self.minted

        def create(ticketer, item, amount):
            res = orig(ticketer, item, amount)
            log.append((ticketer, ' '.join(val_tokens(item)), amount))
            return res
        self._orig = TicketType.__dict__['create']
        TicketType.create = staticmethod(create)

    def close(self):
        from pytezos.michelson.types import TicketType
        TicketType.create = self._orig

    def run(self, segments, check):
        """-> ('ok', stack tokens) | ('err', segment index); calls check(step info) after every top-level step"""
        self.I.reset()
        for j, (ticketer, prog) in enumerate(segments):
            self.I.context.address = ticketer
            for ins in prog:
                before = list(self.I.stack.items)
                sums_before = sums(before)
                del self.minted[:]
                r = self.I.execute(G.instr_text(ins))
                ok = r.error is None
                check(ins, ticketer, before, sums_before, ok, list(self.I.stack.items) if ok else None, list(self.minted))
                if not ok:
                    return ('err', j)
        return ('ok', [val_tokens(x) for x in self.I.stack.items])


def oracle_step(found, executed, state, ins, ticketer, before, sums_before, ok, after, minted):
    """the property's own predicates after one top-level step of the real interpreter; `found`: key -> (what, replay)"""
    from pytezos.michelson.types import MapType, NatType, OptionType, PairType, TicketType
    p = ins[0]
    executed.append((ticketer, ins))
    text = ' ; '.join(G.instr_text(i) for _, i in executed)
    replay = {'program': text, 'self': ticketer, 'segments': [[tk, G.instr_text(i)] for tk, i in executed]}

    def violation(key, what):
        if key not in found:
            found[key] = (what, replay, len(executed))

    top = before[0] if before else None
    # the guard of the conservation theorem: an UPDATE / GET_AND_UPDATE storing a value that has not the map's value type
    if p in ('UPDATE', 'GET_AND_UPDATE') and len(before) >= 3 and isinstance(before[2], MapType) and isinstance(before[1], OptionType) \
            and before[1].item is not None and cls_tokens(type(before[1].item)) != cls_tokens(type(before[2]).args[1]):
        state['ill_typed_store'] = True
    if not ok:
        if p == 'JOIN_TICKETS' and isinstance(top, PairType) and all(isinstance(x, TicketType) for x in top.items):
            l, r = top.items
            # same declared contents type => Michelson accepts the instruction; it must not fail
            if cls_tokens(type(l.item)) == cls_tokens(type(r.item)):
                violation('join-tickets-fails-on-well-typed-tickets',
                          f'`{text}`: JOIN_TICKETS fails on two `ticket {" ".join(cls_tokens(type(l.item)))}` values of amounts {l.amount} and {r.amount}')
        return
    scoped = '' if not state.get('ill_typed_store') else 'after-ill-typed-store:'
    minted_by = {}
    for tk, ct, a in minted:
        minted_by[(tk, ct)] = minted_by.get((tk, ct), 0) + a
    sa = sums(after)
    for k, v in sa.items():
        if v > sums_before.get(k, 0) + minted_by.get(k, 0):
            violation(f'{scoped}ticket-amount-created-by:{p}',
                      f'`{text}`: the total amount of tickets ({k[0][:6]}…, {k[1]}) on the stack goes from {sums_before.get(k, 0)} to {v} '
                      f'during the last instruction, which mints {minted_by.get(k, 0)}')
    zeros_before = sum(1 for v in before for _, _, a in tickets_in(v, []) if a == 0)
    zeros_after = [(tk, ct) for v in after for tk, ct, a in tickets_in(v, []) if a == 0]
    if len(zeros_after) > zeros_before:
        tk, ct = zeros_after[0]
        violation(f'zero-amount-ticket-produced-by:{p}', f'`{text}` produces a ticket ({tk[:6]}…, {ct}) of amount 0')
    new_top = after[0] if after else None
    if p == 'TICKET' and len(before) >= 2 and isinstance(before[1], NatType):
        want_none = int(before[1]) == 0
        if not isinstance(new_top, OptionType) or (new_top.item is None) != want_none:
            violation('ticket-zero-amount', f'`{text}`: TICKET with amount {int(before[1])} gives {"None" if new_top.item is None else "Some"}')
    if p == 'SPLIT_TICKET' and len(before) >= 2 and isinstance(top, TicketType) and isinstance(before[1], PairType) \
            and all(isinstance(x, NatType) for x in before[1].items):
        a, b = (int(x) for x in before[1].items)
        want_some = a + b == top.amount and a > 0 and b > 0
        got_some = isinstance(new_top, OptionType) and new_top.item is not None
        if want_some != got_some:
            why = 'zero part' if (a == 0 or b == 0) and a + b == top.amount else 'parts do not add up' if a + b != top.amount else 'valid split'
            violation(f'split-ticket[{why}]', f'`{text}`: SPLIT_TICKET of amount {top.amount} into ({a}, {b}) gives {"Some" if got_some else "None"}')
        elif got_some:
            parts = [(t.ticketer, ' '.join(val_tokens(t.item)), t.amount) for t in new_top.item.items]
            want = [(top.ticketer, ' '.join(val_tokens(top.item)), a), (top.ticketer, ' '.join(val_tokens(top.item)), b)]
            if parts != want:
                violation('split-ticket[parts]', f'`{text}`: parts {parts}, expected {want}')
    if p == 'JOIN_TICKETS' and isinstance(top, PairType) and all(isinstance(x, TicketType) for x in top.items):
        l, r = top.items
        same = l.ticketer == r.ticketer and val_tokens(l.item) == val_tokens(r.item)
        got_some = isinstance(new_top, OptionType) and new_top.item is not None
        if same != got_some:
            violation('join-tickets[some-iff-same-kind]', f'`{text}`: JOIN_TICKETS gives {"Some" if got_some else "None"} for '
                      f'{"matching" if same else "different"} tickets')
        elif got_some and (new_top.item.amount != l.amount + r.amount or new_top.item.ticketer != l.ticketer or val_tokens(new_top.item.item) != val_tokens(l.item)):
            violation('join-tickets[sum]', f'`{text}`: joined ticket has amount {new_top.item.amount}, expected {l.amount + r.amount}')
    # copy instructions never accept a ticket-bearing operand
    operand = None
    if p == 'DUP' and top is not None:
        operand = top
    elif p == 'DUPN' and 1 <= ins[1] <= len(before):
        operand = before[ins[1] - 1]
    elif p == 'GET' and len(before) >= 2 and isinstance(before[1], MapType):
        operand = before[1]
        if not type_has_ticket(type(operand).args[1]):
            operand = None
    if operand is not None and type_has_ticket(type(operand)):
        violation(f'{scoped}copy-accepts-ticket-bearing:{p}({operand.prim})',
                  f'`{text}`: {G.instr_text(ins)} succeeds on a `{" ".join(cls_tokens(type(operand)))}` operand')


def evaluate(real, segs):
    """run on the real interpreter with the oracle -> (outcome, found violations)"""
    found, executed, state = {}, [], {}

    def check(ins, ticketer, before, sums_before, ok, after, minted):
        oracle_step(found, executed, state, ins, ticketer, before, sums_before, ok, after, minted)
    try:
        outcome = real.run(segs, check)
    except Exception as e:   # the interpreter let a non-Michelson exception escape: an observable failure of the real code
        outcome = ('raise', type(e).__name__)
    return outcome, found, state


def regroup(flat):
    segs = []
    for tk, ins in flat:
        if segs and segs[-1][0] == tk:
            segs[-1][1].append(ins)
        else:
            segs.append((tk, [ins]))
    return segs


def shrink(real, segs, key, budget=160):
    """greedy removal of top-level instructions (chunks of 8, 4, 2, 1) while the same violation key is still reported"""
    flat = [(tk, ins) for tk, prog in segs for ins in prog]
    _, found, _ = evaluate(real, regroup(flat))
    if key not in found:
        return None
    flat = flat[:found[key][2]]
    for size in (8, 4, 2, 1):
        i = 0
        while i < len(flat) and budget > 0:
            cand = flat[:i] + flat[i + size:]
            budget -= 1
            _, f2, _ = evaluate(real, regroup(cand))
            if cand and key in f2:
                flat = cand[:f2[key][2]]
            else:
                i += 1
    _, found, _ = evaluate(real, regroup(flat))
    return found.get(key)


def run(ctx):
    st = extract.generate(PROP)
    ctx.prepare_lean(st)
    rng = ctx.rng
    quick = ctx.tier == 'quick'
    ctx.extra['rule'] = (
        'programs of 1-3 segments (two ticketer addresses) over TICKET/READ_TICKET/SPLIT_TICKET/JOIN_TICKETS/PAIR/UNPAIR/CAR/CDR/SOME/NONE/'
        'IF_NONE/CONS/NIL/ITER/MAP/DUP/DUP n/SWAP/DIG/DUG/DROP/DIP/DIP n/PUSH (incl. set / map literals, sorted or not)/EMPTY_MAP/EMPTY_BIG_MAP/'
        'GET/GET_AND_UPDATE/UPDATE/LEFT/RIGHT/IF_LEFT/EMPTY_SET/MEM/LAMBDA/EXEC/APPLY/FAILWITH; '
        'type-directed generation (amounts 0,1,2,3,5,2^64,10^30; contents nat/string/unit/pair nat string; splits that add up, with a zero '
        'part, or not; joins of matching / other-ticketer / other-contents / other-type tickets; tickets stored in lists, maps, big_maps, on either '
        'side of an or, at the second / third type-argument position of pairs / options / lists of ors) '
        'plus a share of type-blind instructions; non-trivial = at least one ticket is minted and a ticket instruction, a copy '
        'instruction or a container instruction acts afterwards')
    ctx.assumptions += [
        'map keys and set elements are atoms (nat/string); contents are atoms or pairs of atoms; ITER / MAP over an `or` value and MAP over a '
        'non-empty set (neither is Michelson; the real loop pushes the Undefined marker / rebuilds a set) are `unmodelled`',
        'big_map values live in the in-memory diff only (the offline context has no stored big_map); ITER over a big_map with removed keys '
        'and DUP 0 are reported as `unmodelled` by the model and not compared',
        'conservation is proved (a) for every program accepted by the static checker `wellTyped` (Michelson rules; MAP only with a body that '
        'gives back the element type, because pytezos returns an empty source collection unchanged) and (b) for every other execution whose '
        'UPDATE / GET_AND_UPDATE store values of the declared value type (ghost flag `typedStores`): pytezos has no dynamic check there, the '
        'Michelson type checker rejects such programs; the oracle scopes conservation / copy findings that follow an ill-typed store under a '
        'separate key prefix and does not report them; for every compared program the checker accepts, the run must not show an ill-typed store',
        'lambda values on the final stack are compared by class only (their code is observed through EXEC); the static checker rejects '
        'LAMBDA / EXEC / APPLY, so programs with lambdas are covered by the ghost-guarded theorem only',
        'TicketType.create is wrapped in-process to log mints (no hook in /repo)',
    ]
    n_prog = 1600 if quick else 16000
    real = Real()
    cases, lines, impl, pend = [], [], [], []
    ill_typed = {}
    try:
        for pi in range(n_prog + len(G.CORPUS)):
            noise = rng.choice([0.0, 0.0, 0.05, 0.15])
            segs = []
            S = []
            if pi < len(G.CORPUS):
                segs, noise = [(tk, list(prog)) for tk, prog in G.CORPUS[pi]], 'corpus'
            else:
                for _ in range(rng.choice([1, 1, 2, 3])):
                    g = G.Gen(rng, noise)
                    prog, S = g.seq(S if S is not None else [], rng.choice([1, 2, 3, 4, 6]))
                    segs.append((rng.choice(G.TICKETERS), prog))
            text = ' || '.join(f'[{tk[:6]}] ' + ' ; '.join(G.instr_text(i) for i in prog) for tk, prog in segs)
            outcome, found, state = evaluate(real, segs)
            ps = [p for _, prog in segs for p in G.prims(prog)]
            nontriv = 'TICKET' in ps and any(p in ps for p in ('SPLIT_TICKET', 'JOIN_TICKETS', 'DUP', 'DUPN', 'GET', 'GET_AND_UPDATE', 'UPDATE', 'CONS', 'ITER', 'MAP', 'READ_TICKET',
                                                               'LEFT', 'RIGHT', 'IF_LEFT', 'EXEC', 'APPLY'))
            ctx.case({'program': text if len(text) < 500 else text[:500] + '…'}, nontrivial=nontriv)
            ctx.count('segments', len(segs))
            ctx.count('outcome', outcome[0])
            ctx.count('noise', noise)
            ctx.count('ill_typed_store_seen_by_oracle', bool(state.get('ill_typed_store')))
            for p in set(ps):
                ctx.count('instr', p)
            if outcome[0] == 'ok':
                got = ' '.join(['STACK', str(len(outcome[1]))] + [t for v in outcome[1] for t in v])
                ctx.count('tickets_on_final_stack', min(sum(1 for v in outcome[1] for t in v if t == 'T'), 6))
            elif outcome[0] == 'err':
                got = f'err {outcome[1]}'
            else:
                got = f'raise {outcome[1]}'
                found[f'interpreter-raises:{outcome[1]}'] = (f'`{text[:300]}` makes Interpreter.execute raise {outcome[1]}', {'program': text}, 0)
            cases.append(text)
            lines.append(G.line_of(segs))
            impl.append(got)
            pend.append((segs, found))
            ill_typed[text] = bool(state.get('ill_typed_store'))

        model = ctx.model(lines)
        shrunk = set()
        for idx, (segs, found) in enumerate(pend):
            mline = model[idx] if model is not None else None
            model_ill_typed = mline is not None and mline.startswith('ok 0 ')
            for key, (what, replay, _) in found.items():
                if key.startswith('after-ill-typed-store:') or (model_ill_typed and (key.startswith('ticket-amount-created-by') or key.startswith('copy-accepts'))):
                    ctx.count('out_of_scope_after_ill_typed_store', key.split(':')[-1])
                    continue
                if key not in shrunk:
                    shrunk.add(key)
                    small = shrink(real, segs, key)
                    if small is not None:
                        what, replay = small[0], small[1]
                ctx.violation(key, what, replay)
    finally:
        real.close()

    if model is not None:
        for (text, a, b), (segs, found) in zip(zip(cases, impl, model), pend):
            if b in ('unmodelled', 'fuel'):
                ctx.count('model', b)
                continue
            ctx.count('model', 'compared')
            if b.startswith('ok '):
                parts = b.split(' ')
                ctx.count('typedStores', parts[1])
                ctx.count('accepted_by_static_checker', parts[2])
                # `C20.type_preservation`: a program the checker accepts never performs an ill-typed store — in the mirror
                # (ghost flag) and, through the correspondence, in the real run (the oracle's own observation)
                if parts[2] == '1' and parts[1] != '1':
                    ctx.mismatch('static-typing', {'program': text[:600]}, 'typedStores=1', 'typedStores=0 for a program accepted by wellTyped')
                if parts[2] == '1' and ill_typed[text]:
                    ctx.mismatch('static-typing', {'program': text[:600]}, 'real run stores a value of another class than the map declares',
                                 'accepted by wellTyped')
                b = ' '.join(['STACK'] + parts[3:])
            if a != b:
                ctx.mismatch('ticket-interpreter', {'program': text[:600]}, a[:400], b[:400])
