"""C15 — big map operations and lazy diffs agree with a layered dictionary model.

Every case is ONE call of the real `Interpreter.run_code` on a generated contract.  The contract spreads the big maps of
the parameter / storage over the stack ("slots"), replays a history of GET / MEM / UPDATE / GET_AND_UPDATE addressed to
the slots (and DUPs of a slot, after which the two copies diverge), conses every observation onto a list kept in the
storage and finally stores the chosen slots back.  On-chain contents are served by an in-process stub shell (what
`ExecutionContext.get_big_map_value` walks: `shell.blocks[block_id].context.big_maps[ptr][key_hash]()`, `RpcError` = key
absent).  A big map enters as a literal in the storage (temporary id, diff action `alloc`), as an id in the storage
(registered, `update`), or as an id in the PARAMETER (registered as a copy, `copy`); the storage holds one or two big maps.

Keys: every comparable type (int, nat, string, bytes, pair, option, or, address, key_hash, key, timestamp, nested …) with a
universe of 3–6 near-equal keys from harness/gen_c03.py; values: nat, string, bytes, bool, unit, option, list, set, map —
including the falsy ones ("", 0x, False, {}, None inside Some).

Compared with the Lean mirror (lean/Driver/C15.lean — `Impl.BigMap.*` on typed keys with the C03 mirrors of `__eq__` /
`__lt__`): every observation, every diff entry (id, action, updates) and the ids left in the storage.
Property oracle (independent of the mirror): one plain Python dict per slot, started from the on-chain contents / the
literal; every observation must equal the dict's; the updates of each emitted entry, applied in order to the on-chain
contents of its source, must give exactly the final dict of the stored slot; every update must carry base58
`expr`(Blake2b-256(0x05 ‖ legacy-packed key)) recomputed here with hashlib and a local Micheline forger (the packed
bytes of every key are also compared, with this forger and with the mirror `Impl.BigMap.packLegacy`; the Lean driver
computes the `expr…` text itself — `Impl.BigMap.keyHashChars` with the executable Lean BLAKE2b-256 / SHA-256 — for every
update of every diff and for every packed key, and these are diffed against pytezos' `key_hash` values); no key twice;
pytezos' own reading of the emitted diff (`merge_lazy_diff`) must show the same updates."""
import functools
import hashlib
import itertools
import json

from harness import gen_c03 as G
from translator import extract

PROP = 'C15'

# ---------------------------------------------------------------- independent legacy PACK / script-expression hash
B58 = '123456789ABCDEFGHJKLMNPQRSTUVWXYZabcdefghijkmnopqrstuvwxyz'
# Michelson data primitives (tags of the binary Micheline encoding, from the protocol's primitive table)
D_FALSE, D_LEFT, D_NONE, D_PAIR, D_RIGHT, D_SOME, D_TRUE, D_UNIT = 0x03, 0x05, 0x06, 0x07, 0x08, 0x09, 0x0A, 0x0B


def b58check(payload):
    data = payload + hashlib.sha256(hashlib.sha256(payload).digest()).digest()[:4]
    n = int.from_bytes(data, 'big')
    out = ''
    while n:
        n, r = divmod(n, 58)
        out = B58[r] + out
    return '1' * (len(data) - len(data.lstrip(b'\0'))) + out


def zarith(n):
    sign, n = (0x40, -n) if n < 0 else (0, n)
    first = n & 0x3F
    n >>= 6
    out = [first | sign | (0x80 if n else 0)]
    while n:
        b = n & 0x7F
        n >>= 7
        out.append(b | (0x80 if n else 0))
    return bytes(out)


def _m_bytes(raw):
    return b'\x0a' + len(raw).to_bytes(4, 'big') + raw


def forge_key(v):
    """binary Micheline of the OPTIMIZED form of a comparable value, pairs nested (`Pair a (Pair b c)`, never the
    sequence form) — what Tezos hashes for a big map key"""
    k = v[0]
    if k == 'unit':
        return bytes([3, D_UNIT])
    if k == 'bool':
        return bytes([3, D_TRUE if v[1] else D_FALSE])
    if k == 'int':                                   # int, nat, mutez, timestamp (seconds)
        return b'\x00' + zarith(v[1])
    if k == 'str':
        raw = v[1].encode()
        return b'\x01' + len(raw).to_bytes(4, 'big') + raw
    if k == 'bytes':
        return _m_bytes(v[1])
    if k == 'kh':                                    # tag of the curve, 20-byte hash
        return _m_bytes(bytes([v[1]]) + v[2])
    if k == 'addr':
        if v[1] < 4:
            raw = b'\x00' + bytes([v[1]]) + v[2]       # implicit: 00, curve tag, hash
        else:
            raw = bytes([1 if v[1] == 4 else 3]) + v[2] + b'\x00'     # originated 01 / smart rollup 03, hash, padding
        ep = '' if v[3] == 'default' else v[3]
        return _m_bytes(raw + ep.encode())
    if k == 'key':
        return _m_bytes(bytes([v[1]]) + v[2])
    if k == 'sig':
        return _m_bytes(v[2])
    if k == 'cid':
        return _m_bytes(v[1])
    if k == 'none':
        return bytes([3, D_NONE])
    if k == 'some':
        return bytes([5, D_SOME]) + forge_key(v[1])
    if k == 'left':
        return bytes([5, D_LEFT]) + forge_key(v[1])
    if k == 'right':
        return bytes([5, D_RIGHT]) + forge_key(v[1])
    if k == 'pair':
        return bytes([7, D_PAIR]) + forge_key(v[1]) + forge_key(v[2])
    raise ValueError(v)


@functools.lru_cache(maxsize=None)
def expr_hash(v):
    return b58check(bytes([13, 44, 64, 27]) + hashlib.blake2b(b'\x05' + forge_key(v), digest_size=32).digest())


# ---------------------------------------------------------------- key types, value kinds
KEY_TYPES = [
    'nat', 'nat', 'int', 'string', 'bytes', 'timestamp', 'address', 'key_hash', 'key', 'mutez', 'bool', 'chain_id', 'signature',
    ('pair', 'int', 'int'), ('pair', 'string', 'bytes'), ('pair', 'nat', ('pair', 'nat', 'nat')), ('pair', ('pair', 'int', 'string'), 'nat'),
    ('pair', 'address', 'nat'), ('pair', ('pair', 'nat', 'nat'), ('pair', 'nat', 'nat')),
    ('pair', 'nat', ('pair', 'string', ('pair', 'bytes', 'int'))), ('pair', 'int', ('pair', 'nat', ('pair', ('option', 'nat'), ('pair', 'bool', 'string')))),
    ('option', 'int'), ('option', ('pair', 'nat', 'string')), ('or', 'int', 'string'), ('or', ('pair', 'int', 'int'), ('option', 'string')),
    ('pair', ('option', ('or', 'int', 'string')), ('pair', 'address', 'nat')), ('or', 'key_hash', 'address'), ('pair', 'timestamp', 'key_hash'),
    ('option', 'unit'), ('or', 'unit', 'bool'),
]
NAT = {'prim': 'nat'}
# value kinds: (type, literals by code or None for nat = the code itself); code 0 is the value Python treats as falsy
VALUE_KINDS = {
    'nat': (NAT, None),
    'string': ({'prim': 'string'}, [{'string': ''}, {'string': 'a'}, {'string': 'b'}, {'string': 'ab'}]),
    'bytes': ({'prim': 'bytes'}, [{'bytes': ''}, {'bytes': '00'}, {'bytes': '01'}, {'bytes': 'ff00'}]),
    'bool': ({'prim': 'bool'}, [{'prim': 'False'}, {'prim': 'True'}]),
    'unit': ({'prim': 'unit'}, [{'prim': 'Unit'}]),
    'option nat': ({'prim': 'option', 'args': [NAT]}, [{'prim': 'None'}, {'prim': 'Some', 'args': [{'int': '0'}]}, {'prim': 'Some', 'args': [{'int': '5'}]}]),
    'list int': ({'prim': 'list', 'args': [{'prim': 'int'}]}, [[], [{'int': '0'}], [{'int': '1'}, {'int': '-2'}]]),
    'set nat': ({'prim': 'set', 'args': [NAT]}, [[], [{'int': '0'}], [{'int': '1'}, {'int': '2'}]]),
    'map nat nat': ({'prim': 'map', 'args': [NAT, NAT]}, [[], [{'prim': 'Elt', 'args': [{'int': '0'}, {'int': '0'}]}],
                                                        [{'prim': 'Elt', 'args': [{'int': '1'}, {'int': '2'}]}, {'prim': 'Elt', 'args': [{'int': '3'}, {'int': '4'}]}]]),
}


def venc(vkind, code):
    lits = VALUE_KINDS[vkind][1]
    return {'int': str(code)} if lits is None else lits[code]


def vdec(vkind, expr):
    lits = VALUE_KINDS[vkind][1]
    if lits is None:
        return int(expr['int']) if isinstance(expr, dict) and 'int' in expr else '?'
    for i, lit in enumerate(lits):
        if lit == expr:
            return i
    return '?'


def gen_keys(rng, t, n):
    """3–6 distinct near-equal keys of type t, ascending in the (independent) Tezos order of gen_c03"""
    vals = [G.normalise_value(G.gen_value(rng, t))]
    tries = 0
    while len(vals) < n and tries < 60:
        tries += 1
        r = rng.random()
        v = G.near(rng, t, rng.choice(vals)) if r < 0.8 else G.gen_value(rng, t)
        v = G.normalise_value(v)
        if not any(G.tz_eq(v, w) for w in vals):
            vals.append(v)
    return sorted(vals, key=functools.cmp_to_key(G.tz_cmp))


# ---------------------------------------------------------------- stub shell
class _Q:
    def __init__(self, sh, path):
        self._sh, self._path = sh, path

    def __getitem__(self, k):
        return _Q(self._sh, self._path + (k,))

    def __getattr__(self, k):
        return _Q(self._sh, self._path + (k,))

    def __call__(self):
        from pytezos.rpc.node import RpcError
        p = self._path
        if len(p) != 6 or p[0] != 'blocks' or p[2] != 'context' or p[3] != 'big_maps':
            raise AssertionError(f'unexpected shell query {p}')
        self._sh.queries.append((p[4], p[5]))
        if (p[4], p[5]) in self._sh.content:
            return self._sh.content[(p[4], p[5])]
        raise RpcError('key does not exist')


class StubShell:
    """stands for the node: content = {(big_map id, key hash): Micheline value}"""

    def __init__(self, content):
        self.content = content
        self.queries = []

    @property
    def blocks(self):
        return _Q(self, ('blocks',))


# ---------------------------------------------------------------- case -> contract
def P(prim, *args):
    return {'prim': prim, 'args': list(args)} if args else {'prim': prim}


def n_init(case):
    return (1 if case['par'] is not None else 0) + len(case['st'])


def roots(case):
    """per slot (after all events): index of the initial slot it descends from"""
    r = list(range(n_init(case)))
    for e in case['ev']:
        if e[0] == 'd':
            r.append(r[e[1]])
    return r


def init_kind(case, i):
    """('par', id) | ('id', id) | ('lit', items) of initial slot i"""
    if case['par'] is not None:
        if i == 0:
            return ('par', case['par'])
        i -= 1
    return case['st'][i]


def build(case):
    """(script, parameter, storage, shell)"""
    kt, vt = G.ty_expr(case['t']), VALUE_KINDS[case['vkind']][0]
    keys = [G.to_micheline(k) for k in case['keys']]
    bm_t = P('big_map', kt, vt)
    obs_t = P('or', P('option', vt), P('bool'))
    lst_t = P('list', obs_t)
    nst = len(case['st'])
    st_t = P('pair', bm_t, lst_t) if nst == 1 else P('pair', bm_t, P('pair', bm_t, lst_t))

    def field(s):
        return {'int': str(s[1])} if s[0] == 'id' else [P('Elt', keys[i], venc(case['vkind'], v)) for i, v in s[1]]

    fields = [field(s) for s in case['st']]
    st = P('Pair', fields[0], []) if nst == 1 else P('Pair', fields[0], P('Pair', fields[1], []))
    unpack = [P('UNPAIR')] if nst == 1 else [P('UNPAIR'), P('DIP', [P('UNPAIR')])]
    if case['par'] is not None:
        par_t, par = bm_t, {'int': str(case['par'])}
        code = [P('UNPAIR'), P('DIP', unpack)]
    else:
        par_t, par = P('unit'), P('Unit')
        code = [P('CDR')] + unpack
    order = list(range(n_init(case)))                   # slot numbers in stack order (the list is below them)

    def dig(i):
        return [P('DIG', {'int': str(i)})] if i else []

    def dug(i):
        return [P('DUG', {'int': str(i)})] if i else []

    def record():                                       # [obs, bm, others…, lst] -> [bm, others…, obs :: lst]
        n = len(order)
        return [P('DIG', {'int': str(n + 1)}), P('SWAP'), P('CONS')] + dug(n)

    for e in case['ev']:
        pos = order.index(e[1])
        if e[0] == 'd':
            code += dig(pos) + [P('DUP'), P('SWAP')] + dug(pos + 1)     # [dup, s0 … s_pos …]: the duplicate is the new slot
            order.insert(0, len(order))
            continue
        push_k = P('PUSH', kt, keys[e[2]])
        code += dig(pos)
        if e[0] == 'g':
            code += [P('DUP'), push_k, P('GET'), P('LEFT', P('bool'))] + record()
        elif e[0] == 'm':
            code += [P('DUP'), push_k, P('MEM'), P('RIGHT', P('option', vt))] + record()
        else:
            code += [P('NONE', vt)] if e[3] is None else [P('PUSH', vt, venc(case['vkind'], e[3])), P('SOME')]
            code += [push_k, P('UPDATE')] if e[0] == 'u' else [push_k, P('GET_AND_UPDATE'), P('LEFT', P('bool'))] + record()
        code += dug(pos)
    for s in list(order):                               # drop what is not stored
        if s not in case['store']:
            code += dig(order.index(s)) + [P('DROP')]
            order.remove(s)
    for s in reversed(case['store']):                   # [a, b, lst]
        pos = order.index(s)
        code += dig(pos)
        order.remove(s)
        order.insert(0, s)
    code += ([P('PAIR')] if nst == 1 else [P('DIP', [P('PAIR')]), P('PAIR')]) + [P('NIL', P('operation')), P('PAIR')]
    script = [P('parameter', par_t), P('storage', st_t), P('code', code)]
    content = {(ptr, expr_hash(case['keys'][i])): venc(case['vkind'], v) for ptr, kvs in case['chain'].items() for i, v in kvs}
    return script, par, st, StubShell(content)


def _uncomb(expr, n):
    """components of a right comb of n elements in any of the renderings (nested Pair / flat Pair / sequence)"""
    out = []
    while len(out) < n - 1:
        if isinstance(expr, list) and len(expr) == n - len(out):
            return out + list(expr)
        args = expr['args']
        if len(args) == n - len(out):
            return out + list(args)
        out.append(args[0])
        expr = args[1] if len(args) == 2 else {'prim': 'Pair', 'args': args[1:]}
    return out + [expr]


_key_cls = {}


def _key_index(case, raws, expr):
    from pytezos.michelson.types.base import MichelsonType
    from harness import real_c03 as R
    tk = json.dumps(G.ty_expr(case['t']), sort_keys=True)
    if tk not in _key_cls:
        _key_cls[tk] = MichelsonType.match(G.ty_expr(case['t']))
    try:
        return R._index_of(R.raw_of_obj(_key_cls[tk].from_micheline_value(expr)), raws)
    except Exception:
        return -1


def run_impl(case):
    from pytezos.michelson.repl import Interpreter
    from pytezos.michelson.types.base import MichelsonType
    from harness import real_c03 as R
    script, par, st, shell = build(case)
    ops_, storage, lazy_diff, stdout, err = Interpreter.run_code(parameter=par, storage=st, script=script, shell=shell, output_mode=case.get('out_mode', 'readable'))
    if err is not None:
        return {'error': (stdout[-1] if stdout else type(err).__name__)[:160], 'shell': shell}
    nst = len(case['st'])
    comps = _uncomb(storage, nst + 1)
    obs = []
    for o in reversed(comps[-1]):
        inner = o['args'][0]
        if o.get('prim') == 'Right':
            obs.append('T' if inner.get('prim') == 'True' else 'F')
        elif inner.get('prim') == 'None':
            obs.append('N')
        else:
            obs.append(f"S{vdec(case['vkind'], inner['args'][0])}")
    raws = [R.raw_of_abs(case['t'], k) for k in case['keys']]
    diffs = []
    for e in lazy_diff:
        if e.get('kind') != 'big_map':
            continue
        ups = [(_key_index(case, raws, u['key']), vdec(case['vkind'], u['value']) if 'value' in u else None, u.get('key_hash'))
               for u in e['diff'].get('updates', [])]
        diffs.append({'id': e['id'], 'action': e['diff']['action'], 'updates': ups,
                      'types': (e['diff'].get('key_type'), e['diff'].get('value_type'))})
    # pytezos' own reading of what it emitted: storage + lazy diff -> big maps with the updates as local layer
    merged = []
    try:
        item = MichelsonType.match(script[1]['args'][0]).from_micheline_value(storage).merge_lazy_diff(lazy_diff)
        for _ in range(nst):
            bm, item = item.items[0], item.items[1]
            merged.append(sorted([(R._index_of(R.raw_of_obj(k), raws), vdec(case['vkind'], v.to_micheline_value())) for k, v in bm.items]
                                 + [(R._index_of(R.raw_of_obj(k), raws), None) for k in bm.removed_keys], key=lambda x: (x[0], x[1] is None)))
    except Exception as ex:        # noqa: BLE001 — reported by the oracle
        merged = f'{type(ex).__name__}: {ex}'[:120]
    return {'error': None, 'obs': obs, 'diffs': diffs, 'ptrs': [c.get('int') if isinstance(c, dict) else '?' for c in comps[:nst]],
            'merged': merged, 'shell': shell}


def _show_updates(ups):
    """every update with the `key_hash` the emitted entry carries for it (the Lean driver computes that text itself)"""
    valued = [f'{k}={v}@{h}' for k, v, h in ups if v is not None]
    removed = sorted((k, h) for k, v, h in ups if v is None)       # set-derived order: canonicalised
    return ' '.join(valued + [f'{k}=-@{h}' for k, h in removed])


def impl_line(res):
    if res['error'] is not None:
        return 'rejected'
    return (f"obs {' '.join(res['obs'])} ; "
            + ' ; '.join(f"diff {d['id']} {d['action']} {_show_updates(d['updates'])}" for d in res['diffs'])
            + f" ; state {' '.join(str(p) for p in res['ptrs'])}")


def _ev_tok(e):
    if e[0] == 'd':
        return f'd{e[1]}'
    if e[0] in 'gm':
        return f'{e[0]}{e[1]}.{e[2]}'
    return f'{e[0]}{e[1]}.{e[2]}={"-" if e[3] is None else e[3]}'


def model_line(case):
    head = G.ty_tokens(case['t']) + [str(len(case['keys']))] + [x for k in case['keys'] for x in G.val_tokens(k)]
    inits = ([f"P{case['par']}"] if case['par'] is not None else []) + [
        f'S{s[1]}' if s[0] == 'id' else 'L' + ','.join(f'{i}:{v}' for i, v in s[1]) for s in case['st']]
    chain = [f'{ptr}:{i}={v}' for ptr, kvs in sorted(case['chain'].items()) for i, v in kvs]
    return ' | '.join(' '.join(x) for x in (head, inits, chain, [_ev_tok(e) for e in case['ev']], [str(s) for s in case['store']]))


# ---------------------------------------------------------------- the property's own predicate
def literal_ok(case):
    return all(all(a < b for a, b in zip([i for i, _ in s[1]], [i for i, _ in s[1]][1:])) for s in case['st'] if s[0] == 'lit')


def oracle(case, res):
    """None or a description of how the real code deviates from the layered dictionary"""
    if not literal_ok(case):
        return None if res['error'] is not None else 'unsorted / duplicate literal accepted'
    if res['error'] is not None:
        return f"history raised: {res['error']}"
    base, dicts = [], []
    for i in range(n_init(case)):
        kind = init_kind(case, i)
        b = dict(case['chain'].get(kind[1], [])) if kind[0] != 'lit' else {}
        base.append(b)
        dicts.append(dict(b) if kind[0] != 'lit' else dict(kind[1]))
    root = list(range(n_init(case)))
    it = iter(res['obs'])
    for n, e in enumerate(case['ev']):
        if e[0] == 'd':
            dicts.append(dict(dicts[e[1]]))
            root.append(root[e[1]])
            continue
        d, k = dicts[e[1]], e[2]
        want = None
        if e[0] == 'm':
            want = 'T' if k in d else 'F'
        elif e[0] in 'ga':
            want = 'N' if k not in d else f'S{d[k]}'
        if e[0] in 'ua':
            if e[3] is None:
                d.pop(k, None)
            else:
                d[k] = e[3]
        if want is not None:
            got = next(it, '(missing)')
            if got != want:
                return f'event #{n} {_ev_tok(e)}: observed {got}, dictionary says {want}'
    if next(it, None) is not None:
        return 'more observations than events'
    if len(res['diffs']) != len(case['store']):
        return f"{len(res['diffs'])} big_map entries in lazy_diff, expected {len(case['store'])}"
    next_id = 0
    for pos, (s, e, ptr) in enumerate(zip(case['store'], res['diffs'], res['ptrs'])):
        kind = init_kind(case, root[s])
        if kind[0] == 'id':
            want_id, want_action = str(kind[1]), 'update'
        else:
            want_id, want_action = str(next_id), ('alloc' if kind[0] == 'lit' else 'copy')
            next_id += 1
        if (e['id'], e['action']) != (want_id, want_action) or ptr != want_id:
            return f"stored slot {s}: diff id/action {e['id']}/{e['action']}, storage id {ptr}; expected {want_id}/{want_action}"
        if e['action'] == 'alloc' and e['types'] != (G.ty_expr(case['t']), VALUE_KINDS[case['vkind']][0]):
            return f"alloc entry carries types {e['types']}"
        applied = dict(base[root[s]])
        seen = set()
        by_hash = sorted(e['updates'], key=lambda u: str(u[2]))
        for k, v, h in by_hash:
            if k < 0:
                return f'stored slot {s}: diff entry with a key outside the universe'
            if v == '?':
                return f'stored slot {s}: diff value of key #{k} is not a value that was written'
            if h != expr_hash(case['keys'][k]):
                return f'key_hash of key #{k} {G.to_text(case["keys"][k])} is {h}, expected {expr_hash(case["keys"][k])}'
            if k in seen:
                return f'stored slot {s}: diff lists key #{k} twice: {[(a, b) for a, b, _ in e["updates"]]}'
            seen.add(k)
        for k, v, h in e['updates']:
            if v is None:
                applied.pop(k, None)
            else:
                applied[k] = v
        if applied != dicts[s]:
            return (f'stored slot {s}: diff applied to the on-chain contents gives {sorted(applied.items())}, '
                    f'final dictionary is {sorted(dicts[s].items())}')
        want_merged = sorted([(k, v) for k, v, _ in e['updates']], key=lambda x: (x[0], x[1] is None))
        if isinstance(res['merged'], str):
            return f"merge_lazy_diff of the emitted diff raised {res['merged']}"
        if res['merged'][pos] != want_merged:
            return (f'stored slot {s}: merge_lazy_diff reads the emitted updates {want_merged} back as {res["merged"][pos]}')
    hashes = {expr_hash(k) for k in case['keys']}
    backing = {str(init_kind(case, i)[1]) for i in range(n_init(case)) if init_kind(case, i)[0] != 'lit'}
    for ptr, h in res['shell'].queries:
        if str(ptr) not in backing:
            return f'node asked for big_map {ptr}, the maps are backed by {sorted(backing)}'
        if h not in hashes:
            return f'node asked for key hash {h}, which is the hash of no key of the run'
    return None


def fails(case):
    return oracle(case, run_impl(case))


def _drop_dup(case, n):
    """case without the n-th event (a DUP) — None when the duplicate is used or stored"""
    new_slot = n_init(case) + sum(1 for e in case['ev'][:n] if e[0] == 'd')
    if new_slot in case['store'] or any(e[1] == new_slot for e in case['ev']):
        return None
    ren = lambda s: s - 1 if s > new_slot else s
    ev = [(e[0], ren(e[1])) + tuple(e[2:]) for i, e in enumerate(case['ev']) if i != n]
    return {**case, 'ev': ev, 'store': [ren(s) for s in case['store']]}


def shrink(case):
    """greedy: drop events, then on-chain / literal entries, while the oracle still fails"""
    cur = dict(case)
    changed = True
    while changed:
        changed = False
        i = 0
        while i < len(cur['ev']):
            cand = _drop_dup(cur, i) if cur['ev'][i][0] == 'd' else {**cur, 'ev': cur['ev'][:i] + cur['ev'][i + 1:]}
            if cand is not None and fails(cand):
                cur, changed = cand, True
            else:
                i += 1
        for ptr in list(cur['chain']):
            i = 0
            while i < len(cur['chain'][ptr]):
                kvs = cur['chain'][ptr]
                cand = {**cur, 'chain': {**cur['chain'], ptr: kvs[:i] + kvs[i + 1:]}}
                if fails(cand):
                    cur, changed = cand, True
                else:
                    i += 1
        for j, s in enumerate(cur['st']):
            if s[0] != 'lit':
                continue
            i = 0
            while i < len(cur['st'][j][1]):
                items = cur['st'][j][1]
                st = list(cur['st'])
                st[j] = ('lit', items[:i] + items[i + 1:])
                cand = {**cur, 'st': st}
                if fails(cand):
                    cur, changed = cand, True
                else:
                    i += 1
    return cur


def describe(case):
    return {'key_type': G.ty_text(case['t']), 'keys': [G.to_text(k) for k in case['keys']], 'value_type': case['vkind'],
            'parameter': case['par'], 'storage': [list(s) for s in case['st']],
            'on_chain': {str(p): kvs for p, kvs in case['chain'].items()},
            'events': [_ev_tok(e) for e in case['ev']], 'stored_slots': case['store'],
            **({'output_mode': case['out_mode']} if case.get('out_mode', 'readable') != 'readable' else {}),
            **({'run_after': case['after']} if case.get('after') else {})}


def short(case):
    inits = ([f"par#{case['par']}"] if case['par'] is not None else []) + [
        f'#{s[1]}' if s[0] == 'id' else 'lit' + json.dumps(dict(s[1])) for s in case['st']]
    chain = {p: dict(kvs) for p, kvs in case['chain'].items() if kvs}
    return (f"{G.ty_text(case['t'])}->{case['vkind']} keys {[G.to_text(k) for k in case['keys']]} [{' '.join(inits)}] chain={chain}: "
            f"{' '.join(_ev_tok(e) for e in case['ev'])} store {case['store']}"
            + (f" output_mode={case['out_mode']}" if case.get('out_mode', 'readable') != 'readable' else '')
            + (f" [in one process after a run over the same key texts typed {case['after']}]" if case.get('after') else ''))


# ---------------------------------------------------------------- generation
PTRS = [5, 17, 99, 4242]          # ids of on-chain maps (the ids a run allocates start at 0: kept apart)


def gen_events(rng, nkeys, n, slots0, vcodes, n_dup):
    ev, nslots = [], slots0
    hot = rng.sample(range(nkeys), k=min(nkeys, 2))
    dup_at = sorted(rng.randrange(0, n + 1) for _ in range(n_dup))
    seq = itertools.count(1)
    for i in range(n + 1):
        while dup_at and dup_at[0] == i:
            dup_at.pop(0)
            ev.append(('d', rng.randrange(nslots)))
            nslots += 1
        if i == n:
            break
        s = rng.randrange(nslots)
        k = rng.choice(hot) if rng.random() < 0.5 else rng.randrange(nkeys)
        r = rng.random()
        if r < 0.2:
            ev.append(('g', s, k))
        elif r < 0.3:
            ev.append(('m', s, k))
        else:
            kind = 'u' if rng.random() < 0.65 else 'a'
            if rng.random() < 0.4:
                ev.append((kind, s, k, None))
            elif vcodes is None:
                ev.append((kind, s, k, 0 if rng.random() < 0.15 else next(seq)))
            else:
                ev.append((kind, s, k, 0 if rng.random() < 0.3 else rng.randrange(vcodes)))
    return ev, nslots


TEXT_TYPES = ('address', 'key', 'key_hash', 'signature', 'chain_id')


def has_text(t):
    return t in TEXT_TYPES if isinstance(t, str) else any(has_text(x) for x in t[1:])


def textify_t(t):
    return ('string' if t in TEXT_TYPES else t) if isinstance(t, str) else (t[0],) + tuple(textify_t(x) for x in t[1:])


def textify_v(v):
    if v[0] in ('kh', 'addr', 'key', 'sig', 'cid'):
        return ('str', G.to_micheline(G.normalise_value(v))['string'])
    if v[0] in ('some', 'left', 'right'):
        return (v[0], textify_v(v[1]))
    if v[0] == 'pair':
        return ('pair', textify_v(v[1]), textify_v(v[2]))
    return v


def text_twin(rng, case, max_len):
    """another history over THE SAME key texts typed `string` (base58 texts are legal strings): packs, hashes and orders differently"""
    t2 = textify_t(case['t'])
    keys = []
    for k in case['keys']:
        k2 = G.normalise_value(textify_v(k))
        if not any(G.tz_eq(k2, w) for w in keys):
            keys.append(k2)
    keys = sorted(keys, key=functools.cmp_to_key(G.tz_cmp))
    if len(keys) < 2:
        return None
    return random_case(rng, max_len, t2, keys)


def random_case(rng, max_len, t=None, keys=None):
    if t is None:
        t = rng.choice(KEY_TYPES) if rng.random() < 0.8 else None
        while t is None or not G.inhabited(t):
            t = G.gen_type(rng, rng.randrange(0, 3), allow_never=False)
    if keys is None:
        keys = gen_keys(rng, t, rng.randrange(3, 7))
    nkeys = len(keys)
    vkind = 'nat' if rng.random() < 0.45 else rng.choice(list(VALUE_KINDS))
    lits = VALUE_KINDS[vkind][1]
    vcodes = None if lits is None else len(lits)
    vals = itertools.count(100)

    def code():
        if vcodes is None:
            return 0 if rng.random() < 0.15 else next(vals)
        return 0 if rng.random() < 0.3 else rng.randrange(vcodes)

    def literal():
        lit = [(i, code()) for i in range(nkeys) if rng.random() < 0.35]
        if lit and rng.random() < 0.04:                # a literal `check_constraints` must refuse
            lit = lit + [lit[0]] if rng.random() < 0.5 or len(lit) < 2 else list(reversed(lit))
        return ('lit', lit)

    ptrs = rng.sample(PTRS, 3)
    r = rng.random()
    par, st = None, None
    if r < 0.22:
        st = [literal()]
    elif r < 0.44:
        if rng.random() < 0.35:
            ptrs[0] = 0         # the very first big map of a chain has id 0 (only where the run allocates no id of its own: ids it hands out start at 0)
        st = [('id', ptrs[0])]
    elif r < 0.58:
        par, st = ptrs[0], [('lit', []) if rng.random() < 0.5 else literal()]
    elif r < 0.70:
        par, st = ptrs[0], [('id', ptrs[0] if rng.random() < 0.4 else ptrs[1])]
    else:                                               # two big maps in one storage
        a = literal() if rng.random() < 0.5 else ('id', ptrs[1])
        b = literal() if rng.random() < 0.5 else ('id', ptrs[2])
        st = [a, b]
        if rng.random() < 0.35:
            par = rng.choice(ptrs)
    chain = {}
    used = ([par] if par is not None else []) + [s[1] for s in st if s[0] == 'id']
    for p in set(used):
        chain[p] = [(i, code()) for i in range(nkeys) if rng.random() < 0.5]
    if rng.random() < 0.3:                              # another on-chain map the run must never read
        other = next(p for p in PTRS if p not in used)
        chain[other] = [(i, code()) for i in range(nkeys) if rng.random() < 0.7]
    n = rng.randrange(0, max_len + 1) if rng.random() < 0.8 else rng.randrange(0, 6)
    n_dup = 0 if rng.random() < 0.6 else rng.randrange(1, 3)
    slots0 = (1 if par is not None else 0) + len(st)
    ev, nslots = gen_events(rng, nkeys, n, slots0, vcodes, n_dup)
    case = {'t': t, 'keys': keys, 'vkind': vkind, 'par': par, 'st': st, 'chain': chain, 'ev': ev, 'store': []}
    r = rng.random()
    if r < 0.25:                                        # the optional output mode of run_code / aggregate_lazy_diff(mode=…)
        case['out_mode'] = 'optimized' if r < 0.17 else 'legacy_optimized'
    rt = roots(case)
    # stored slots: distinct, and never two descendants of the same on-chain id in the storage (both would `update` one id)
    for _ in range(40):
        store = rng.sample(range(nslots), len(st))
        idroots = [rt[s] for s in store if init_kind(case, rt[s])[0] == 'id']
        if len(set(idroots)) == len(idroots):
            break
    else:
        store = list(range(slots0 - len(st), slots0))
    case['store'] = store
    if rng.random() < 0.5:                              # observe everything at the end
        case['ev'] = ev + [('g', s, i) for s in store for i in range(nkeys)]
    return case


def simple(t, keys, vkind, mode, ptr, chain, lit, ops):
    """one big map: mode fresh / onchain / copy (the shapes of the first version of this check)"""
    if mode == 'fresh':
        par, st, slot = None, [('lit', lit)], 0
    elif mode == 'onchain':
        par, st, slot = None, [('id', ptr)], 0
    else:
        par, st, slot = ptr, [('lit', [])], 0
    ev = [(o[0], slot) + tuple(o[1:]) for o in ops]
    return {'t': t, 'keys': [('int', k) if isinstance(k, int) else ('str', k) for k in keys], 'vkind': vkind, 'par': par, 'st': st,
            'chain': {ptr: chain} if mode != 'fresh' else {}, 'ev': ev, 'store': [slot]}


def exhaustive_cases(max_len):
    """3 nat keys, all 8 on-chain subsets, every history of GET_AND_UPDATE k None / Some (6 letters) up to max_len,
    followed by GET and MEM of every key"""
    tail = [('g', i) for i in range(3)] + [('m', i) for i in range(3)]
    letters = [(k, s) for k in range(3) for s in (False, True)]
    for bits in range(8):
        chain = [(i, 100 + i) for i in range(3) if bits >> i & 1]
        for ln in range(max_len + 1):
            for word in itertools.product(letters, repeat=ln):
                ops = [('a', k, (10 + n) if s else None) for n, (k, s) in enumerate(word)]
                yield simple('nat', [3, 8, 200], 'nat', 'onchain', 5, chain, [], ops + tail)


def regressions():
    pii = ('pair', 'int', 'int')
    pk = [('pair', ('int', 1), ('int', 5)), ('pair', ('int', 2), ('int', 3)), ('pair', ('int', 2), ('int', 4))]
    kt = ('addr', 4, bytes(range(20)), '')
    return [
        # update iterates self: a removed key comes back as (k, None)
        simple('nat', [1, 2, 3], 'nat', 'fresh', 0, [], [],
               [('u', 0, 10), ('u', 0, None), ('u', 1, 20), ('u', 1, 21), ('u', 0, 11), ('g', 0)]),
        # a key that exists on chain only is updated: the new value must become a local entry
        simple('nat', [1, 2, 3], 'nat', 'onchain', 5, [(1, 200)], [], [('u', 1, 7), ('g', 1)]),
        simple('string', ['a', 'b', 'c'], 'nat', 'copy', 5, [(0, 1), (2, 3)], [],
               [('a', 0, None), ('a', 0, 9), ('u', 2, None), ('m', 2), ('g', 0), ('g', 1)]),
        # pair keys: the first component decides (the pinned PairType.__lt__ sorted these wrongly), nested Pair in the hash
        {'t': pii, 'keys': pk, 'vkind': 'nat', 'par': None, 'st': [('lit', [(0, 1), (2, 3)])], 'chain': {},
         'ev': [('u', 0, 1, 9), ('u', 0, 0, None), ('g', 0, 1), ('g', 0, 0), ('a', 0, 2, 0)], 'store': [0]},
        # an empty map as VALUE (falsy): stored, read, emitted and read back
        {'t': 'nat', 'keys': [('int', 1), ('int', 2)], 'vkind': 'map nat nat', 'par': None, 'st': [('id', 5)], 'chain': {5: [(0, 0), (1, 2)]},
         'ev': [('g', 0, 0), ('m', 0, 0), ('u', 0, 1, 0), ('a', 0, 1, None), ('u', 0, 0, 0)], 'store': [0]},
        # DUP then diverging updates; the duplicate is stored, the original dropped
        {'t': 'string', 'keys': [('str', 'a'), ('str', 'b')], 'vkind': 'string', 'par': None, 'st': [('id', 17)], 'chain': {17: [(0, 1)]},
         'ev': [('u', 0, 1, 0), ('d', 0), ('u', 0, 0, None), ('u', 1, 0, 2), ('g', 0, 0), ('g', 1, 0), ('g', 1, 1)], 'store': [1]},
        # the same on-chain map in the parameter (copy) and in the storage (update); two big maps in the storage
        {'t': 'address', 'keys': [('addr', 0, bytes(20), ''), ('addr', 4, bytes(range(20)), 'a'), kt], 'vkind': 'bool', 'par': 5,
         'st': [('id', 5), ('lit', [(1, 0)])], 'chain': {5: [(2, 1)]},
         'ev': [('u', 0, 2, None), ('g', 1, 2), ('u', 2, 2, 0), ('a', 1, 1, 1), ('m', 0, 2)], 'store': [1, 0]},
    ]


def check_packs(ctx, packs, model):
    from pytezos.michelson.forge import forge_script_expr
    from pytezos.michelson.types.base import MichelsonType
    cls = {}
    reported = 0
    for i, (t, k) in enumerate(packs):
        if t not in cls:
            cls[t] = MichelsonType.match(G.ty_expr(t))
        try:
            packed = cls[t].from_micheline_value(G.to_micheline(k)).pack(legacy=True)
            got = packed.hex()
            got_hash = forge_script_expr(packed)
        except Exception as ex:      # noqa: BLE001
            got = got_hash = f'raise {type(ex).__name__}'
        ctx.case({'pack': G.ty_text(t), 'key': G.to_text(k)}, nontrivial=not isinstance(t, str))
        ctx.count('pack_key_type', t if isinstance(t, str) else t[0])
        want = (b'\x05' + forge_key(k)).hex()
        if got != want and reported < 10:
            reported += 1
            ctx.violation(f'key_pack: {G.ty_text(t)} {G.to_text(k)}'[:300],
                          f'pack(legacy=True) of the key is {got}, the legacy form (nested Pair, optimized leaves) is {want}',
                          {'key_type': G.ty_text(t), 'key': G.to_text(k), 'observed': got, 'expected': want})
        if got_hash != expr_hash(k) and reported < 10:
            reported += 1
            ctx.violation(f'key_hash: {G.ty_text(t)} {G.to_text(k)}'[:300],
                          f'forge_script_expr(pack(legacy=True)) of the key is {got_hash}, the script-expression hash of the legacy form is {expr_hash(k)}',
                          {'key_type': G.ty_text(t), 'key': G.to_text(k), 'observed': got_hash, 'expected': expr_hash(k)})
        # the model prints the packed bytes AND the `expr…` text (Lean BLAKE2b-256 + Base58Check with the Lean SHA-256)
        if model is not None and model[i] != f'{got} {got_hash}':
            ctx.mismatch('pack+key_hash', {'key_type': G.ty_text(t), 'key': G.to_text(k)}, f'{got} {got_hash}', model[i])


def literal_universe_ok(case):
    return len(case['keys']) >= 1


def check_modes(ctx, universes):
    """`aggregate_lazy_diff(lazy_diff, mode=…)` called directly (run_code always asks for the readable diff): a freshly allocated big map
    holding every key of a universe, emitted in the three modes — the key hash does not depend on the rendering, the rendered key reads
    back as the key"""
    from pytezos.context.impl import ExecutionContext
    from pytezos.michelson.forge import forge_script_expr
    from pytezos.michelson.types.base import MichelsonType
    reported = 0
    for t, keys in universes:
        try:
            cls = MichelsonType.match({'prim': 'big_map', 'args': [G.ty_expr(t), NAT]})
            kcls = MichelsonType.match(G.ty_expr(t))
            lit = [{'prim': 'Elt', 'args': [G.to_micheline(k), {'int': str(i)}]} for i, k in enumerate(keys)]
        except Exception:          # noqa: BLE001
            continue
        hashes = [expr_hash(k) for k in keys]
        for mode in ('readable', 'optimized', 'legacy_optimized'):
            ctx.case({'aggregate_lazy_diff': G.ty_text(t), 'keys': [G.to_text(k) for k in keys], 'mode': mode}, nontrivial=mode != 'readable')
            ctx.count('direct_mode', mode)
            try:
                bm = cls.from_micheline_value(lit)
                bm.attach_context(ExecutionContext())
                out = []
                bm.aggregate_lazy_diff(out, mode=mode)
                ups = out[0]['diff']['updates']
                seen = []
                for u in ups:
                    # the rendered key must denote the key the hash belongs to (compared through PACK: the optimized form of a
                    # signature forgets its curve tag by design, so texts are not compared)
                    rendered = forge_script_expr(kcls.from_micheline_value(u['key']).pack(legacy=True))
                    i = hashes.index(rendered) if rendered in hashes else -1
                    seen.append((i, u.get('value'), u.get('key_hash')))
            except Exception as ex:      # noqa: BLE001
                seen = f'raise {type(ex).__name__}: {ex}'[:160]
            want = [(i, {'int': str(i)}, expr_hash(k)) for i, k in enumerate(keys)]
            if seen != want and reported < 8:
                reported += 1
                j = next((j for j, (a, b) in enumerate(zip(seen, want)) if a != b), 0) if isinstance(seen, list) and len(seen) == len(want) else None
                what = (f'key_hash of key #{j} {G.to_text(keys[j])} is {seen[j][2]}, the script-expression hash of its legacy PACK is {want[j][2]}'
                        if j is not None and seen[j][:2] == want[j][:2] else f'updates {seen}, expected {want}')
                ctx.violation(f'key_hash: aggregate_lazy_diff(mode={mode!r}) {G.ty_text(t)}'[:300],
                              f'big_map {G.ty_text(t)} nat literal with keys {[G.to_text(k) for k in keys]}, aggregate_lazy_diff(mode={mode!r}): {what}',
                              {'key_type': G.ty_text(t), 'keys': [G.to_text(k) for k in keys], 'mode': mode, 'observed': seen, 'expected': want})


def run(ctx):
    status = extract.generate(PROP)
    # the typed-key theorems rest on the C03 mirror of __eq__ / __lt__: its tables are re-read from the source as well
    # (listed as `dep:C03 …`: obligations of the dependency, re-checked here because a comparison method that changes shape
    # re-opens `C15.key_order_strictTotal` and with it every `typed_*` theorem)
    status.update({f'dep:C03 {k}': v for k, v in extract.generate('C03').items()})
    # … and `Impl.BigMap.packLegacy` writes bytes with C05's binary Micheline writer (primitive tags read from the source)
    status.update({f'dep:C05 {k}': v for k, v in extract.generate('C05').items()})
    ctx.prepare_lean(status)
    quick = ctx.tier == 'quick'
    max_len = 25 if quick else 200
    ctx.extra['rule'] = (
        'one Interpreter.run_code call per case with a stub shell (output_mode readable, for a quarter of the cases optimized / legacy_optimized); a third of the cases whose key type contains address / key / key_hash / signature / chain_id has a twin history over the same key texts typed string, run in the same process just before or after; key type from a list of 30 comparable types (nat, int, string, bytes, '
        'timestamp, address, key_hash, key, pair, nested pairs, option, or, …) or random (nesting <= 2), universe of 3-6 near-equal keys '
        '(gen_c03.near); value type nat / string / bytes / bool / unit / option / list / set / map with code 0 = the falsy value; the big maps '
        'enter as storage literal (alloc), storage id (update) or parameter id (copy), one or two big maps in the storage, random on-chain '
        'subset per id plus an unrelated on-chain map; history (length <= %d) of GET/MEM/UPDATE/GET_AND_UPDATE addressed to the slots with '
        '0-2 DUPs after which the copies diverge; random choice of the slots that are stored; plus every GET_AND_UPDATE history up to '
        'length %d over 3 nat keys x all 8 on-chain subsets, fully observed at the end; non-trivial = at least one mutation and (some key '
        'on chain or a key mutated twice)' % (max_len, 3 if quick else 5))
    ctx.assumptions += [
        'the node is a stub: get_big_map_value sees exactly the given (id, key hash) -> value table',
        'the order of the keys is the one C03 establishes (C03.tval_strictTotal, used by the typed_* theorems); values are opaque codes in the model',
        "a `copy` entry does not name its source in the emitted JSON (`pass  # TODO` in aggregate_lazy_diff); the oracle applies it to the on-chain contents of the map the parameter named; "
        'every entry is applied to the ORIGINAL on-chain contents of its source (also when the same id is copied and updated in one run)',
        'two descendants (DUP) of the same on-chain id are never both stored (both would emit `update` for one id; outside the property)',
        'Blake2b-256 / SHA-256: abstract hash in the general theorems; the driver and the `…_concrete` corollaries use the executable Lean '
        'implementations (the model prints the `expr…` key hash of every update of every emitted diff and of every packed key; tied to '
        'hashlib by these comparisons and to the expr hashes of test_micheline.py by kernel-evaluated examples; only the digest length is '
        'proved); the oracle recomputes legacy PACK and hash with hashlib and a local Micheline forger',
    ]
    cases = regressions()
    n_random = 1800 if quick else 6000
    n_twins = 0
    for j in range(n_random):
        c = random_case(ctx.rng, max_len if ctx.rng.random() < (0.4 if quick else 0.15) else 12,
                        t=ctx.rng.choice(TEXT_TYPES + (('pair', 'address', 'nat'), ('or', 'key_hash', 'address'), ('pair', 'timestamp', 'key_hash'))) if j % 9 == 4 else None)
        tw = text_twin(ctx.rng, c, 12) if has_text(c['t']) and j % 3 == 1 else None
        if tw is None:
            cases.append(c)
            continue
        # both orders: the process has already hashed / compared these texts under the other type
        n_twins += 1
        first, second = (c, tw) if n_twins % 2 else (tw, c)
        second['after'] = G.ty_text(first['t'])
        cases += [first, second]
    ctx.extra['text_twin_pairs'] = n_twins
    n_ex = 0
    for c in exhaustive_cases(3 if quick else 5):
        cases.append(c)
        n_ex += 1
    ctx.extra['exhaustive_subspace'] = {'cases': n_ex, 'keys': 3, 'on_chain_subsets': 8, 'max_len': 3 if quick else 5}
    # second stream: the bytes that are hashed for a key (`key.pack(legacy=True)`), every key of every random universe once
    packs, seen_keys = [], set()
    for c in cases[:len(cases) - n_ex]:
        for k in c['keys']:
            if (c['t'], k) not in seen_keys:
                seen_keys.add((c['t'], k))
                packs.append((c['t'], k))
    lines = [model_line(c) for c in cases] + ['pack ' + ' '.join(G.ty_tokens(t) + G.val_tokens(k)) for t, k in packs]
    model_all = ctx.model(lines)
    model = None if model_all is None else model_all[:len(cases)]
    check_packs(ctx, packs, None if model_all is None else model_all[len(cases):])
    universes, seen_u = [], set()
    for c in cases[:len(cases) - n_ex]:
        u = (c['t'], tuple(c['keys']))
        if u not in seen_u and literal_universe_ok(c):
            seen_u.add(u)
            universes.append((c['t'], c['keys']))
    check_modes(ctx, universes[:400 if quick else 4000])
    shrunk = 0
    for i, case in enumerate(cases):
        res = run_impl(case)
        muts = [e for e in case['ev'] if e[0] in 'ua']
        ks = [(e[1], e[2]) for e in muts]
        on_chain = any(kvs for p, kvs in case['chain'].items())
        nontrivial = bool(muts) and (on_chain or len(set(ks)) < len(ks))
        ctx.case(describe(case), nontrivial=nontrivial)
        fam = case['t'] if isinstance(case['t'], str) else case['t'][0]
        layout = ('par+' if case['par'] is not None else '') + '+'.join(s[0] for s in case['st'])
        ctx.count('layout', layout)
        ctx.count('key_type', fam)
        ctx.count('value_type', case['vkind'])
        ctx.count('output_mode', case.get('out_mode', 'readable'))
        ctx.count('after_text_twin', bool(case.get('after')))
        ctx.count('history_len', min(len(case['ev']) // 10 * 10, 200))
        ctx.count('dups', sum(1 for e in case['ev'] if e[0] == 'd'))
        ctx.count('stored_slot_is_duplicate', any(s >= n_init(case) for s in case['store']))
        ctx.count('on_chain_keys', sum(len(kvs) for kvs in case['chain'].values()))
        ctx.count('result', 'rejected' if res['error'] is not None else 'ok')
        ctx.count('falsy_value_written', any(e[0] in 'ua' and e[3] == 0 for e in case['ev']))
        bad = oracle(case, res)
        if bad is not None:
            topic = 'merge_lazy_diff' if 'merge_lazy_diff' in bad else 'key_hash' if 'key_hash' in bad or 'key hash' in bad else 'history'
            if shrunk < 25:
                small = shrink(case)
                shrunk += 1
                what = oracle(small, run_impl(small))
                if what is None:      # (a failure that needs the process history and is gone in the shrunk re-run)
                    small, what = case, bad
                ctx.violation(f'{topic}: {short(small)}'[:400], what, {'case': describe(small), 'what': what, 'from': describe(case)})
            else:
                ctx.count('violations_not_shrunk', 1)
                ctx.violation(f'{topic} (unshrunk): {short(case)}'[:300], bad, {'case': describe(case), 'what': bad})
        if model is not None:
            got = impl_line(res)
            if got != model[i]:
                ctx.mismatch('history', describe(case), got, model[i])
