"""C15 — big map operations and lazy diffs agree with a layered dictionary model.

Every case is one call of the real `Interpreter.run_code` on a generated contract whose code replays a history of
GET / MEM / UPDATE / GET_AND_UPDATE on one big_map and conses every observation onto a list kept in the storage.
The on-chain contents are served by an in-process stub shell (what `ExecutionContext.get_big_map_value` walks:
`shell.blocks[block_id].context.big_maps[ptr][key_hash]()`, `RpcError` = key absent).  Three ways a big map enters
the code: `fresh` (a literal in the storage: temporary id, diff action `alloc`), `onchain` (an id in the storage:
registered, action `update`), `copy` (an id passed as *parameter*: registered as a copy, action `copy`).

Compared with the Lean mirror: every observation, the diff entry (id, action, updates sorted by key) and the id left in
the storage.  Property oracle (independent of the mirror): a plain Python dict started from the on-chain contents /
the literal; every observation must equal the dict's, the emitted updates applied in order to the on-chain contents
must give exactly the final dict, and every update must carry base58 `expr`(Blake2b-256(PACK key)) recomputed here
with hashlib and a local base58/zarith encoder."""
import hashlib
import itertools
import json

from translator import extract

PROP = 'C15'

# ---------------------------------------------------------------- independent PACK / script-expression hash
B58 = '123456789ABCDEFGHJKLMNPQRSTUVWXYZabcdefghijkmnopqrstuvwxyz'


def b58check(payload):
    data = payload + hashlib.sha256(hashlib.sha256(payload).digest()).digest()[:4]
    n = int.from_bytes(data, 'big')
    out = ''
    while n:
        n, r = divmod(n, 58)
        out = B58[r] + out
    return '1' * (len(data) - len(data.lstrip(b'\0'))) + out


def zarith(n):
    sign, n = (0x40, -n) if n < 0 else (0, n)
    first = n & 0x3F
    n >>= 6
    out = [first | sign | (0x80 if n else 0)]
    while n:
        b = n & 0x7F
        n >>= 7
        out.append(b | (0x80 if n else 0))
    return bytes(out)


def pack_key(kt, k):
    if kt in ('nat', 'int'):
        return b'\x05\x00' + zarith(k)
    raw = k.encode()
    return b'\x05\x01' + len(raw).to_bytes(4, 'big') + raw


def expr_hash(kt, k):
    return b58check(bytes([13, 44, 64, 27]) + hashlib.blake2b(pack_key(kt, k), digest_size=32).digest())


def key_mich(kt, k):
    return {'string': k} if kt == 'string' else {'int': str(k)}


UNIVERSES = {
    'nat': [0, 1, 2, 7, 63, 64, 127, 128, 255, 256, 8191, 8192, 2 ** 32, 2 ** 64, 2 ** 70 + 1],
    'int': [-2 ** 65, -8193, -129, -128, -65, -64, -63, -2, -1, 0, 1, 2, 63, 64, 127, 128, 2 ** 64],
    'string': ['', 'A', 'B', 'Z', 'a', 'aa', 'ab', 'b', 'ba', 'hello', 'z', '~'],
}


def tezos_sorted(kt, keys):
    return sorted(keys, key=(lambda s: s.encode()) if kt == 'string' else (lambda n: n))


# ---------------------------------------------------------------- stub shell
class _Q:
    def __init__(self, sh, path):
        self._sh, self._path = sh, path

    def __getitem__(self, k):
        return _Q(self._sh, self._path + (k,))

    def __getattr__(self, k):
        return _Q(self._sh, self._path + (k,))

    def __call__(self):
        from pytezos.rpc.node import RpcError
        p = self._path
        if len(p) != 6 or p[0] != 'blocks' or p[2] != 'context' or p[3] != 'big_maps':
            raise AssertionError(f'unexpected shell query {p}')
        self._sh.queries.append((p[4], p[5]))
        if (p[4], p[5]) in self._sh.content:
            return self._sh.content[(p[4], p[5])]
        raise RpcError('key does not exist')


class StubShell:
    """stands for the node: content = {(big_map id, key hash): Micheline value}"""

    def __init__(self, content):
        self.content = content
        self.queries = []

    @property
    def blocks(self):
        return _Q(self, ('blocks',))


# ---------------------------------------------------------------- case -> contract
def P(prim, *args):
    return {'prim': prim, 'args': list(args)} if args else {'prim': prim}


RECORD = [P('DIG', {'int': '2'}), P('SWAP'), P('CONS'), P('SWAP')]        # [obs, bm, lst] -> [bm, obs :: lst]


def opt_val(v):
    return P('NONE', P('nat')) if v is None else None


def compile_ops(kt, keys, ops):
    code = []
    for op in ops:
        kind, k = op[0], key_mich(kt, keys[op[1]])
        push_k = P('PUSH', P(kt), k)
        if kind == 'g':
            code += [P('DUP'), push_k, P('GET')] + RECORD
        elif kind == 'm':
            code += [P('DUP'), push_k, P('MEM'),
                     P('IF', [P('PUSH', P('option', P('nat')), P('Some', {'int': '1'}))], [P('NONE', P('nat'))])] + RECORD
        else:
            v = op[2]
            code += [P('NONE', P('nat'))] if v is None else [P('PUSH', P('nat'), {'int': str(v)}), P('SOME')]
            code += [push_k, P('UPDATE')] if kind == 'u' else [push_k, P('GET_AND_UPDATE')] + RECORD
    return code


def build(case):
    """(script, parameter, storage, shell)"""
    kt, keys, mode, ptr = case['kt'], case['keys'], case['mode'], case['ptr']
    bm_t = P('big_map', P(kt), P('nat'))
    st_t = P('pair', bm_t, P('list', P('option', P('nat'))))
    if mode == 'copy':
        head = [P('UNPAIR'), P('SWAP'), P('CDR'), P('SWAP')]
        par_t, par, st = bm_t, {'int': str(ptr)}, P('Pair', [], [])
    else:
        head = [P('CDR'), P('UNPAIR')]
        par_t, par = P('unit'), P('Unit')
        if mode == 'onchain':
            st = P('Pair', {'int': str(ptr)}, [])
        else:
            st = P('Pair', [P('Elt', key_mich(kt, keys[i]), {'int': str(v)}) for i, v in case['lit']], [])
    code = head + compile_ops(kt, keys, case['ops']) + [P('PAIR'), P('NIL', P('operation')), P('PAIR')]
    script = [P('parameter', par_t), P('storage', st_t), P('code', code)]
    content = {(ptr, expr_hash(kt, keys[i])): {'int': str(v)} for i, v in case['chain']} if mode != 'fresh' else {}
    return script, par, st, StubShell(content)


def run_impl(case):
    from pytezos.michelson.repl import Interpreter
    script, par, st, shell = build(case)
    ops_, storage, lazy_diff, stdout, err = Interpreter.run_code(parameter=par, storage=st, script=script, shell=shell)
    if err is not None:
        return {'error': (stdout[-1] if stdout else type(err).__name__)[:120], 'shell': shell}
    kt, keys = case['kt'], case['keys']
    obs_raw = list(reversed(storage['args'][1]))
    obs, it = [], iter(obs_raw)
    for op in case['ops']:
        if op[0] == 'u':
            obs.append('U')
            continue
        o = next(it, None)
        if o is None:
            obs.append('?')
        elif op[0] == 'm':
            obs.append('T' if o.get('prim') == 'Some' else 'F')
        else:
            obs.append('N' if o.get('prim') == 'None' else 'S' + o['args'][0]['int'])
    idx = {json.dumps(key_mich(kt, k), sort_keys=True): i for i, k in enumerate(keys)}
    entries = [e for e in lazy_diff if e.get('kind') == 'big_map']
    diffs = []
    for e in entries:
        ups = []
        for u in e['diff'].get('updates', []):
            ups.append((idx.get(json.dumps(u['key'], sort_keys=True), -1), int(u['value']['int']) if 'value' in u else None,
                        u.get('key_hash')))
        diffs.append({'id': e['id'], 'action': e['diff']['action'], 'updates': ups,
                      'types': (e['diff'].get('key_type'), e['diff'].get('value_type'))})
    return {'error': None, 'obs': obs, 'diffs': diffs, 'ptr': storage['args'][0].get('int'), 'shell': shell}


def impl_line(res):
    if res['error'] is not None:
        return 'rejected'
    if len(res['diffs']) != 1:
        return f"obs {' '.join(res['obs'])} ; diffs {len(res['diffs'])}"
    d = res['diffs'][0]
    ups = sorted(d['updates'], key=lambda u: u[0])           # stable: canonical order for set-derived parts
    return (f"obs {' '.join(res['obs'])} ; diff {d['id']} {d['action']} "
            + ' '.join(f'{k}={"-" if v is None else v}' for k, v, _ in ups) + f" ; state {res['ptr']}")


def model_line(case):
    kv = lambda xs: ' '.join(f'{k}={v}' for k, v in xs)
    ops = ' '.join(f'{o[0]}{o[1]}' if o[0] in 'gm' else f'{o[0]}{o[1]}={"-" if o[2] is None else o[2]}' for o in case['ops'])
    return f"{case['mode']} {case['ptr']} | {kv(case['chain']) if case['mode'] != 'fresh' else ''} | {kv(case['lit']) if case['mode'] == 'fresh' else ''} | {ops}"


# ---------------------------------------------------------------- the property's own predicate
def literal_ok(case):
    ks = [i for i, _ in case['lit']]
    return case['mode'] != 'fresh' or all(a < b for a, b in zip(ks, ks[1:]))


def oracle(case, res):
    """None or a description of how the real code deviates from the layered dictionary"""
    if not literal_ok(case):
        return None if res['error'] is not None else 'unsorted / duplicate literal accepted'
    if res['error'] is not None:
        return f"history raised: {res['error']}"
    base = dict(case['chain']) if case['mode'] != 'fresh' else {}
    d = dict(base) if case['mode'] != 'fresh' else dict(case['lit'])
    for n, (op, got) in enumerate(zip(case['ops'], res['obs'])):
        k = op[1]
        if op[0] == 'g':
            want = 'N' if k not in d else f'S{d[k]}'
        elif op[0] == 'm':
            want = 'T' if k in d else 'F'
        elif op[0] == 'a':
            want = 'N' if k not in d else f'S{d[k]}'
        else:
            want = 'U'
        if op[0] in 'ua':
            if op[2] is None:
                d.pop(k, None)
            else:
                d[k] = op[2]
        if got != want:
            return f'op #{n} {op}: observed {got}, dictionary says {want}'
    if len(res['diffs']) != 1:
        return f"{len(res['diffs'])} big_map entries in lazy_diff, expected 1"
    e = res['diffs'][0]
    want_id, want_action = {'fresh': ('0', 'alloc'), 'onchain': (str(case['ptr']), 'update'), 'copy': ('0', 'copy')}[case['mode']]
    if (e['id'], e['action']) != (want_id, want_action) or res['ptr'] != want_id:
        return f"diff id/action {e['id']}/{e['action']}, storage id {res['ptr']}; expected {want_id}/{want_action}"
    if e['action'] == 'alloc' and e['types'] != ({'prim': case['kt']}, {'prim': 'nat'}):
        return f"alloc entry carries types {e['types']}"
    applied = dict(base)
    seen = set()
    for k, v, h in e['updates']:
        if k < 0:
            return 'diff entry with a key outside the universe'
        if h != expr_hash(case['kt'], case['keys'][k]):
            return f'key_hash of key #{k} is {h}, expected {expr_hash(case["kt"], case["keys"][k])}'
        if k in seen:
            return f'diff lists key #{k} twice: {[(a, b) for a, b, _ in e["updates"]]}'
        seen.add(k)
        if v is None:
            applied.pop(k, None)
        else:
            applied[k] = v
    if applied != d:
        return f'diff applied to the on-chain contents gives {sorted(applied.items())}, final dictionary is {sorted(d.items())}'
    for ptr, _ in res['shell'].queries:
        if ptr != case['ptr']:
            return f'node asked for big_map {ptr}, the map is backed by {case["ptr"]}'
    return None


def fails(case):
    return oracle(case, run_impl(case))


def shrink(case):
    """greedy: drop operations, then on-chain / literal entries, while the oracle still fails"""
    cur = dict(case)
    changed = True
    while changed:
        changed = False
        for field in ('ops', 'chain', 'lit'):
            i = 0
            while i < len(cur[field]):
                cand = dict(cur)
                cand[field] = cur[field][:i] + cur[field][i + 1:]
                if fails(cand):
                    cur, changed = cand, True
                else:
                    i += 1
    return cur


def describe(case):
    return {'key_type': case['kt'], 'keys': [str(k) for k in case['keys']], 'mode': case['mode'], 'id': case['ptr'],
            'on_chain': case['chain'] if case['mode'] != 'fresh' else [], 'literal': case['lit'] if case['mode'] == 'fresh' else [],
            'ops': [list(o) for o in case['ops']]}


def short(case):
    ops = ' '.join(f'{o[0]}{o[1]}' if o[0] in 'gm' else f'{o[0]}{o[1]}={"-" if o[2] is None else o[2]}' for o in case['ops'])
    where = f"chain={dict(case['chain'])}" if case['mode'] != 'fresh' else f"lit={dict(case['lit'])}"
    return f"{case['mode']} {where}: {ops}"


# ---------------------------------------------------------------- generation
def gen_ops(rng, nkeys, n, next_val):
    ops = []
    hot = rng.sample(range(nkeys), k=min(nkeys, 2))
    for _ in range(n):
        k = rng.choice(hot) if rng.random() < 0.5 else rng.randrange(nkeys)
        r = rng.random()
        if r < 0.2:
            ops.append(('g', k))
        elif r < 0.3:
            ops.append(('m', k))
        else:
            kind = 'u' if rng.random() < 0.65 else 'a'
            if rng.random() < 0.4:
                ops.append((kind, k, None))
            else:
                ops.append((kind, k, next(next_val)))
    return ops


def random_case(rng, max_len):
    kt = rng.choice(['nat', 'nat', 'int', 'string'])
    nkeys = rng.randrange(4, 7)
    keys = tezos_sorted(kt, rng.sample(UNIVERSES[kt], nkeys))
    mode = rng.choice(['fresh', 'onchain', 'onchain', 'copy'])
    vals = itertools.count(1)
    sub = [i for i in range(nkeys) if rng.random() < 0.5]
    chain = [(i, 100 + next(vals)) for i in sub]
    lit = []
    if mode == 'fresh':
        lit = [(i, 200 + next(vals)) for i in range(nkeys) if rng.random() < 0.35]
        if lit and rng.random() < 0.04:              # a literal `check_constraints` must refuse
            lit = lit + [lit[0]] if rng.random() < 0.5 or len(lit) < 2 else list(reversed(lit))
    n = rng.randrange(0, max_len + 1) if rng.random() < 0.8 else rng.randrange(0, 6)
    ops = gen_ops(rng, nkeys, n, vals)
    if rng.random() < 0.5:                            # observe everything at the end
        ops += [('g', i) for i in range(nkeys)]
    return {'kt': kt, 'keys': keys, 'mode': mode, 'ptr': rng.choice([0, 5, 17, 4242]), 'chain': chain, 'lit': lit, 'ops': ops}


def exhaustive_cases(max_len):
    """3 keys, all 8 on-chain subsets, every history of GET_AND_UPDATE k None / Some (6 letters) up to max_len,
    followed by GET and MEM of every key"""
    keys = [3, 8, 200]
    tail = [('g', i) for i in range(3)] + [('m', i) for i in range(3)]
    letters = [(k, s) for k in range(3) for s in (False, True)]
    for bits in range(8):
        chain = [(i, 100 + i) for i in range(3) if bits >> i & 1]
        for ln in range(max_len + 1):
            for word in itertools.product(letters, repeat=ln):
                ops = [('a', k, (10 + n) if s else None) for n, (k, s) in enumerate(word)]
                yield {'kt': 'nat', 'keys': keys, 'mode': 'onchain', 'ptr': 5, 'chain': chain, 'lit': [], 'ops': ops + tail}


REGRESSIONS = [
    # update iterates self: a removed key comes back as (k, None)
    {'kt': 'nat', 'keys': [1, 2, 3], 'mode': 'fresh', 'ptr': 0, 'chain': [], 'lit': [],
     'ops': [('u', 0, 10), ('u', 0, None), ('u', 1, 20), ('u', 1, 21), ('u', 0, 11), ('g', 0)]},
    # a key that exists on chain only is updated: the new value must become a local entry
    {'kt': 'nat', 'keys': [1, 2, 3], 'mode': 'onchain', 'ptr': 5, 'chain': [(1, 200)], 'lit': [],
     'ops': [('u', 1, 7), ('g', 1)]},
    {'kt': 'string', 'keys': ['a', 'b', 'c'], 'mode': 'copy', 'ptr': 5, 'chain': [(0, 1), (2, 3)], 'lit': [],
     'ops': [('a', 0, None), ('a', 0, 9), ('u', 2, None), ('m', 2), ('g', 0), ('g', 1)]},
]


def run(ctx):
    ctx.prepare_lean(extract.generate(PROP))
    quick = ctx.tier == 'quick'
    max_len = 25 if quick else 200
    ctx.extra['rule'] = (
        'random histories (length <= %d) of GET/MEM/UPDATE/GET_AND_UPDATE over 4-6 keys of type nat/int/string, a random '
        'subset of the keys on chain, map entering as fresh literal / on-chain id / copied parameter, each run through '
        'Interpreter.run_code with a stub shell; plus every GET_AND_UPDATE history up to length %d over 3 keys x all 8 '
        'on-chain subsets, fully observed at the end; non-trivial = at least one mutation and (some key on chain or a key '
        'mutated twice)' % (max_len, 3 if quick else 5))
    ctx.assumptions += [
        'the node is a stub: get_big_map_value sees exactly the given (id, key hash) -> value table',
        'key types nat / int / string, values nat; ordering of other key types is C03/C14',
        "a `copy` entry does not name its source in the emitted JSON (`pass  # TODO` in aggregate_lazy_diff); the oracle applies it to the map the parameter named",
        'Blake2b / SHA-256 are hashlib (abstract function in the Lean theorems)',
    ]
    cases = list(REGRESSIONS)
    n_random = 1500 if quick else 6000
    for _ in range(n_random):
        cases.append(random_case(ctx.rng, max_len if ctx.rng.random() < (0.5 if quick else 0.15) else 12))
    n_ex = 0
    for c in exhaustive_cases(3 if quick else 5):
        cases.append(c)
        n_ex += 1
    ctx.extra['exhaustive_subspace'] = {'cases': n_ex, 'keys': 3, 'on_chain_subsets': 8, 'max_len': 3 if quick else 5}
    model = ctx.model([model_line(c) for c in cases])
    shrunk = 0
    for i, case in enumerate(cases):
        res = run_impl(case)
        muts = [o for o in case['ops'] if o[0] in 'ua']
        ks = [o[1] for o in muts]
        nontrivial = bool(muts) and ((case['mode'] != 'fresh' and bool(case['chain'])) or len(set(ks)) < len(ks))
        ctx.case(describe(case), nontrivial=nontrivial)
        ctx.count('mode', case['mode'])
        ctx.count('key_type', case['kt'])
        ctx.count('history_len', min(len(case['ops']) // 10 * 10, 200))
        ctx.count('on_chain_keys', len(case['chain']) if case['mode'] != 'fresh' else 0)
        ctx.count('result', 'rejected' if res['error'] is not None else 'ok')
        chain_only = {k for k, _ in case['chain']} if case['mode'] != 'fresh' else set()
        ctx.count('mutates_on_chain_key', any(o[1] in chain_only for o in muts))
        bad = oracle(case, res)
        if bad is not None:
            if shrunk < 25:
                small = shrink(case)
                shrunk += 1
                what = oracle(small, run_impl(small))
                ctx.violation(short(small), f'{short(small)} -> {what}', {'case': describe(small), 'what': what, 'from': describe(case)})
            else:
                ctx.count('violations_not_shrunk', 1)
                ctx.violation('unshrunk: ' + short(case)[:200], bad, {'case': describe(case), 'what': bad})
        if model is not None:
            got = impl_line(res)
            if got != model[i]:
                ctx.mismatch('history', describe(case), got, model[i])
