"""C31 — Merkle hashes (crypto/hash.py).

Three streams over the same cases, all through the three PUBLIC functions (`operation_list_hash`,
`operation_list_list_hash`, `block_payload_hash`; base58 strings in, base58 string out):

* end to end: the unpatched functions against the Lean model of the WHOLE call (`Impl.MerkleText`: base58_decode of
  every item, the array algorithm with the executable Lean BLAKE2b-256, base58_encode with the executable double SHA-256):
  the driver is given the same strings and must print the same `Lo…` / `LLo…` / `vh…` text (or the same exception
  class); a few extra string-level cases (corrupted item, item of another kind or length, bad predecessor) go through
  this stream only;
* correspondence: `blake2b` inside `pytezos.crypto.hash` is replaced by a cheap deterministic 32-byte function that
  the Lean driver implements too (`toyHash`), so the real control flow and the Lean mirror build the same tree; the
  results (base58-decoded with the `base58` package, not with pytezos) are diffed;
* oracle: the unpatched functions (real BLAKE2b) against an independent recursive Merkle implementation
  (hashlib + base58, explicit padding to a power of two with the last leaf), prefixes included.  The reference is
  itself checked against recorded chain data first.
"""
import hashlib

from translator import extract

PROP = 'C31'
MASK = (1 << 64) - 1

# binary base58check prefixes (Tezos `Base58` module), NOT read from pytezos
PFX = {'o': bytes([5, 116]), 'B': bytes([1, 52]), 'Lo': bytes([133, 233]), 'LLo': bytes([29, 159, 109]), 'vh': bytes([1, 106, 242])}

# mainnet block 2223648 (operations hash of the header) and two ithacanet payload hashes: chain data the independent
# reference implementation below is itself checked against on every run
CHAIN_LLO = 'LLoaQ8vjCwYooVy6nRSUP9VRBk1YHaHgqWrHw3J9j4VmEvVZCbaYB'
CHAIN_OPS = [
    '''
    oofVGFJuMPd6XpSvXKRVU6AuE6DtAbBibyfUzXdqfrCDTPuraJQ oo8iiB6A3WJBzEwc74jMRtb9gyzbEenKuLLwUFmQ4xS98HyFJTu
    ooGn6pyqjMSmjSGRdm2fS8SAzzVh1JEz3qDiviLdHAcKViXWycB opFfqxztw69M4m7MPqD63sfZdwF74A8ThDricTQKgiTbNd4ydwc
    op5RZXfy4duRbw69qYW99YJvfMCDjyvuDs4s33qjYXBgxmCRp4f ooyDEUZAFxEpd2HY9VNb94ahj2HYsLUHCcNYSqKepiP3bw6RpnK
    opMe31pUFbaEtD5KJask8Uc8yUZf6anhvNdMG6FYuxmXrnAWSnx opF1AskkJxmA8yZ9cSTFFPBSEr4DGS7QTrRxFQtDTyQovqLt1yF
    ooA93x3EopoPQXfmqZEMw4SV5rHiLAkLUKWmer2t3bSSKtJMkrj ooa9bxcu3KVkz8VL7E3L8iKbacKLFZDDm16QX5q78w6TWqWV1rA
    oowjubMor6aVxSALd7cuEQNBmKw44CeqNYqjuQdfQ25conXcddB opRiXgV2AHhVKvs3rDG9G4rcPUBDJZxAHz3knbgHWkhxzxunxCV
    ooay46SGffH5uDrwTzZncG9ddtCRXWsDTsb5vB9AXZoqkPe1LwJ ooVWhZr6MX9mNwMzdDPpf5ymKEvzrCR5aVRVqAk1XDhFSHAWAGG
    op116mqfnbSFjutJYKgTutrqTrjDzLTL34RaJ2gfQF6z92B1GEd ooJNd7bFHgMxuH2yNJZk5UWAPZQE4Q9rBYnCWg4j2Ew1uBx47Hj
    ooxFdyNjjGW3179jxQPjQupFmgAaaYhy5pNFxK2tAwNJoh8ESTD ooDPfEsSiicmxWBWZ8r9ZJL2YgFYiE4pFFtJzLtyrF8NCjsQ1xA
    opVY4fhUQHSRDMDbfNzEn298cZu9ebb3pT617gDi9KyLcmTg6ET ooRQEKVpWAApe6nycqTSu3KUy3ytZvDzfwbWAckqzHaHa663iak
    ooHrrz1nuhQnpztLJs89XCAGKTeYYZp7LoumZhbqTrqdxNTuJSX onoxNGDu2NBnJxZVMoUhtSqhjsWbEBPaYFneEGTv3DowzDNnxzf
    ooziT9HehywMZy7kwEVHsyignQH5MfcdWofoCjBzuX56QnnkrLW oodvdNyGYuZvDetJTyrKei6V1VtwUt74bdKrbjAqEyCJ1T5WH6t
    opW8MQ94tjkezHMsJ2GSbhLkYrcnVQHB5bPpYouWH2GJcBtbV89 oo3TMGKAC67bw47dwtKLfPiNtYP9MPAnnuLKbRQNphE1Mtd9ScJ
    opMiDtu78kBSWnLBjJRqgH82gt5TNHejvpDXMhqxZ1K9bVwrETd ooDM5VKmKF5dLYVeqkhdSN7F3eB4vy3SZu3RWFEPzpyzfgrjrha
    opSiekJZ9T7ZErqxANG8dahR79xyXV1f4ikkunv6SaPcHqN2jrt opQHcRjqtJcBaqSUTtV5f1rtbwZNy3K8nypSwcVYHG5EyG6ifQD
    opHTzUG8nymqCxCh626JBbu8ihdHvapNBGVk4xchYFzMQJDJUq3 opGrWMeR2brmv8ufXvXDw9sUX2nXRSDGYYwciPcRHHRiQvdDavp
    opDxagryp2fbytCz9zDPKXT9XSy19CZopK8wGsGXvE3Fftf2UiU oopYPg1PMyRi9ruAH2z1gcxDfMYNLbkSH1F2wb42zF4pMiJpeue
    ooTcfv286MjhBEUTHMtRUxQSdtaJ8jMmKqKCX8FVS14KhgShqXu ooHZMczKqhMUdgtwSc1xLgN2tQwmhQD3KNVfCdCRuavFJ8Fdmw3
    ooEqSoXmyuiXLExrs2yGKaokcP2H6353tyP3KmHdhavuDDnTqbB ooBWF9QmkBowBW84UwThBZ2LGWu9p6Yerfh6takdnUpFP7AqYrU
    oo8tq9D4Wg6zmL6E9UhhbBVgT13mpJSpf4gwVYVSbYHbV1uRy8N oo7ZrkX9ZJcYWC4NisVXHgbKK6ov1aXbQHHfLata27jWrdfJXFX
    onzq9eUPiXq35uXch5sa7T1dWaT1iZWjYiNePYVcsJS4WMQBo2h onuqm2tjCZWqthQBEi4Y1cVtLwYAr4YaJLU2aYLTcpNjnUgtLYg
    onumF5NSwJSFpp2zVyQKq6BWCwmfYnpLWzQEJjLb8bnSqETxwPQ onrnSo4UCu7KC93tmfWYeHvmr6xjAYWdUysxDuxd1CwT5bCg9Xg
    '''.split(),
    [],
    [],
    '''
    ooUkXSA4JEBGj3vq8KdoaLXKrGXRDyJuQNjVVacLUMqWMGEzgoD onrERtizR9K9BZo5E3XdsJsXTragYfYaLBmMgZ3HrkaU2WpCts5
    onpxSxRpTygyLqrAA62PBzZKT14vnsb9GfUY19sNJ5PjruQMzJQ op7fZ26fv6bfPPNh51m4vuDJZqsCAh91bJ26huPmZdMugr7dynF
    ooZmDSaT8JGLdRNGJqdvE8FC37w4hHQmRD1U4ZbZaZ3hP7j522s ooA3srdnj1rsmQogHVyVKu6j2LaWb5dotCcaLW6vvMNLcZ8f88x
    oovnjhrHMeMBpkvTHxSNvapV7iQ6hFsSSL6LzmwkHCXatWNFF1q opDXgb3ZCM7eH4zkByLbQc3Y3HA7tqgbec2C9sEbjki4dWSkfW3
    opaBjse3Y3DzCKUS5bJGDs54HMBtvsKS6DEePWX2mU5keVy8YJk oobZRdMm1Ps42zmJRE5h4jaXoEiySrUgExSKe5VZT27w26EY5Zd
    ooXuUPBCVwgws7ETBxzYUMjKq3JMamKiiUkoDUHNPmntjzfkwKp opBawsSsFxMhR46whEhfNX558vCW4CWc5AddCuNtcyGd8dk9h6F
    ood6iz7LVikCx3T6rMviLSNz6oJUxbNGJKFVbHGqiBLN7r87zs8 onq7Fe3NABrTkb2PZKBvrAefu5J6TxfhJNDCzAGpXc59bCKcEvB
    ooHggHarwD3kzuPzt3WWV4PaPjbzh18egp4NR3fJTYYt3vpiw5e op4bzVsUnWzsfR3tf7gwETmReqFjPwSbWrAtcJv7z6VaFQadax3
    opWc6Zop56wKAqxRR1phvDYqCRQJyZiF9agWnKJ4QsE2cVxjFNe oopugtVGMbreEiikGdUrBSkkbdPPuEANorEs89iptxPKiBq8SnV
    onksk5ESiNVvrvbXc6xPJhtRKbnXsNJRzteW73cJv7nMCG4kezX opWQr3ZpadegC5SUfUw8A8W4p3bQUSX4DS6mygY7FzG9xH5QDgT
    ooWbP6PQp1FreE3ikDfTvL9zXVA23A1BKT91RJYYkBEF9nHuYoQ onkWcVNEprcxu4dfXJvrPvWPixnTjXkErGA32XnonNVEriskXNC
    '''.split(),
]
CHAIN_PAYLOADS = [
    ('BL1whyhJA8fUF2ziNZj1MnHFQNLD6QTZTTHiG1oL8LSFwdJQ43z', 0, ['ooa2pnEHguRveoV8WMYswpuSkyvxKTA9hyHDAsVgc9qnXtcDxd7'], 'vh29w4KZGVb3A9QyjzDetftoWiCfvRugwAiaQ5Z3FFScy7QzjmH9'),
    ('BLLiiqQeQ1N35S6VXeNcsyQPphoM17ZCXm9M6ek3xPYXj1tX2pE', 0, [], 'vh3XZvx7wgTBp92mUVJ9jBNC1NQ79d6DBJm9pappux3exakXJaUU'),
]


def toy_hash(data):
    """same function as `toyHash` in lean/Driver/C31.lean"""
    h = 0xcbf29ce484222325
    for b in data:
        h = ((h ^ b) * 0x100000001b3) & MASK
    out = b''
    for i in range(1, 5):
        h = ((h ^ (h >> 29) ^ i) * 0x9E3779B97F4A7C15) & MASK
        out += h.to_bytes(8, 'big')
    return out


class _ToyBlake2b:
    def __init__(self, data=b'', digest_size=64, **kw):
        assert digest_size == 32 and not kw, 'toy hash stands for blake2b(digest_size=32) only'
        self._data = bytes(data)

    def digest(self):
        return toy_hash(self._data)


def b58(kind, raw):
    import base58
    return base58.b58encode_check(PFX[kind] + raw).decode()


def unb58(kind, s):
    import base58
    raw = base58.b58decode_check(s)
    assert raw[:len(PFX[kind])] == PFX[kind], f'result does not carry the {kind} prefix: {s}'
    return raw[len(PFX[kind]):]


# ---- independent reference (the property's own statement) -----------------------------------------------------------
def _h(b):
    return hashlib.blake2b(b, digest_size=32).digest()


def ref_root(leaves):
    """root of the perfect binary tree over `leaves` (a power of two of them)"""
    if len(leaves) == 1:
        return leaves[0]
    half = len(leaves) // 2
    return _h(ref_root(leaves[:half]) + ref_root(leaves[half:]))


def ref_merkle(items):
    if not items:
        return _h(b'')
    leaves = [_h(x) for x in items]
    size = 1
    while size < len(leaves):
        size *= 2
    return ref_root(leaves + [leaves[-1]] * (size - len(leaves)))


def ref_op_list(ops):
    return b58('Lo', ref_merkle(ops))


def ref_op_list_list(opss):
    return b58('LLo', ref_merkle([ref_merkle(ops) for ops in opss]))


def ref_payload(pred, rnd, ops):
    if not 0 <= rnd < 2 ** 32:
        return 'error'
    return b58('vh', _h(pred + rnd.to_bytes(4, 'big') + ref_merkle(ops)))


# ---- the real code ----------------------------------------------------------------------------------------------------
def call_impl(case):
    """run one case through the public API; result string or 'error' (OverflowError/ValueError from to_bytes)"""
    from pytezos.crypto import hash as ph
    kind = case[0]
    try:
        if kind == 'L':
            return ph.operation_list_hash([b58('o', x) for x in case[1]])
        if kind == 'LL':
            return ph.operation_list_list_hash([[b58('o', x) for x in g] for g in case[1]])
        return ph.block_payload_hash(b58('B', case[1]), case[2], [b58('o', x) for x in case[3]])
    except (OverflowError, ValueError):
        return 'error'
    except Exception as e:  # noqa: BLE001 — anything else escaping from the code under test is an outcome, not a harness failure
        return f'raised {type(e).__name__}'


def ref_impl(case):
    kind = case[0]
    if kind == 'L':
        return ref_op_list(case[1])
    if kind == 'LL':
        return ref_op_list_list(case[1])
    return ref_payload(case[1], case[2], case[3])


def strs_of(case):
    """the arguments of the public call, as the strings pytezos is given"""
    kind = case[0]
    if kind == 'L':
        return ('L', [b58('o', x) for x in case[1]])
    if kind == 'LL':
        return ('LL', [[b58('o', x) for x in g] for g in case[1]])
    return ('P', b58('B', case[1]), case[2], [b58('o', x) for x in case[3]])


def call_strs(sc):
    """one public call on strings -> 'ok <text>' | 'err ValueError' | 'err OverflowError'"""
    from pytezos.crypto import hash as ph
    try:
        if sc[0] == 'L':
            return 'ok ' + ph.operation_list_hash(sc[1])
        if sc[0] == 'LL':
            return 'ok ' + ph.operation_list_list_hash(sc[1])
        return 'ok ' + ph.block_payload_hash(sc[1], sc[2], sc[3])
    except OverflowError:
        return 'err OverflowError'
    except ValueError:
        return 'err ValueError'


def to_real_line(sc):
    hx = lambda t: t.encode('latin1').hex() if t else '-'
    if sc[0] == 'L':
        return ' '.join(['RL'] + [hx(x) for x in sc[1]])
    if sc[0] == 'LL':
        toks = ['RLL', str(len(sc[1]))]
        for g in sc[1]:
            toks.append(str(len(g)))
            toks += [hx(x) for x in g]
        return ' '.join(toks)
    return ' '.join(['RP', hx(sc[1]), str(sc[2])] + [hx(x) for x in sc[3]])


def model_text(out):
    """driver output `ok <hex of text>` -> `ok <text>`"""
    if out.startswith('ok '):
        return 'ok ' + bytes.fromhex(out[3:]).decode('latin1')
    return out


def to_line(case):
    hx = lambda b: b.hex() if b else '-'
    kind = case[0]
    if kind == 'L':
        return ' '.join(['L'] + [hx(x) for x in case[1]])
    if kind == 'LL':
        toks = ['LL', str(len(case[1]))]
        for g in case[1]:
            toks.append(str(len(g)))
            toks += [hx(x) for x in g]
        return ' '.join(toks)
    return ' '.join(['P', hx(case[1]), str(case[2])] + [hx(x) for x in case[3]])


def describe(case, full=False):
    """`full` = with the item values (replays); otherwise a digest of them (evidence samples stay small)"""
    def its(xs):
        return [x.hex() for x in xs] if full else hashlib.sha1(b''.join(xs)).hexdigest()[:16]
    kind = case[0]
    if kind == 'L':
        return {'fn': 'operation_list_hash', 'n': len(case[1]), 'items': its(case[1])}
    if kind == 'LL':
        return {'fn': 'operation_list_list_hash', 'shape': [len(g) for g in case[1]], 'items': [its(g) for g in case[1]]}
    return {'fn': 'block_payload_hash', 'predecessor': case[1].hex(), 'round': case[2], 'n': len(case[3]), 'items': its(case[3])}


def shrink(case):
    """smallest item count (same leaf values, taken from the front) for which the real code still disagrees with
    the reference"""
    def bad(c):
        try:
            return call_impl(c) != ref_impl(c)
        except Exception:
            return True
    if case[0] == 'L':
        for n in range(len(case[1]) + 1):
            c = ('L', case[1][:n])
            if bad(c):
                return c
    elif case[0] == 'P':
        for n in range(len(case[3]) + 1):
            c = ('P', case[1], case[2], case[3][:n])
            if bad(c):
                return c
    else:
        for g in case[1]:
            for n in range(len(g) + 1):
                c = ('LL', [g[:n]])
                if bad(c):
                    return c
    return case


def run(ctx):
    ctx.prepare_lean(extract.generate(PROP))
    rng = ctx.rng
    quick = ctx.tier == 'quick'
    ctx.extra['rule'] = ('operation_list_hash: every length 0..300 with fresh random 32-byte items (thorough: three passes, one with '
                         'repeated items, plus lengths up to 1100 around powers of two); operation_list_list_hash: random shapes incl. empty '
                         'groups; block_payload_hash: random predecessor, rounds incl. 0, 2^32-1, 2^32 and -1 (OverflowError). '
                         'Every case runs three ways: real code vs independent reference (oracle), real code with a toy hash vs the raw Lean '
                         'mirror, unpatched real code vs the end-to-end Lean model with the Lean BLAKE2b/SHA-256 (full text compared). '
                         'String-level extras (end-to-end stream only): a corrupted item, items of another kind (block hash, tz1 address = '
                         '20-byte leaf), a corrupted predecessor, negative round with a bad predecessor. '
                         'Lists with repeated items (all-equal, adjacent and distant repeats, repeated inner lists) in both tiers. History stream: a rejected call (malformed item at a random index, bad round) followed by ordinary calls in the same process. '
                         'non-trivial = at least 3 items somewhere (padding and/or the odd-count copy step are exercised)')
    ctx.assumptions += [
        'BLAKE2b-256 is abstract in the general theorems (arbitrary H); the `…_concrete` corollaries and the end-to-end stream use the '
        'executable Lean BLAKE2b / SHA-256 (Core/Hash*.lean: tied to hashlib by that stream and to recorded chain hashes by kernel-evaluated '
        'examples, nothing is proved about the hash functions beyond the digest length); the toy-hash stream substitutes a toy hash for '
        'blake2b inside pytezos.crypto.hash, the oracle run uses hashlib.blake2b against an independent recursive implementation',
        'base58 encode/decode of the items and results is the C09 mirror (Impl.Encoding), used here per row (o, B, Lo, LLo, vh)',
    ]

    # reference self-check against recorded chain data
    chain_ok = ref_op_list_list([[unb58('o', x) for x in g] for g in CHAIN_OPS]) == CHAIN_LLO
    for pred, rnd, ops, want in CHAIN_PAYLOADS:
        chain_ok = chain_ok and ref_payload(unb58('B', pred), rnd, [unb58('o', x) for x in ops]) == want
    ctx.obligation('reference-implementation reproduces recorded chain hashes', chain_ok,
                   'mainnet block 2223648 operations hash; ithacanet 288671 / 10000 payload hashes')

    def items(n, dup=False):
        if dup and n:
            pool = [rng.bytes_(32) for _ in range(max(1, n // 3))]
            return [rng.choice(pool) for _ in range(n)]
        return [rng.bytes_(32) for _ in range(n)]

    cases = []
    for n in range(0, 301):
        cases.append(('L', items(n)))
    # lists with repeated operation hashes (a block may not contain one twice, the functions are defined on any list): adjacent
    # and distant repeats, all-equal lists, repeated inner lists
    h0 = rng.bytes_(32)
    for n in list(range(1, 10)) + [16, 17]:
        cases.append(('L', [h0] * n))
    for n in (list(range(2, 41)) + [64, 65, 128]) if quick else []:
        cases.append(('L', items(n, dup=True)))
    g0 = items(3)
    cases += [('LL', [[h0, h0], [h0], [h0, h0]]), ('LL', [g0, g0]), ('LL', [g0, [], g0, g0]), ('LL', [items(5, dup=True), items(4, dup=True)]),
              ('P', rng.bytes_(32), 0, [h0, h0]), ('P', rng.bytes_(32), 7, items(6, dup=True)), ('P', h0, 1, [h0, h0, h0])]
    # long lists (a block can carry thousands of operations): lengths beyond any small-list special path, not powers of two
    for n in ((1025, 1026, 1500, 2049, 3000) if quick else (1025, 1026, 1027, 1500, 2047, 2049, 3000, 4097, 5000, 10000)):
        cases.append(('L', items(n)))
    cases.append(('P', rng.bytes_(32), 3, items(1026)))
    cases.append(('LL', [items(1030), items(2), items(1500)]))
    if not quick:
        for n in range(0, 301):
            cases.append(('L', items(n, dup=True)))
        for n in range(0, 301):
            cases.append(('L', items(n)))
        for n in (511, 512, 513, 767, 1023, 1024, 1025, 1100):
            cases.append(('L', items(n)))
    for _ in range(60 if quick else 600):
        g = rng.randrange(0, 7)
        cases.append(('LL', [items(rng.choice([0, 0, 1, 2, 3, 4, 5, 6, 7, 8, 9, 15, 16, 17, rng.randrange(0, 40)])) for _ in range(g)]))
    cases.append(('LL', [[unb58('o', x) for x in g] for g in CHAIN_OPS]))
    rounds = [0, 1, 255, 256, 65536, 2 ** 31, 2 ** 32 - 1, 2 ** 32, -1]
    for i in range(60 if quick else 600):
        rnd = rounds[i % len(rounds)] if i < 3 * len(rounds) else rng.randrange(0, 2 ** 32)
        cases.append(('P', rng.bytes_(32), rnd, items(rng.choice([0, 1, 2, 3, 4, 5, 7, 8, 9, rng.randrange(0, 70)]))))
    for pred, rnd, ops, _ in CHAIN_PAYLOADS:
        cases.append(('P', unb58('B', pred), rnd, [unb58('o', x) for x in ops]))

    # string-level extras for the end-to-end stream (exceptions of base58_decode, leaves that are not operation hashes)
    import base58
    good = [b58('o', rng.bytes_(32)) for _ in range(5)]
    bad_item = good[1][:-1] + ('1' if good[1][-1] != '1' else '2')
    other_kind = b58('B', rng.bytes_(32))
    short_leaf = base58.b58encode_check(bytes([6, 161, 159]) + rng.bytes_(20)).decode()
    pred = b58('B', rng.bytes_(32))
    extras = [
        ('L', [good[0], bad_item, good[2]]), ('L', [bad_item]), ('L', [good[0], 'not base58 0OIl']), ('L', [good[0], '']),
        ('L', [other_kind]), ('L', [good[0], other_kind, good[2]]), ('L', [short_leaf, good[0], short_leaf]),
        ('L', [good[0] + ' ']), ('L', [good[0], good[0][:-1]]),
        ('LL', [[good[0]], [bad_item], [good[1]]]), ('LL', [[good[0], other_kind], [], [short_leaf]]),
        ('P', pred[:-1] + ('1' if pred[-1] != '1' else '2'), 0, good[:2]), ('P', pred, 1, [bad_item]), ('P', good[0], 3, good[:3]),
        ('P', short_leaf, 2 ** 32, []), ('P', 'x', -1, []), ('P', pred, 2 ** 32, [bad_item]), ('P', pred, -1, [bad_item]),
    ]
    # which cases also go through the end-to-end model (Lean BLAKE2b + SHA-256 cost about 0.3 ms per item even compiled):
    # thorough = all; quick = every list-of-lists / payload case, every list length up to 64, the lengths around 128 and 256
    # and a random sample of the other lengths (the oracle and the toy-hash stream always see every case)
    if quick:
        big = [i for i, c in enumerate(cases) if c[0] == 'L' and len(c[1]) > 64]
        keep = set(rng.sample(big, 12)) | {i for i in big if len(cases[i][1]) in (127, 128, 129, 255, 256, 257, 300, 1026)}
        e2e = [i for i, c in enumerate(cases) if c[0] != 'L' or len(c[1]) <= 64 or i in keep]
    else:
        e2e = list(range(len(cases)))
    str_cases = [strs_of(cases[i]) for i in e2e] + extras
    toy_lines = [to_line(c) for c in cases]
    out = ctx.model(toy_lines + [to_real_line(sc) for sc in str_cases])
    model = out[:len(toy_lines)] if out is not None else None
    model_real = dict(zip(e2e, [model_text(o) for o in out[len(toy_lines):]])) if out is not None else None
    ctx.extra['end_to_end_cases'] = len(str_cases)
    for i, sc in enumerate(extras):
        got = call_strs(sc)
        d = {'fn': {'L': 'operation_list_hash', 'LL': 'operation_list_list_hash', 'P': 'block_payload_hash'}[sc[0]], 'strings': list(sc[1:])}
        ctx.case(d, nontrivial=False)
        ctx.count('string-level-outcome', got.split(' ')[0] + ('' if got.startswith('ok') else ':' + got[4:]))
        m = model_text(out[len(toy_lines) + len(e2e) + i]) if out is not None else None
        if m is not None and got != m:
            ctx.mismatch('end-to-end-strings', d, got, m)

    # stream 1: toy hash inside the real control flow
    from pytezos.crypto import hash as ph
    toy_out = []
    real_blake = ph.blake2b
    ph.blake2b = _ToyBlake2b
    try:
        for c in cases:
            r = call_impl(c)
            toy_out.append(r if r == 'error' or r.startswith('raised ') else unb58({'L': 'Lo', 'LL': 'LLo', 'P': 'vh'}[c[0]], r).hex())
    finally:
        ph.blake2b = real_blake

    reported = set()
    for idx, c in enumerate(cases):
        sizes = [len(c[1])] if c[0] == 'L' else ([len(g) for g in c[1]] if c[0] == 'LL' else [len(c[3])])
        d = describe(c)
        ctx.case(d, nontrivial=max(sizes + [0]) >= 3)
        ctx.count('function', d['fn'])
        for s in sizes:
            ctx.count('items', s if s <= 9 else ('10-16' if s <= 16 else '17-64' if s <= 64 else '65-300' if s <= 300 else '>300'))
        # stream 2: real BLAKE2b against the independent reference
        got, want = call_impl(c), ref_impl(c)
        if got != want:
            m = shrink(c)
            md = describe(m, full=True)
            n_min = md.get('n', md.get('shape'))
            key = f"{md['fn']} n={n_min}"
            if key not in reported:
                reported.add(key)
                ctx.violation(key, f"{md['fn']} with {n_min} item(s): got {call_impl(m)}, Merkle root is {ref_impl(m)}",
                              {'case': md, 'got': call_impl(m), 'expected': ref_impl(m)})
        if model is not None and toy_out[idx] != model[idx]:
            dd = dict(d)
            dd.pop('items', None)
            ctx.mismatch('toy-hash-tree', dd, toy_out[idx], model[idx])
        # stream 3: the same call, unpatched, against the end-to-end Lean model (Lean BLAKE2b + SHA-256): full text
        got_text = 'err OverflowError' if got == 'error' else 'ok ' + got
        if model_real is not None and idx in model_real and got_text != model_real[idx]:
            dd = dict(d)
            dd.pop('items', None)
            ctx.mismatch('end-to-end-text', dd, got_text, model_real[idx])

    # stream 4: call history — a call that is REJECTED (malformed item at a random position, bad predecessor, round out of range)
    # and then, in the same process, ordinary calls: a rejected call leaves nothing behind
    n_hist = 150 if quick else 3000
    bad_after = None
    for k in range(n_hist):
        n_good = rng.choice([1, 1, 2, 3, 5, 8])
        goods = [b58('o', rng.bytes_(32)) for _ in range(n_good)]
        pos = rng.randrange(0, n_good + 1)
        kind_bad = rng.choice(['checksum', 'other-kind', 'not-base58', 'not-str', 'truncated'])
        bad = {'checksum': bad_item, 'other-kind': other_kind, 'not-base58': 'not base58 0OIl', 'not-str': None, 'truncated': good[0][:-1]}[kind_bad]
        lst = goods[:pos] + [bad] + goods[pos:]
        fn = rng.choice(['L', 'L', 'LL', 'P', 'P-round'])
        try:
            if fn == 'L':
                ph.operation_list_hash(lst)
            elif fn == 'LL':
                ph.operation_list_list_hash([goods, lst, goods[:1]][:rng.choice([2, 3])])
            elif fn == 'P':
                ph.block_payload_hash(pred, rng.randrange(0, 100), lst)
            else:
                ph.block_payload_hash(pred, rng.choice([-1, 2 ** 32]), goods)
            rejected = False
        except Exception:      # noqa: BLE001 — any rejection will do
            rejected = True
        ctx.count('history-rejected-call', f'{fn}:{kind_bad if fn != "P-round" else "round"}@{"first" if pos == 0 else "later"}:{"raised" if rejected else "accepted"}')
        follow = [rng.choice([('L', items(rng.choice([0, 0, 1, 2, 3, 4, 7]))), ('LL', [items(rng.choice([0, 1, 2, 3])) for _ in range(rng.randrange(0, 3))]),
                              ('P', rng.bytes_(32), rng.randrange(0, 1000), items(rng.choice([0, 1, 2, 5])))]) for _ in range(2)]
        for j, c in enumerate(follow):
            ctx.case({'history': f'after a rejected {fn} call ({kind_bad} at {pos})', 'then': describe(c), 'step': j}, nontrivial=True)
            got, want = call_impl(c), ref_impl(c)
            if got != want and bad_after is None:
                bad_after = (fn, kind_bad, pos, n_good, j, c, got, want)
    if bad_after is not None:
        fn, kind_bad, pos, n_good, j, c, got, want = bad_after
        md = describe(c, full=True)
        ctx.violation(f"after-rejected-call: {md['fn']}",
                      f"call #{j + 1} after a rejected {'operation_list_hash' if fn == 'L' else 'operation_list_list_hash' if fn == 'LL' else 'block_payload_hash'} "
                      f"call ({kind_bad} item at index {pos} of {n_good + 1}): {md['fn']} with {md.get('n', md.get('shape'))} item(s) returns {got}, Merkle root is {want} ",
                      {'rejected_call': {'fn': fn, 'bad_item': kind_bad, 'index': pos, 'good_items': n_good}, 'then': md, 'got': got, 'expected': want})
