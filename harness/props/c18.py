"""C18 — Michelson text formatting and parsing are inverse.

Real `micheline_to_michelson` / `michelson_to_micheline` against the Lean mirror (`Impl.Text.format`,
`Impl.Text.parseText`), plus the property oracle `parse(format(e)) == e` on the real code.

Streams compared with the model:
  format   exact text of `micheline_to_michelson(e, inline)` vs `Impl.Text.format inline e`   (both layouts)
  parse    `michelson_to_micheline(text)` vs `Impl.Text.parseText text` on: every formatted text whose round trip is
           not already implied (see `run`), re-spaced / commented / mutated token streams, hand-written edge texts
  domain   the oracle's own domain predicate (Tezos notion of a printable expression) implies the theorem's `wfText`;
           and wherever `wfText` holds the real code does round-trip (the theorem's claim, sampled on the real code)
  tables   every generated table re-read through the imported modules
"""
import json
import os
import re

from harness import mich
from translator import extract

PROP = 'C18'

# ---------------------------------------------------------------------------------------------------------
# the oracle's own statement of the domain (independent of the Lean `wfText`): Tezos identifiers / annotations
PRIM_RE = re.compile(r'[A-Za-z][A-Za-z0-9_]+\Z')
# Michelson reference: @%|@%%|%@|[@:%][_0-9a-zA-Z][_0-9a-zA-Z\.%@]*  (and the bare markers @ : %)
ANNOT_RE = re.compile(r'(@%|@%%|%@|[@:%]|[@:%][_0-9a-zA-Z][_0-9a-zA-Z.%@]*)\Z')
SECTIONS = ('parameter', 'storage', 'code')

_state = {}


def real():
    if 'fmt' not in _state:
        from pytezos.michelson.format import micheline_to_michelson
        from pytezos.michelson.parse import MichelsonParser, michelson_to_micheline
        from pytezos.michelson.tags import prim_tags
        import logging
        logging.getLogger('pytezos').setLevel(logging.CRITICAL)
        _state['fmt'] = micheline_to_michelson
        _state['parser'] = MichelsonParser()
        _state['m2m'] = michelson_to_micheline
        _state['prims'] = list(prim_tags)
    return _state


def in_domain(e, prims, root=True):
    if isinstance(e, list):
        if root and len(e) == 1 and isinstance(e[0], dict) and e[0].get('prim') in SECTIONS:
            return False      # a one-section "script": not code, a type or data
        return all(in_domain(x, prims, False) for x in e)
    if 'prim' in e:
        if e['prim'] not in prims or not PRIM_RE.match(e['prim']):
            return False
        if not all(ANNOT_RE.match(a) for a in e.get('annots', [])):
            return False
        return all(in_domain(x, prims, False) for x in e.get('args', []))
    if 'bytes' in e:
        return len(e['bytes']) % 2 == 0
    return True


def real_format(e, inline):
    try:
        return real()['fmt'](e, inline=inline)
    except Exception:  # noqa
        return None


def real_parse(text):
    """-> ('ok', normalised micheline) | ('none',) | ('error',) | ('skip',)"""
    st = real()
    st['calls'] = st.get('calls', 0) + 1
    try:
        # one call in six goes through the documented default entry point `michelson_to_micheline(text)` (which builds its own
        # parser) instead of the harness's long-lived parser object: both must give the same expression, whatever was parsed before
        r = st['m2m'](text) if (st['calls'] % 6 == 0 or ('"' in text and len(text) < 400)) else st['m2m'](text, st['parser'])
    except RecursionError:
        return ('skip',)
    except Exception:  # noqa   MichelsonParserError, JSONDecodeError, AttributeError at EOF, …
        return ('error',)
    if r is None:
        return ('none',)
    try:
        n = mich.normalize(r)
        line = mich.to_line(n)
        if any(t[0] == 'B' and len(t) % 2 == 0 and t != 'B-' for t in line.split(' ')):
            return ('skip',)       # odd number of hex digits: not a byte string
        return ('ok', n)
    except Exception:  # noqa   lone surrogates etc.: not representable on the protocol
        return ('skip',)


def show(res):
    return 'ok ' + mich.to_line(res[1]) if res[0] == 'ok' else res[0]


# ---------------------------------------------------------------------------------------------------------
# generators
TYPES0 = ['unit', 'int', 'nat', 'string', 'bytes', 'mutez', 'bool', 'key', 'key_hash', 'signature', 'timestamp', 'address',
          'operation', 'chain_id', 'never', 'bls12_381_g1', 'bls12_381_g2', 'bls12_381_fr', 'chest', 'chest_key',
          'tx_rollup_l2_address']
TYPES1 = ['option', 'list', 'set', 'contract', 'ticket']
TYPES2 = ['pair', 'or', 'map', 'big_map', 'lambda']
INSTR0 = ['DROP', 'DUP', 'SWAP', 'CAR', 'CDR', 'ADD', 'SUB', 'MUL', 'UNIT', 'PAIR', 'UNPAIR', 'COMPARE', 'EQ', 'FAILWITH', 'NOW',
          'SOME', 'CONS', 'SENDER', 'AMOUNT', 'SELF', 'NEVER', 'TICKET', 'OPEN_CHEST', 'MIN_BLOCK_TIME', 'BYTES', 'NAT']
ANNOT_HEADS = '@:%'
ANNOT_BODY = 'abcxyzAZ_019'
ANNOT_INNER = ANNOT_BODY + '..@%'


def gen_annot(rng):
    k = rng.random()
    if k < 0.05:
        return rng.choice(['@%', '@%%', '%@', '%', '@', ':'])
    n = rng.choice([1, 1, 2, 3, 5, 9])
    body = rng.choice(ANNOT_BODY) + ''.join(rng.choice(ANNOT_INNER if rng.random() < 0.35 else ANNOT_BODY) for _ in range(n - 1))
    if k < 0.08:
        body = rng.choice(['.a', 'a:b', 'a b', 'é', '']) + body     # outside the Tezos grammar: format stream only
    return rng.choice(ANNOT_HEADS) + body


def gen_annots(rng, p=0.3):
    if rng.random() >= p:
        return []
    return [gen_annot(rng) for _ in range(rng.choice([1, 1, 1, 2, 3]))]


STR_ALPHABET = [chr(c) for c in range(32, 127)]
STR_SPECIAL = ['"', '\\', '\n', '\t', '\r', '\b', '\f', '\x00', '\x1f', '\x7f', 'é', 'ß', '→', ' ', '￿', '𝄞', '\U0010ffff', '/', ' ']


_LAST_STRING = ['']


def gen_string(rng):
    s = _gen_string(rng)
    if rng.random() < 0.12 and ' ' in _LAST_STRING[0]:
        # the previous string with one run of blanks stretched or squeezed: same tokens, different data
        prev = _LAST_STRING[0]
        i = prev.index(' ')
        s = prev[:i] + rng.choice(['  ', '   ', ' \t']) + prev[i + 1:] if rng.random() < 0.7 else prev.replace('  ', ' ')
    _LAST_STRING[0] = s
    return s


def _gen_string(rng):
    k = rng.random()
    if k < 0.1:
        return ''
    if k < 0.16:
        return ' '.join(''.join(rng.choice('abcXYZ019') for _ in range(rng.randrange(0, 4))) for _ in range(rng.randrange(2, 5)))
    n = rng.choice([1, 2, 3, 5, 8, 13, 40, 120]) if rng.random() < 0.9 else rng.randrange(1, 300)
    if k < 0.55:
        return ''.join(rng.choice(STR_ALPHABET) for _ in range(n))
    return ''.join(rng.choice(STR_SPECIAL) if rng.random() < 0.4 else rng.choice(STR_ALPHABET) for _ in range(n))


def gen_int(rng):
    return {'int': str(rng.big_int(rng.choice([8, 64, 256, 600])))}


def gen_bytes(rng):
    n = rng.choice([0, 0, 1, 2, 4, 20, 32, 70])
    return {'bytes': rng.bytes_(n).hex()}


def node(prim, args=(), annots=()):
    d = {'prim': prim}
    if args:
        d['args'] = list(args)
    if annots:
        d['annots'] = list(annots)
    return d


def gen_type(rng, depth):
    k = rng.random()
    if depth <= 0 or k < 0.4:
        return node(rng.choice(TYPES0), (), gen_annots(rng, 0.45))
    if k < 0.6:
        p = rng.choice(TYPES1 + ['sapling_state', 'sapling_transaction'])
        if p.startswith('sapling'):
            return node(p, [{'int': str(rng.randrange(0, 70000))}], gen_annots(rng))
        return node(p, [gen_type(rng, depth - 1)], gen_annots(rng))
    p = rng.choice(TYPES2)
    n = rng.choice([2, 2, 2, 3, 4, 6]) if p == 'pair' else 2
    return node(p, [gen_type(rng, depth - 1) for _ in range(n)], gen_annots(rng))


def gen_data(rng, depth):
    k = rng.random()
    if depth <= 0 or k < 0.35:
        c = rng.randrange(6)
        if c == 0:
            return gen_int(rng)
        if c == 1:
            return {'string': gen_string(rng)}
        if c == 2:
            return gen_bytes(rng)
        return node(rng.choice(['Unit', 'True', 'False', 'None']), (), gen_annots(rng, 0.05))
    if k < 0.5:
        return node('Pair', [gen_data(rng, depth - 1) for _ in range(rng.choice([2, 2, 3, 4, 5]))], gen_annots(rng, 0.05))
    if k < 0.62:
        return node(rng.choice(['Left', 'Right', 'Some']), [gen_data(rng, depth - 1)], gen_annots(rng, 0.05))
    if k < 0.72:
        return [node('Elt', [gen_data(rng, depth - 1), gen_data(rng, depth - 1)]) for _ in range(rng.choice([0, 1, 2, 3]))]
    if k < 0.84:
        return [gen_data(rng, depth - 1) for _ in range(rng.choice([0, 0, 1, 2, 3, 5]))]
    if k < 0.88:
        return node('Lambda_rec', [gen_code(rng, depth - 1)])
    if k < 0.92:
        return node('Ticket', [{'string': 'KT1'}, gen_type(rng, 0), gen_data(rng, 0), gen_int(rng)])
    if k < 0.95:
        return node('constant', [{'string': gen_string(rng)}])
    return gen_code(rng, depth - 1)


def gen_instr(rng, depth):
    k = rng.random()
    if depth <= 0 or k < 0.3:
        return node(rng.choice(INSTR0), (), gen_annots(rng, 0.2))
    if k < 0.45:
        return node('PUSH', [gen_type(rng, depth - 1), gen_data(rng, depth - 1)], gen_annots(rng, 0.2))
    if k < 0.55:
        p = rng.choice(['IF', 'IF_NONE', 'IF_LEFT', 'IF_CONS'])
        return node(p, [gen_code(rng, depth - 1), gen_code(rng, depth - 1)])
    if k < 0.62:
        p = rng.choice(['LAMBDA', 'LAMBDA_REC'])
        return node(p, [gen_type(rng, depth - 1), gen_type(rng, depth - 1), gen_code(rng, depth - 1)], gen_annots(rng, 0.2))
    if k < 0.7:
        args = [gen_code(rng, depth - 1)]
        if rng.random() < 0.5:
            args.insert(0, {'int': str(rng.randrange(0, 1000))})
        return node('DIP', args)
    if k < 0.78:
        return node(rng.choice(['LOOP', 'LOOP_LEFT', 'ITER', 'MAP']), [gen_code(rng, depth - 1)], gen_annots(rng, 0.1))
    if k < 0.86:
        p = rng.choice(['NIL', 'NONE', 'LEFT', 'RIGHT', 'CONTRACT', 'UNPACK', 'EMPTY_SET', 'CAST', 'SAPLING_EMPTY_STATE'])
        a = [{'int': '8'}] if p == 'SAPLING_EMPTY_STATE' else [gen_type(rng, depth - 1)]
        return node(p, a, gen_annots(rng, 0.3))
    if k < 0.92:
        return node(rng.choice(['EMPTY_MAP', 'EMPTY_BIG_MAP']), [gen_type(rng, depth - 1), gen_type(rng, depth - 1)], gen_annots(rng))
    if k < 0.95:
        return node(rng.choice(['DIG', 'DUG', 'DROP', 'DUP', 'GET', 'UPDATE', 'PAIR', 'UNPAIR']), [{'int': str(rng.randrange(0, 12))}])
    if k < 0.975:
        return node('VIEW', [{'string': gen_string(rng)[:20]}, gen_type(rng, depth - 1)])
    return node('CREATE_CONTRACT', [gen_script(rng, depth - 1)])


def gen_code(rng, depth):
    n = rng.choice([0, 1, 1, 2, 3, 4, 7]) if depth > 0 else rng.choice([0, 1, 2])
    out = []
    for _ in range(n):
        out.append(gen_code(rng, depth - 1) if rng.random() < 0.12 else gen_instr(rng, depth - 1))
    return out


def gen_script(rng, depth):
    secs = [node('parameter', [gen_type(rng, depth)]), node('storage', [gen_type(rng, depth)]), node('code', [gen_code(rng, depth)])]
    if rng.random() < 0.3:
        secs.append(node('view', [{'string': 'v'}, gen_type(rng, 0), gen_type(rng, 0), gen_code(rng, depth - 1)]))
    if rng.random() < 0.15:
        rng.shuffle(secs)
    if rng.random() < 0.1:
        secs = secs[:rng.randrange(0, 3)]
    return secs


def gen_any(rng, depth):
    c = rng.randrange(4)
    return (gen_type, gen_data, gen_instr, gen_code)[c](rng, depth)


def gen_wild(rng, depth, prims):
    """any primitive of prim_tags applied to anything"""
    k = rng.random()
    if depth <= 0 or k < 0.2:
        return gen_any(rng, 0)
    if k < 0.3:
        return [gen_wild(rng, depth - 1, prims) for _ in range(rng.choice([0, 1, 2, 3]))]
    n = rng.choice([0, 1, 1, 2, 2, 3, 4, 5])
    return node(rng.choice(prims), [gen_wild(rng, depth - 1, prims) for _ in range(n)], gen_annots(rng, 0.4))


def gen_tree(rng, prims):
    k = rng.random()
    depth = rng.choice([1, 2, 2, 3, 3, 4, 5])
    if k < 0.18:
        return 'type', gen_type(rng, depth)
    if k < 0.40:
        return 'data', gen_data(rng, depth)
    if k < 0.52:
        return 'instr', gen_instr(rng, depth)
    if k < 0.66:
        return 'code', gen_code(rng, depth)
    if k < 0.74:
        return 'script', gen_script(rng, min(depth, 3))
    return 'wild', gen_wild(rng, min(depth, 4), prims)


def sweep(prims):
    """every primitive of prim_tags, bare / annotated / applied / both, at the root, as an argument and as a sequence item"""
    out = []
    for p in prims:
        for variant in range(4):
            annots = ['%a'] if variant & 1 else []
            args = [{'int': '1'}, [node('DROP')]] if variant & 2 else []
            n = node(p, args, annots)
            out.append(('sweep-root', n))
            out.append(('sweep-arg-type', node('pair', [n, node('nat')])))
            out.append(('sweep-arg-data', node('Pair', [{'int': '0'}, n, {'string': 's'}])))
            out.append(('sweep-arg-push', node('PUSH', [n, n])))
            out.append(('sweep-item', [node('DROP'), n, node('SWAP')]))
            out.append(('sweep-arg-one', node('Some', [n])))
            out.append(('sweep-arg-if', node('IF', [[n], [n]])))
    return out


HAND_TREES = [
    node('pair', [node('chest', (), ['%a']), node('nat')]),
    node('pair', [node('chest_key', (), [':t']), node('nat')]),
    node('option', [node('tx_rollup_l2_address', (), ['%x'])]),
    node('Some', [node('constant', [{'string': 'expruQN5r2umbZVHy6WynYM8f71F8zS4AERz9bugF8UkPBEqrHLuU8'}])]),
    node('Pair', [node('Lambda_rec', [[node('DROP')]]), {'int': '1'}]),
    node('Pair', [node('Ticket', [{'string': 'KT1'}, node('nat'), {'int': '1'}, {'int': '2'}]), {'int': '1'}]),
    node('pair', [node('nat', (), ['%a.b', '@x%y', ':1a']), node('nat')]),
    node('nat', (), ['%a@b']), node('nat', (), ['@%']), node('CAR', (), ['@%%']), node('nat', (), ['%']),
    # texts that differ only in the amount of white space INSIDE a string literal (white space between tokens is layout, inside a
    # string it is data): each is parsed in the same process right after its sibling
    {'string': 'a b'}, {'string': 'a  b'}, {'string': 'a   b'}, {'string': ' a b'}, {'string': 'a b '}, {'string': 'a\tb'}, {'string': 'a \t b'},
    node('Pair', [{'string': 'x y'}, {'int': '1'}]), node('Pair', [{'string': 'x  y'}, {'int': '1'}]), node('Pair', [{'string': 'x y'}, {'int': '1'}]),
    node('PUSH', [node('string'), {'string': 'p  q   r'}]), node('PUSH', [node('string'), {'string': 'p q r'}]),
    {'string': ''}, {'string': '"'}, {'string': '\\'}, {'string': 'a"b\\c\nd\te\x7f\x01é𝄞'}, {'string': '\\"'}, {'string': '\\n'},
    {'int': '0'}, {'int': '-1'}, {'int': '-' + '9' * 80}, {'bytes': ''}, {'bytes': '00ff'},
    [], [[]], [[], [[]]], [[[[]]]], [{'int': '1'}], [[{'int': '1'}]], [{'int': '1'}, {'int': '2'}],
    node('Pair', [{'int': '1'}, {'int': '2'}, {'int': '3'}]), node('Pair', [{'int': str(i)} for i in range(7)]),
    [node('code', [[]])], [node('parameter', [node('unit')])], [node('parameter', [node('unit')]), node('storage', [node('unit')])],
    [node('parameter', [node('unit')]), node('storage', [node('unit')]), node('code', [[node('DROP')]])],
    [node('DROP'), [node('SWAP')]], [[node('DROP')], node('SWAP')], node('IF', [[], []]), node('IF'), node('LAMBDA'),
    node('DIP', [{'int': '2'}, [node('DROP')]]), node('DROP', (), ['@a']),
    node('PUSH', [node('option', [node('nat')]), node('Some', [{'int': '1'}])]),
    node('PUSH', [node('string'), {'string': 'x' * 120}]), node('Pair', [{'string': 'y' * 60}, {'string': 'z' * 60}, {'int': '1'}]),
    node('IF_LEFT', [[node('PUSH', [node('string'), {'string': 'q' * 70}])], [node('PUSH', [node('string'), {'string': 'w' * 70}])]]),
    node('__CREATE_ACCOUNT__'), node('pair', [node('unit'), node('__CREATE_ACCOUNT__', [{'int': '1'}])]),
]

HAND_TEXTS = [
    '', ';', 'DROP;', 'DROP;;SWAP', '{}', '{;}', '{DROP;}', '(Pair 1 2)', '(Pair 1 2) (Unit)', 'Pair (1) 2', 'Pair (nat) 2', '1', '1;2',
    '"a";0x', '{1;{2;3};4}', '{ {1} }', 'Pair {1} {{2}} {}', 'DROP # c\n; SWAP /* x */', '5x', 'a', '"abc\\"', '"a\\qb"', '-', '- 5',
    'nat %', 'nat %a%b', 'nat %a @b', 'nat %a@b', 'nat %a.b%', '%a', 'nat nat %a', '1 2', '{1 2}', 'Pair 1 (Pair 2 3', 'Pair 1 )',
    '"a\nb"', '"\\/"', '"\x01"', 'pair chest %a nat', 'Some constant "x"', 'Pair Lambda_rec {} 1', '(', ')', '()', '{', '}', '( nat',
    'nat )', '(nat) nat', '{ nat ; }', '{ ; nat }', 'Pair(Pair 1 2)3', 'Pair"a""b"', 'Pair 0x00 0xAB 0xab', 'PUSH nat -0', 'PUSH nat 007',
    'Pair 1a2b 3', '/* a * b */ DROP', '/* a */ DROP', '/**/DROP', '# only a comment', 'DROP # trailing', 'DROP\t\r\n\x0c;SWAP', 'Pair 1-2',
    'Pair -1 -2', '"\\u00e9\\ud834\\udd1e"', '"\\u12"', '"\\uZZZZ"', '"\\u+123"', '"a"b"', '"a" "b"', 'Unit;Unit;Unit', '{Unit;{Unit;Unit};Unit;}',
    '((nat))', '(nat %a)', '( nat )', '(nat', 'parameter unit; storage unit; code {}', 'code {}', 'Elt 1 2 ; Elt 3 4', '0x', '0x0', '0xZZ',
    'nat :a%b@c', 'nat %a:b', 'nat @%%', 'nat %%%a', 'nat %.a', 'DROP @', 'Pair % 1', 'Pair 1 %a',
]


# ---------------------------------------------------------------------------------------------------------
# mutated / re-spaced token streams (parser and lexer correspondence beyond the formatter's own output)
SEPS = [' ', ' ', ' ', '\n', '\t', '  ', ' # c ; } ) "\n', ' /* c ; { */ ', '\r\n', '\x0c']
SOUP = ['{', '}', '(', ')', ';', 'DROP', 'Pair', 'nat', 'PUSH', 'IF', 'Elt', '1', '-2', '0x', '0x1f', '"s"', '""', '%a', '@b', ':c', 'pair', 'Unit']
NEEDS_SEP = re.compile(r'[A-Za-z0-9_.%@:\-]')


def lex_texts(text):
    lx = real()['parser'].lexer.lexer.clone()
    lx.input(text)
    out = []
    while True:
        t = lx.token()
        if t is None:
            break
        if t.type not in ('INT', 'BYTE', 'STR', 'ANNOT', 'PRIM', 'LEFT_CURLY', 'RIGHT_CURLY', 'LEFT_PAREN', 'RIGHT_PAREN', 'SEMI'):
            return None
        out.append(t.value)
    return out


def rejoin(rng, toks):
    s = ''
    for i, t in enumerate(toks):
        if i:
            tight = not (NEEDS_SEP.match(toks[i - 1][-1]) and NEEDS_SEP.match(t[0])) and not (toks[i - 1][0] == '"' and t[0] == '"')
            s += '' if (tight and rng.random() < 0.4) else rng.choice(SEPS)
        s += t
    if rng.random() < 0.2:
        s = rng.choice(SEPS) + s
    if rng.random() < 0.2:
        s += rng.choice(SEPS)
    return s


def mutate(rng, toks):
    toks = list(toks)
    for _ in range(rng.choice([0, 1, 1, 2, 3])):
        k = rng.randrange(4)
        if k == 0 and toks:
            del toks[rng.randrange(len(toks))]
        elif k == 1:
            toks.insert(rng.randrange(len(toks) + 1), rng.choice(SOUP))
        elif k == 2 and toks:
            i = rng.randrange(len(toks))
            toks.insert(i, toks[i])
        elif k == 3 and len(toks) > 1:
            i, j = rng.randrange(len(toks)), rng.randrange(len(toks))
            toks[i], toks[j] = toks[j], toks[i]
    return toks


# ---------------------------------------------------------------------------------------------------------
# shrinking of a failing expression
def roundtrips(e, inline):
    t = real_format(e, inline)
    if t is None:
        return True      # not this property's business
    r = real_parse(t)
    return r[0] == 'ok' and r[1] == mich.normalize(e)


def candidates(e):
    if isinstance(e, list):
        for i in range(len(e)):
            yield e[:i] + e[i + 1:]
        for x in e:
            yield x
        for i, x in enumerate(e):
            for c in candidates(x):
                yield e[:i] + [c] + e[i + 1:]
    elif 'prim' in e:
        args, annots = e.get('args', []), e.get('annots', [])
        for x in args:
            yield x
        for i in range(len(args)):
            yield node(e['prim'], args[:i] + args[i + 1:], annots)
        for i in range(len(annots)):
            yield node(e['prim'], args, annots[:i] + annots[i + 1:])
        for i, a in enumerate(annots):
            if len(a) > 2:
                for j in range(1, len(a)):
                    yield node(e['prim'], args, annots[:i] + [a[:j] + a[j + 1:]] + annots[i + 1:])
        for i, x in enumerate(args):
            for c in candidates(x):
                yield node(e['prim'], args[:i] + [c] + args[i + 1:], annots)
        for i, x in enumerate(args):
            if x not in ({'int': '1'}, node('nat')):
                yield node(e['prim'], args[:i] + [{'int': '1'}] + args[i + 1:], annots)
                yield node(e['prim'], args[:i] + [node('nat')] + args[i + 1:], annots)
    elif 'string' in e:
        s = e['string']
        if s:
            yield {'string': ''}
            for i in range(len(s)):
                yield {'string': s[:i] + s[i + 1:]}
    elif 'int' in e and e['int'] != '1':
        yield {'int': '1'}
    elif 'bytes' in e and e['bytes']:
        yield {'bytes': ''}


def shrink(e, inline, prims, budget=3000):
    size = lambda x: len(mich.to_line(mich.normalize(x)))
    improved = True
    while improved and budget > 0:
        improved = False
        for c in candidates(e):
            budget -= 1
            if budget <= 0:
                break
            if size(c) < size(e) and in_domain(c, prims) and not roundtrips(c, inline):
                e, improved = c, True
                break
    return e


def classify(e, inline):
    """name of the call site / shape that fails, for the known-findings key"""
    text = real_format(e, inline)

    def walk(x, is_arg):
        if isinstance(x, list):
            return any(walk(y, False) for y in x)
        if 'prim' not in x:
            return False
        if any(re.search(r'[_0-9a-zA-Z.][@%]', a) for a in x.get('annots', [])):
            found.add('annotation-with-inner-marker-is-split-by-the-lexer')
        if is_arg and (x.get('args') or x.get('annots')):
            sub = real_format(x, True)
            if sub is not None and text is not None and f'({sub})' not in real_format(e, True):
                found.add('applied-or-annotated-argument-printed-without-parentheses')
        return any(walk(y, True) for y in x.get('args', []))
    found = set()
    walk(e, False)
    if len(found) == 1:
        return found.pop()
    return 'roundtrip:' + (text if text is not None and len(text) < 80 else mich.to_line(mich.normalize(e))[:80])


# ---------------------------------------------------------------------------------------------------------
def eval_chunk(args):
    """worker: trees -> per tree [kind, line, in_domain, (text, roundtrip-ok) for inline in (True, False)]"""
    repo_src, trees = args
    import sys
    if repo_src not in sys.path:
        sys.path.insert(0, repo_src)
    st = real()
    out = []
    for kind, e in trees:
        n = mich.normalize(e)
        dom = in_domain(e, st['prims'])
        per = []
        for inline in (True, False):
            t = real_format(e, inline)
            if t is None:
                per.append((None, None))
                continue
            r = real_parse(t)
            per.append((t, r[0] == 'ok' and r[1] == n))
        out.append((kind, mich.to_line(n), dom, per))
    return out


def hexs(s):
    return s.encode().hex() or '-'


def run(ctx):
    status = extract.generate(PROP)
    ctx.prepare_lean(status)
    st = real()
    prims = st['prims']
    quick = ctx.tier == 'quick'
    ctx.extra['rule'] = (
        'Micheline trees: hand-written edge cases; a sweep of EVERY prim_tags primitive (bare/annotated/applied/both) at the root, as '
        'argument of pair/Pair/PUSH/Some/IF and as a sequence item; random types, data, instructions, code, scripts and "wild" trees '
        '(any primitive applied to anything, annotations incl. inner @ % . and digits, strings over printable ASCII + escapes + '
        'non-ASCII, negative/huge ints, empty bytes, empty and nested sequences); each formatted inline and multi-line. '
        'Texts: re-spaced/commented/mutated token streams and hand-written edge texts. '
        'non-trivial = tree with at least one applied or annotated primitive or a non-empty sequence/escaped string')
    ctx.assumptions += [
        'PLY (ply.lex master regex, ply.yacc LALR tables) is modelled, not verified: Impl.Text.parse is a hand-written recursive-descent '
        'transcription of the grammar productions and actions; the translator checks that the productions/actions in parse.py are '
        'textually the transcribed ones, the correspondence run compares results (trees, None, error) on formatted and mutated texts',
        'the `re` engine: each token regex is classified by the translator into a fixed shape (greedy scanner over extracted '
        'character classes); the STR rule follows the greedy path only (backtracked shorter tokens are always rejected by json.loads)',
        'json.dumps / json.loads (C scanner, strict) are re-implemented in Lean (ensure_ascii escaping, \\uXXXX, surrogate pairs); '
        'lone surrogates are outside `Char` and outside the domain',
        'macro expansion (PRIM outside prim_tags in expr position) is outside the model; {"int": s} is identified with int(s), hex is '
        'case-normalised, absent and empty args/annots are identified (the Mich AST); micheline_to_michelson(wrap=True) is not modelled',
        'format_node is mirrored by hand (Impl.Text.fmtNode) and tied by exact string comparison in both layouts',
    ]

    # ---- tables: generated values re-read through the imported modules --------------------------------------------
    gen_src = open(os.path.join(os.path.dirname(__file__), '..', '..', 'lean', 'PytezosModel', 'Generated', 'C18.lean')).read()
    from pytezos.michelson import format as F
    from pytezos.michelson.parse import SimpleMichelsonLexer
    lx = st['parser'].lexer.lexer
    order = re.findall(r'\(\?P<t_(\w+)>', lx.lexstateretext['INITIAL'][0])
    checks = {
        'primTags': 'def primTags : Option (List String) := some ' + extract.lean_list(map(extract.lean_str, prims)) in gen_src,
        'lineSize': f'def lineSize : Option Nat := some {F.line_size}' in gen_src,
        'lexOrder': 'def lexOrder : Option (List String) := some ' + extract.lean_list(map(extract.lean_str, order)) in gen_src,
        'lexIgnore': 'def lexIgnore : Option (List Nat) := some ' + extract.lean_list(str(ord(c)) for c in lx.lexstateignore['INITIAL']) in gen_src,
        'regexes': all('(%s, %s)' % (extract.lean_str(k), extract.lean_str(getattr(SimpleMichelsonLexer, 't_' + k))) in gen_src for k in order),
    }
    m = re.search(r'def framedRule .*?:=\s*(.*?)\n\n', gen_src, flags=re.S)
    rule = m.group(1) if m else ''
    if rule.startswith('some none'):
        framed = lambda n: bool(n.get('args')) or bool(n.get('annots'))
    elif rule.startswith('some (some'):
        lists = re.findall(r'\[([^\]]*)\]', rule)
        a, b = [set(json.loads('[' + x + ']')) for x in lists[:2]]
        framed = lambda n: True if n['prim'] in a else (bool(n.get('annots')) if n['prim'] in b else False)
    else:
        framed = lambda n: None
    checks['framedRule'] = all(bool(F.is_framed(n)) == framed(n) for p in prims for n in
                               (node(p), node(p, [{'int': '1'}]), node(p, (), ['%a']), node(p, [{'int': '1'}], ['%a'])))
    for k, ok in checks.items():
        ctx.case({'table': k}, nontrivial=False)
        if not ok:
            ctx.mismatch('tables', {'table': k}, 'imported module', 'Generated/C18.lean differs')

    # ---- trees -------------------------------------------------------------------------------------------------
    trees = [('hand', e) for e in HAND_TREES] + sweep(prims)
    n_random = 5000 if quick else 300000
    if os.environ.get('VERIF_C18_N'):
        n_random = int(os.environ['VERIF_C18_N'])
    for _ in range(n_random):
        trees.append(gen_tree(ctx.rng, prims))

    from harness import common
    repo_src = os.path.join(common.REPO, 'src')
    if quick or len(trees) < 20000:
        results = eval_chunk((repo_src, trees))
    else:
        import multiprocessing as mp
        chunks = [trees[i:i + 4000] for i in range(0, len(trees), 4000)]
        with mp.get_context('fork').Pool(min(16, os.cpu_count() or 1)) as pool:
            results = [r for part in pool.map(eval_chunk, [(repo_src, c) for c in chunks]) for r in part]

    lines = []
    for (kind, line, dom, per) in results:
        lines.append('R 1 ' + line)
        lines.append('R 0 ' + line)
    model = model_lines(ctx, lines, quick)

    second = []      # (text, why) — texts whose model parse has to be looked at explicitly
    reported = {}
    claim_fail = 0
    for i, ((kind, e), (_, line, dom, per)) in enumerate(zip(trees, results)):
        nontrivial = len(line.split(' ')) > 3
        for j, inline in enumerate((True, False)):
            text, ok = per[j]
            desc = {'expr': line, 'inline': inline}
            ctx.case(desc, nontrivial=nontrivial)
            ctx.count('kind', kind)
            ctx.count('layout', 'inline' if inline else ('multi-line' if (text or '').count('\n') else 'multi-line (one line)'))
            ctx.count('domain', 'in' if dom else 'out')
            ctx.count('size', min(len(line.split(' ')) // 10 * 10, 200))
            if dom and text is None:
                ctx.violation('formatter-raises', f'{line}: micheline_to_michelson raised', {'expr': e, 'inline': inline})
            elif dom and not ok:
                key_e = shrink(e, inline, prims) if len(reported) < 12 else e
                key = classify(key_e, inline)
                if key not in reported:
                    reported[key] = 1
                    t2 = real_format(key_e, inline)
                    got = show(real_parse(t2))
                    ctx.violation(key, f'{json.dumps(key_e)} prints as {t2!r} which reads back as {got[:200]}',
                                  {'expr': key_e, 'inline': inline, 'text': t2, 'parsed_back': got,
                                   'original_case': {'expr': e, 'index': i}})
                else:
                    reported[key] += 1
                ctx.count('violations', key)
            if model is None:
                continue
            mo = model[2 * i + j].split(' ')
            if len(mo) != 3:
                ctx.mismatch('format', desc, text, model[2 * i + j])
                continue
            wf, mtext, rt = mo
            impl_text = 'error' if text is None else 'S' + hexs(text)
            if impl_text != mtext:
                ctx.mismatch('format', desc, text, bytes.fromhex(mtext[1:].replace('-', '')).decode() if mtext.startswith('S') else mtext)
                continue
            if dom and wf != '1':
                ctx.mismatch('domain', desc, 'in the domain of the property', 'wfText = false: the theorems do not cover it')
            if wf == '1' and rt != '1':
                ctx.mismatch('domain', desc, 'wfText', 'the model does not read its own text back (theorem would be false)')
            if wf == '1' and text is not None and not ok:
                claim_fail += 1
                if not dom:
                    ctx.mismatch('domain', desc, 'real code does not round-trip', 'wfText = true (theorem claims it does)')
            # parse stream: implied when both sides read the same text back to e; otherwise look at it
            if text is not None and not (ok and rt == '1'):
                second.append((text, desc))
    ctx.extra['wf_claim_failures_on_real_code'] = claim_fail
    ctx.extra['violations_by_key'] = reported

    # ---- texts ----------------------------------------------------------------------------------------------------
    texts = [(t, {'text': t}) for t in HAND_TEXTS]
    n_mut = 3000 if quick else 60000
    pool_texts = [per[j][0] for (_, _, _, per) in results[:20000] for j in (0, 1) if per[j][0] is not None and len(per[j][0]) < 400]
    for _ in range(n_mut):
        if ctx.rng.random() < 0.15 or not pool_texts:
            toks = [ctx.rng.choice(SOUP) for _ in range(ctx.rng.randrange(0, 9))]
        else:
            toks = lex_texts(ctx.rng.choice(pool_texts))
            if toks is None:
                continue
            if ctx.rng.random() < 0.6:
                toks = mutate(ctx.rng, toks)
        t = rejoin(ctx.rng, toks)
        texts.append((t, {'text': t}))
    texts += second[:200000]
    model2 = model_lines(ctx, ['P ' + hexs(t) for t, _ in texts], quick)
    for k, (t, desc) in enumerate(texts):
        r = real_parse(t)
        if 'expr' not in desc:
            ctx.case(desc, nontrivial=r[0] == 'ok')
            ctx.count('text-result', r[0])
        if r[0] == 'skip' or model2 is None:
            continue
        if show(r) != model2[k]:
            ctx.mismatch('parse', desc if 'expr' in desc else {'text': t}, show(r)[:300], model2[k][:300])


def model_lines(ctx, lines, quick):
    """the Lean driver, in parallel slices for the thorough tier"""
    if not ctx.lean_ok:
        return None
    if quick or len(lines) < 40000:
        return ctx.model(lines)
    from concurrent.futures import ThreadPoolExecutor
    n = min(12, os.cpu_count() or 1)
    size = (len(lines) + n - 1) // n
    parts = [lines[i:i + size] for i in range(0, len(lines), size)]
    with ThreadPoolExecutor(n) as ex:
        outs = list(ex.map(ctx.model, parts))
    if any(o is None for o in outs):
        return None
    return [x for o in outs for x in o]
