"""C32 — view definitions (michelson/sections/view.py).

The real `ViewSection.match(view_expr)` (the path `MichelsonProgram.match` takes for every `view` section) is run on
* names of every length 0..40 over an alphabet with one character per class (allowed: lower, upper, digit, `_ . % @`;
  forbidden: space, `-`, `/`, newline, neighbours of the allowed ranges, non-ASCII letters, an astral character), the
  forbidden one at the first, the last and a random position;
* code trees built from *frames* around a *leaf*: every frame path up to a depth exhaustively, random deeper paths up
  to depth 6 and random multi-branch trees.  Frames: sequence positions, DIP, DIP n, IF*/LOOP*/ITER/MAP branches,
  LAMBDA, LAMBDA_REC, `PUSH (lambda ..) {..}` and PUSH with the lambda nested in pair / list / option / or / map /
  3-comb types, PUSH of a non-lambda type, CREATE_CONTRACT code; leaves: SELF, the three restricted instructions
  (plain and annotated) and harmless near-misses.
Observable: accepted / rejected, and for a rejection which check raised (name-long / name-char / code:<PRIM named>).
Oracle: the property's own statement evaluated on the JSON (`spec_verdict`).  Model: `Impl.View.checkView`.
"""
import hashlib
import itertools
import re
import string

from harness import mich
from translator import extract

PROP = 'C32'

U = {'prim': 'unit'}
NAT = {'prim': 'nat'}
LT = {'prim': 'lambda', 'args': [U, U]}
LT_ANN = {'prim': 'lambda', 'args': [U, U], 'annots': [':f']}
SCRIPT_TAIL = [{'prim': 'CDR'}, {'prim': 'NIL', 'args': [{'prim': 'operation'}]}, {'prim': 'PAIR'}]


def _script(code):
    return [{'prim': 'parameter', 'args': [U]}, {'prim': 'storage', 'args': [U]}, {'prim': 'code', 'args': [code]}]


def _body(h):
    """a hole filler is one instruction or a sequence; a block is always a sequence"""
    return h if isinstance(h, list) else [h]


# name -> (builder, opens a lambda body for the hole)
FRAMES = {
    'seq-first': (lambda h: [h, {'prim': 'DROP'}], False),
    'seq-mid': (lambda h: [{'prim': 'DROP'}, h, {'prim': 'UNIT'}], False),
    'seq-last': (lambda h: [{'prim': 'UNIT'}, h], False),
    'DIP': (lambda h: {'prim': 'DIP', 'args': [_body(h)]}, False),
    'DIP-n': (lambda h: {'prim': 'DIP', 'args': [{'int': '2'}, _body(h)]}, False),
    'IF-then': (lambda h: {'prim': 'IF', 'args': [_body(h), []]}, False),
    'IF-else': (lambda h: {'prim': 'IF', 'args': [[], _body(h)]}, False),
    'IF_NONE-then': (lambda h: {'prim': 'IF_NONE', 'args': [_body(h), [{'prim': 'DROP'}]]}, False),
    'IF_NONE-else': (lambda h: {'prim': 'IF_NONE', 'args': [[], _body(h)]}, False),
    'IF_LEFT-then': (lambda h: {'prim': 'IF_LEFT', 'args': [_body(h), []]}, False),
    'IF_CONS-else': (lambda h: {'prim': 'IF_CONS', 'args': [[], _body(h)]}, False),
    'LOOP': (lambda h: {'prim': 'LOOP', 'args': [_body(h)]}, False),
    'LOOP_LEFT': (lambda h: {'prim': 'LOOP_LEFT', 'args': [_body(h)]}, False),
    'ITER': (lambda h: {'prim': 'ITER', 'args': [_body(h)]}, False),
    'MAP': (lambda h: {'prim': 'MAP', 'args': [_body(h)]}, False),
    'LAMBDA': (lambda h: {'prim': 'LAMBDA', 'args': [U, U, _body(h)]}, True),
    'LAMBDA-annot': (lambda h: {'prim': 'LAMBDA', 'args': [U, U, _body(h)], 'annots': ['@f']}, True),
    'LAMBDA_REC': (lambda h: {'prim': 'LAMBDA_REC', 'args': [U, U, _body(h)]}, True),
    'PUSH-lambda': (lambda h: {'prim': 'PUSH', 'args': [LT, _body(h)]}, True),
    'PUSH-lambda-annot': (lambda h: {'prim': 'PUSH', 'args': [LT_ANN, _body(h)], 'annots': ['@v']}, True),
    'PUSH-pair-lambda': (lambda h: {'prim': 'PUSH', 'args': [{'prim': 'pair', 'args': [NAT, LT]},
                                                              {'prim': 'Pair', 'args': [{'int': '1'}, _body(h)]}]}, True),
    'PUSH-comb3-lambda': (lambda h: {'prim': 'PUSH', 'args': [{'prim': 'pair', 'args': [NAT, NAT, LT]},
                                                               {'prim': 'Pair', 'args': [{'int': '1'}, {'int': '2'}, _body(h)]}]}, True),
    'PUSH-list-lambda': (lambda h: {'prim': 'PUSH', 'args': [{'prim': 'list', 'args': [LT]}, [_body(h)]]}, True),
    'PUSH-option-lambda': (lambda h: {'prim': 'PUSH', 'args': [{'prim': 'option', 'args': [LT]}, {'prim': 'Some', 'args': [_body(h)]}]}, True),
    'PUSH-or-lambda': (lambda h: {'prim': 'PUSH', 'args': [{'prim': 'or', 'args': [NAT, LT]}, {'prim': 'Right', 'args': [_body(h)]}]}, True),
    'PUSH-map-lambda': (lambda h: {'prim': 'PUSH', 'args': [{'prim': 'map', 'args': [NAT, LT]},
                                                             [{'prim': 'Elt', 'args': [{'int': '1'}, _body(h)]}]]}, True),
    # ill-typed but accepted by Micheline.match: the pushed type has no lambda, so this is NOT a lambda body
    'PUSH-nat-seq': (lambda h: {'prim': 'PUSH', 'args': [NAT, _body(h)]}, False),
    'PUSH-list-nat-seq': (lambda h: {'prim': 'PUSH', 'args': [{'prim': 'list', 'args': [NAT]}, [_body(h)]]}, False),
    # itself a restricted instruction; the created script is not a lambda body of the view
    'CREATE_CONTRACT-code': (lambda h: {'prim': 'CREATE_CONTRACT', 'args': [_script(_body(h) + SCRIPT_TAIL)]}, False),
}
FRAME_NAMES = list(FRAMES)

LEAVES = {
    'SELF': {'prim': 'SELF'},
    'SELF-annot': {'prim': 'SELF', 'annots': ['%ep']},
    'TRANSFER_TOKENS': {'prim': 'TRANSFER_TOKENS'},
    'TRANSFER_TOKENS-annot': {'prim': 'TRANSFER_TOKENS', 'annots': ['@op']},
    'SET_DELEGATE': {'prim': 'SET_DELEGATE'},
    'CREATE_CONTRACT': {'prim': 'CREATE_CONTRACT', 'args': [_script(SCRIPT_TAIL)]},
    'DROP': {'prim': 'DROP'},
    'SELF_ADDRESS': {'prim': 'SELF_ADDRESS'},
    'IMPLICIT_ACCOUNT': {'prim': 'IMPLICIT_ACCOUNT'},
    'empty': [],
}
LEAF_NAMES = list(LEAVES)
HOT_LEAVES = ['SELF', 'SELF-annot', 'TRANSFER_TOKENS', 'TRANSFER_TOKENS-annot', 'SET_DELEGATE', 'CREATE_CONTRACT']

ALLOWED = string.ascii_letters + string.digits + '_.%@'
BAD_CHARS = [' ', '-', '/', '\n', ':', '`', '{', '[', '$', '&', 'é', 'Ж', '\U0001d4b3', '\x00', '\x7f']


def build_path(path, leaf):
    node = LEAVES[leaf]
    for f in reversed(path):
        node = FRAMES[f][0](node)
    return _body(node)


def view_expr(name, code):
    return {'prim': 'view', 'args': [{'string': name}, U, U, code]}


# ---- the property's own statement -------------------------------------------------------------------------------------
RESTRICTED = {'TRANSFER_TOKENS', 'CREATE_CONTRACT', 'SET_DELEGATE'}


def mentions_lambda(t):
    if isinstance(t, list):
        return any(mentions_lambda(x) for x in t)
    return 'prim' in t and (t['prim'] == 'lambda' or any(mentions_lambda(x) for x in t.get('args', [])))


def code_reasons(node, in_lambda=False):
    """list of (prim, why) that make Tezos reject the view code"""
    if isinstance(node, list):
        return [r for x in node for r in code_reasons(x, in_lambda)]
    if 'prim' not in node:
        return []
    p, args = node['prim'], node.get('args', [])
    out = []
    if p == 'SELF':
        out.append((p, 'SELF'))
    if p in RESTRICTED and not in_lambda:
        out.append((p, 'outside-lambda'))
    inner = in_lambda or p in ('LAMBDA', 'LAMBDA_REC') or (p == 'PUSH' and len(args) > 0 and mentions_lambda(args[0]))
    for a in args:
        out += code_reasons(a, inner)
    return out


def name_reasons(name):
    out = []
    if len(name) > 31:
        out.append('too-long')
    if any(c not in ALLOWED for c in name):
        out.append('forbidden-char')
    return out


def spec_verdict(name, code):
    return 'ok' if not name_reasons(name) and not code_reasons(code) else 'reject'


# ---- the real code ----------------------------------------------------------------------------------------------------
def run_impl(name, code):
    from pytezos.michelson.micheline import MichelsonRuntimeError
    from pytezos.michelson.sections.view import ViewSection
    try:
        ViewSection.match(view_expr(name, code))
        return 'ok'
    except MichelsonRuntimeError as e:
        msg = str(e.args[-1]) if e.args else ''
        m = re.fullmatch(r'(\w+) is not allowed in views', msg)
        if m:
            return 'code:' + m.group(1)
        if msg.startswith('Too long view name'):
            return 'name-long'
        if 'view name' in msg:
            return 'name-char'
        return 'error:' + msg[:80]


def verdict(enum):
    return 'ok' if enum == 'ok' else 'reject'


# ---- shrinking ---------------------------------------------------------------------------------------------------------
def _candidates(code):
    """smaller variants of a code tree: drop a list item, or replace a prim node by one of its arguments"""
    def rec(node):
        if isinstance(node, list):
            for i in range(len(node)):
                yield node[:i] + node[i + 1:]
                x = node[i]
                if isinstance(x, dict) and 'prim' in x:
                    for a in x.get('args', []):
                        yield node[:i] + (a if isinstance(a, list) else [a]) + node[i + 1:]
                for sub in rec(x):
                    yield node[:i] + [sub] + node[i + 1:]
        elif isinstance(node, dict) and 'prim' in node:
            args = node.get('args', [])
            for i, a in enumerate(args):
                for sub in rec(a):
                    yield {**node, 'args': args[:i] + [sub] + args[i + 1:]}
    return rec(code)


def _matches(code):
    """the view-independent part of matching succeeds (a shrunk tree must stay a well-formed program fragment)"""
    from pytezos.michelson.micheline import Micheline
    try:
        Micheline.match(code)
        return True
    except Exception:
        return False


def shrink_code(name, code):
    def bad(c):
        return isinstance(c, list) and _matches(c) and verdict(run_impl(name, c)) != spec_verdict(name, c)
    changed = True
    while changed:
        changed = False
        for c in _candidates(code):
            if bad(c):
                code, changed = c, True
                break
    return code


def shrink_name(name, code):
    def bad(n):
        return verdict(run_impl(n, code)) != spec_verdict(n, code)
    changed = True
    while changed:
        changed = False
        for i in range(len(name)):
            n = name[:i] + name[i + 1:]
            if bad(n):
                name, changed = n, True
                break
    return name


def prims_of(code):
    if isinstance(code, list):
        return [p for x in code for p in prims_of(x)]
    if 'prim' not in code:
        return []
    return [code['prim']] + [p for a in code.get('args', []) for p in prims_of(a)]


def run(ctx):
    ctx.prepare_lean(extract.generate(PROP))
    rng = ctx.rng
    quick = ctx.tier == 'quick'
    ctx.extra['rule'] = ('names: every length 0..40, all-allowed and with one forbidden character (15 classes) at first/last/random position; '
                         f'code: all frame paths (of {len(FRAMES)} frames) up to depth {2 if quick else 3} x {len(LEAVES)} leaves, random paths of depth 3..6, '
                         'random multi-branch trees; non-trivial = a SELF/restricted leaf under at least one frame, or a non-empty name')
    ctx.assumptions += [
        'the tree of matched Micheline classes walked by check_code has the shape of the Micheline expression (PairType re-nests '
        'combs, which adds only `pair` nodes); Micheline.match itself (registration of prims, arities) is outside the model',
        'every PUSH node has its two arguments (Micheline.match registers PUSH with exactly two) - hypothesis `pushHasType` of the theorem',
        'Tezos also type-checks the view; the property (and the model) covers only the view-specific restrictions',
    ]

    cases = []   # (kind, desc, name, code)
    # ---- names
    for ln in range(0, 41):
        good = ''.join(rng.choice(ALLOWED) for _ in range(ln))
        cases.append(('name', {'len': ln, 'class': 'allowed'}, good, []))
        if ln:
            for ch in string.ascii_lowercase[:1] + 'Z9_.%@':
                cases.append(('name', {'len': ln, 'class': 'all-' + ch}, ch * ln, []))
            for bad in BAD_CHARS:
                for pos in sorted({0, ln - 1, rng.randrange(ln)}):
                    cases.append(('name', {'len': ln, 'class': 'bad U+%04X' % ord(bad), 'pos': pos}, good[:pos] + bad + good[pos + 1:], []))
    # name x code precedence
    for nm in ['ok_name', 'a' * 32, 'a b', 'a b' + 'c' * 30, '']:
        for path, leaf in [((), 'DROP'), ((), 'SELF'), (('DIP',), 'TRANSFER_TOKENS'), (('LAMBDA_REC',), 'SET_DELEGATE')]:
            cases.append(('cross', {'name': nm, 'path': list(path), 'leaf': leaf}, nm, build_path(path, leaf)))
    # ---- code: exhaustive shallow paths
    depth = 2 if quick else 3
    for d in range(0, depth + 1):
        for path in itertools.product(FRAME_NAMES, repeat=d):
            for leaf in LEAF_NAMES:
                if d == 3 and leaf not in ('SELF', 'TRANSFER_TOKENS', 'DROP'):
                    continue
                cases.append(('path', {'path': list(path), 'leaf': leaf}, 'v', build_path(path, leaf)))
    # ---- code: random deeper paths
    for _ in range(2500 if quick else 40000):
        d = rng.randrange(3, 7)
        path = [rng.choice(FRAME_NAMES) for _ in range(d)]
        leaf = rng.choice(HOT_LEAVES if rng.random() < 0.8 else LEAF_NAMES)
        cases.append(('path', {'path': path, 'leaf': leaf}, 'v', build_path(path, leaf)))

    # ---- code: random multi-branch trees
    def rand_block(d):
        items = []
        for _ in range(rng.randrange(0, 4)):
            if d > 0 and rng.random() < 0.55:
                items.append(FRAMES[rng.choice(FRAME_NAMES)][0](rand_block(d - 1)))
            else:
                items.append(LEAVES[rng.choice(HOT_LEAVES if rng.random() < 0.3 else LEAF_NAMES)])
        return items
    for i in range(1500 if quick else 20000):
        code = rand_block(rng.randrange(1, 6))
        cases.append(('tree', {'tree': hashlib.sha1(mich.to_line(code).encode()).hexdigest()[:16], 'prims': len(prims_of(code))},
                      rng.choice(['v', 'get_balance', 'a.b%c@d']), code))

    lines = [mich.to_line(view_expr(n, c)) for _, _, n, c in cases]
    model = ctx.model(lines)

    reported, seen_sigs, shrunk = set(), set(), [0]
    for idx, (kind, desc, name, code) in enumerate(cases):
        got = run_impl(name, code)
        want = spec_verdict(name, code)
        hot = [p for p in prims_of(code) if p in RESTRICTED or p == 'SELF']
        d = {'kind': kind, **desc}
        if kind == 'name':
            d['name'] = name
        ctx.case(d, nontrivial=(kind == 'name' and len(name) > 0) or (bool(hot) and len(prims_of(code)) > 1))
        ctx.count('kind', kind)
        ctx.count('spec', want if want == 'ok' else 'reject:' + ('name' if name_reasons(name) else sorted({w for _, w in code_reasons(code)})[0]))
        ctx.count('impl', got.split(':')[0] if got.startswith('error') else got)
        if kind == 'name':
            ctx.count('name-length', len(name))
        elif kind == 'path':
            ctx.count('depth', len(desc['path']))
        if got.startswith('error:'):
            # Micheline.match rejected the generated program for a reason that has nothing to do with views: generator bug
            raise RuntimeError(f'generated view does not match: {got} for {desc}')
        if model is not None and got != model[idx]:
            ctx.mismatch('view-check', {**d, 'name': name, 'code': mich.to_line(code)[:400]}, got, model[idx])
        if verdict(got) != want:
            # shrinking is the expensive part: do it for the first cases and for every new kind of disagreement
            sig = (got, want, tuple(sorted(set(prims_of(code)) & {'LAMBDA', 'LAMBDA_REC', 'PUSH', 'CREATE_CONTRACT'})), bool(name_reasons(name)))
            ctx.count('disagreements', f'impl={got} spec={want}')
            if sig in seen_sigs and shrunk[0] >= 40:
                continue
            seen_sigs.add(sig)
            shrunk[0] += 1
            if name_reasons(name) and not code_reasons(code) or (kind in ('name', 'cross') and verdict(run_impl(name, [])) != spec_verdict(name, [])):
                m_name, m_code = shrink_name(name, []), []
            else:
                m_name, m_code = 'v', shrink_code('v', code) if verdict(run_impl('v', code)) != spec_verdict('v', code) else code
                if m_code is code:
                    m_name = name
            m_got, m_want = run_impl(m_name, m_code), spec_verdict(m_name, m_code)
            ps = prims_of(m_code)
            if m_want == 'ok' and 'LAMBDA_REC' in ps:
                key = 'LAMBDA_REC-body-rejected'
            elif m_want == 'ok' and 'PUSH' in ps:
                key = 'pushed-lambda-literal-rejected'
            elif m_want == 'reject' and m_got == 'ok' and name_reasons(m_name) == ['forbidden-char']:
                key = 'name-forbidden-char-accepted'
            else:
                key = f'name={m_name!r} code={mich.to_line(m_code)}'
            if key not in reported:
                reported.add(key)
                why = name_reasons(m_name) + [f'{p}:{w}' for p, w in code_reasons(m_code)]
                ctx.violation(key, f'view {m_name!r} with code {mich.to_line(m_code)}: ViewSection.match -> {m_got}, Tezos rule -> {m_want}'
                              + (f' ({", ".join(why)})' if why else ''),
                              {'name': m_name, 'code': m_code, 'got': m_got, 'expected': m_want, 'from': d})
