"""C16 — arithmetic and numeric conversions are exact.

Every case is a snippet `PUSH tyB b ; PUSH tyA a ; OP` run through the real `Interpreter().execute`; the observable
is the type and value of the single stack item left, or the root-cause class of the runtime error
(AssertionError / OverflowError).  The same operands go to the Lean mirror (`lean/Driver/C16.lean`) and to an
independent oracle written from the Michelson reference with plain Python integers (`oracle` below — it never looks
at pytezos).  A second stream probes the CPython primitives the mirror is built on (`to_bytes`, `from_bytes`,
`bit_length`, `divmod`, shifts, `& | ^ ~`, `lstrip`) against their Lean definitions.
"""
import concurrent.futures
import multiprocessing
import os

from translator import extract

PROP = 'C16'

UNARY = ['ABS', 'NEG', 'ISNAT', 'INT', 'NAT', 'BYTES', 'NOT', 'BYTES_INT', 'BYTES_NAT']
BINARY = ['ADD', 'SUB', 'SUB_MUTEZ', 'MUL', 'EDIV', 'LSL', 'LSR', 'AND', 'OR', 'XOR']
TYPES = ['int', 'nat', 'mutez', 'timestamp', 'bytes', 'bool']
NUM = ('int', 'nat', 'mutez', 'timestamp')
MUTEZ_LIM = 2 ** 63

# ---------------------------------------------------------------------------------------------------------------
# Michelson reference (oracle).  Tables: operand types (top of stack first) -> result type(s).

ADD_T = {('nat', 'nat'): 'nat', ('nat', 'int'): 'int', ('int', 'nat'): 'int', ('int', 'int'): 'int',
         ('timestamp', 'int'): 'timestamp', ('int', 'timestamp'): 'timestamp', ('mutez', 'mutez'): 'mutez'}
SUB_T = {('nat', 'nat'): 'int', ('nat', 'int'): 'int', ('int', 'nat'): 'int', ('int', 'int'): 'int',
         ('timestamp', 'int'): 'timestamp', ('timestamp', 'timestamp'): 'int', ('mutez', 'mutez'): 'mutez'}
MUL_T = {('nat', 'nat'): 'nat', ('nat', 'int'): 'int', ('int', 'nat'): 'int', ('int', 'int'): 'int',
         ('mutez', 'nat'): 'mutez', ('nat', 'mutez'): 'mutez'}
EDIV_T = {('nat', 'nat'): ('nat', 'nat'), ('nat', 'int'): ('int', 'nat'), ('int', 'nat'): ('int', 'nat'),
          ('int', 'int'): ('int', 'nat'), ('mutez', 'nat'): ('mutez', 'mutez'), ('mutez', 'mutez'): ('nat', 'mutez')}
# typed by Michelson, not implemented by pytezos for `bytes` operands (outside the supported set, not claimed)
BYTES_BITWISE = {'AND': [('bytes', 'bytes')], 'OR': [('bytes', 'bytes')], 'XOR': [('bytes', 'bytes')], 'NOT': [('bytes',)],
                 'LSL': [('bytes', 'nat')], 'LSR': [('bytes', 'nat')]}
VALID = {
    'ADD': list(ADD_T), 'SUB': list(SUB_T), 'MUL': list(MUL_T), 'EDIV': list(EDIV_T), 'SUB_MUTEZ': [('mutez', 'mutez')],
    'LSL': [('nat', 'nat')], 'LSR': [('nat', 'nat')],
    'AND': [('bool', 'bool'), ('nat', 'nat'), ('int', 'nat')], 'OR': [('bool', 'bool'), ('nat', 'nat')],
    'XOR': [('bool', 'bool'), ('nat', 'nat')], 'NOT': [('bool',), ('nat',), ('int',)],
    'ABS': [('int',)], 'NEG': [('int',), ('nat',)], 'ISNAT': [('int',)], 'INT': [('nat',), ('bytes',)], 'NAT': [('bytes',)],
    'BYTES': [('int',), ('nat',)], 'BYTES_INT': [('int',)], 'BYTES_NAT': [('nat',)],
}


def shortest_twos_complement(z):
    """shortest big-endian two's-complement encoding; 0 is the empty string"""
    if z == 0:
        return b''
    n = 1
    while not (-(1 << (8 * n - 1)) <= z < (1 << (8 * n - 1))):
        n += 1
    u = z if z >= 0 else z + (1 << (8 * n))
    out = []
    for _ in range(n):
        out.append(u & 0xff)
        u >>= 8
    return bytes(reversed(out))


def shortest_unsigned(n):
    out = []
    while n:
        out.append(n % 256)
        n //= 256
    return bytes(reversed(out))


def be_unsigned(bs):
    n = 0
    for b in bs:
        n = n * 256 + b
    return n


def be_signed(bs):
    n = be_unsigned(bs)
    if bs and bs[0] >= 0x80:
        n -= 1 << (8 * len(bs))
    return n


def fmt_val(ty, v):
    if ty in NUM:
        return str(v)
    if ty == 'bytes':
        return v.hex() or '-'
    return 'True' if v else 'False'


def _num(ty, v):
    """a value of a numeric type, or failure when it does not exist (nat < 0, mutez out of range)"""
    if ty == 'nat' and v < 0:
        return 'fail'
    if ty == 'mutez' and not (0 <= v < MUTEZ_LIM):
        return 'fail'
    return f'ok {ty} {v}'


def oracle(op, args):
    """expected observable: 'ok <type> <value>' | 'fail' | 'illtyped' (Michelson rejects the operand types)
    | 'unsupported' (typed in Michelson, pytezos has no implementation: bytes bitwise / shifts)"""
    tys = tuple(t for t, _ in args)
    vs = [v for _, v in args]
    if tys in BYTES_BITWISE.get(op, ()):
        return 'unsupported'
    if tys not in VALID[op]:
        return 'illtyped'
    if op == 'ADD':
        return _num(ADD_T[tys], vs[0] + vs[1])
    if op == 'SUB':
        return _num(SUB_T[tys], vs[0] - vs[1])
    if op == 'MUL':
        return _num(MUL_T[tys], vs[0] * vs[1])
    if op == 'SUB_MUTEZ':
        d = vs[0] - vs[1]
        return f'ok option(mutez) Some({d})' if d >= 0 else 'ok option(mutez) None'
    if op == 'EDIV':
        tq, tr = EDIV_T[tys]
        a, b = vs
        if b == 0:
            return f'ok option(pair({tq},{tr})) None'
        r = a % abs(b)               # 0 <= r < |b|
        q = (a - r) // b             # exact
        assert a == q * b + r and 0 <= r < abs(b) and (a - r) % b == 0
        return f'ok option(pair({tq},{tr})) Some(Pair({q},{r}))'
    if op == 'ABS':
        return f'ok nat {vs[0] if vs[0] >= 0 else -vs[0]}'
    if op == 'NEG':
        return f'ok int {-vs[0]}'
    if op == 'ISNAT':
        return f'ok option(nat) Some({vs[0]})' if vs[0] >= 0 else 'ok option(nat) None'
    if op == 'INT':
        return f'ok int {vs[0]}' if tys == ('nat',) else f'ok int {be_signed(vs[0])}'
    if op == 'NAT':
        return f'ok nat {be_unsigned(vs[0])}'
    if op == 'BYTES':
        bs = shortest_twos_complement(vs[0]) if tys == ('int',) else shortest_unsigned(vs[0])
        return f'ok bytes {bs.hex() or "-"}'
    if op == 'BYTES_INT':
        return f'ok int {vs[0]}'
    if op == 'BYTES_NAT':
        return f'ok nat {vs[0]}'
    if op in ('LSL', 'LSR'):
        a, s = vs
        if s > 256:
            return 'fail'
        return f'ok nat {a * 2 ** s}' if op == 'LSL' else f'ok nat {a // 2 ** s}'
    if op in ('AND', 'OR', 'XOR'):
        if tys == ('bool', 'bool'):
            a, b = vs
            r = {'AND': a and b, 'OR': a or b, 'XOR': a != b}[op]
            return f'ok bool {"True" if r else "False"}'
        # two's complement with infinite sign extension, bit by bit
        a, b = vs
        width = max(a.bit_length(), b.bit_length()) + 1
        r = 0
        for i in range(width):
            x = (a // 2 ** i) % 2
            y = (b // 2 ** i) % 2
            bit = {'AND': x & y, 'OR': x | y, 'XOR': x ^ y}[op]
            r += bit << i
        # sign bit of the result: here always 0 (one operand is a nat for AND, both for OR/XOR)
        return f'ok nat {r}'
    if op == 'NOT':
        if tys == ('bool',):
            return f'ok bool {"False" if vs[0] else "True"}'
        return f'ok int {-vs[0] - 1}'
    raise AssertionError(op)


# ---------------------------------------------------------------------------------------------------------------
# real code

_INTERP = None


def snippet(op, args):
    pushes = [f'PUSH {t} {("0x" + v.hex()) if t == "bytes" else fmt_val(t, v)}' for t, v in reversed(args)]
    ops = {'BYTES_INT': ['BYTES', 'INT'], 'BYTES_NAT': ['BYTES', 'NAT']}.get(op, [op])
    return ' ; '.join(pushes + ops)


def _type_str(e):
    if e.get('args'):
        return e['prim'] + '(' + ','.join(_type_str(a) for a in e['args']) + ')'
    return e['prim']


def _value_str(v):
    if 'int' in v:
        return str(int(v['int']))
    if 'bytes' in v:
        return v['bytes'].lower() or '-'
    if 'string' in v:
        return 'str:' + v['string']
    if v.get('args'):
        return v['prim'] + '(' + ','.join(_value_str(a) for a in v['args']) + ')'
    return v['prim']


def _root(e):
    seen = 0
    while e.__cause__ is not None and seen < 20:
        e = e.__cause__
        seen += 1
    return e


def impl_run(case):
    """observable of the real interpreter for one case"""
    global _INTERP
    if _INTERP is None:
        import pytezos.michelson.repl as repl
        from pytezos.michelson.parse import MichelsonParser, michelson_to_micheline
        from pytezos.michelson.repl import Interpreter
        if os.environ.get('VERIF_C16_FRESH_PARSER') != '1':
            # `Interpreter.execute` builds a new PLY parser (~3 ms of LALR table construction) for every snippet;
            # hand it one shared parser instance instead (same grammar, same parse — only the construction is saved)
            shared = MichelsonParser()
            repl.michelson_to_micheline = lambda data, parser=None: michelson_to_micheline(data, parser or shared)
        _INTERP = Interpreter()
    op, args = case
    it = _INTERP
    it.stack.clear()
    try:
        res = it.execute(snippet(op, args))
    except Exception as e:      # noqa: BLE001 — an exception escaping from Interpreter.execute itself: the snippet did not run to its result
        _INTERP = None          # (the session object may be left half-way)
        return f'fail other:escaped-{type(_root(e)).__name__}'
    if res.error is not None:
        root = _root(res.error)
        name = type(root).__name__
        return {'AssertionError': 'fail assertion', 'OverflowError': 'fail overflow'}.get(name, f'fail other:{name}')
    items = it.stack.items
    if len(items) != 1:
        return f'stack:{len(items)}'
    top = items[0]
    return f'ok {_type_str(type(top).as_micheline_expr())} {_value_str(top.to_micheline_value(mode="optimized"))}'


def _impl_chunk(chunk):
    return [impl_run(c) for c in chunk]


def py_probe(line):
    """CPython's own answer for a PY_* protocol line"""
    ws = line.split(' ')
    k = ws[0]
    hx = lambda h: bytes.fromhex('' if h == '-' else h)
    if k == 'PY_BITLEN':
        return str(int(ws[1]).bit_length())
    if k == 'PY_TOBYTES':
        try:
            return int(ws[1]).to_bytes(int(ws[2]), 'big', signed=ws[3] == '1').hex() or '-'
        except OverflowError:
            return 'overflow'
    if k == 'PY_FROMBYTES':
        return str(int.from_bytes(hx(ws[1]), 'big', signed=ws[2] == '1'))
    if k == 'PY_LSTRIP':
        return hx(ws[1]).lstrip(b'\x00').hex() or '-'
    if k == 'PY_DIVMOD':
        q, r = divmod(int(ws[1]), int(ws[2]))
        return f'{q} {r}'
    if k == 'PY_SHL':
        return str(int(ws[1]) << int(ws[2]))
    if k == 'PY_SHR':
        return str(int(ws[1]) >> int(ws[2]))
    if k == 'PY_AND':
        return str(int(ws[1]) & int(ws[2]))
    if k == 'PY_OR':
        return str(int(ws[1]) | int(ws[2]))
    if k == 'PY_XOR':
        return str(int(ws[1]) ^ int(ws[2]))
    if k == 'PY_INVERT':
        return str(~int(ws[1]))
    if k == 'PY_ABS':
        return str(abs(int(ws[1])))
    raise AssertionError(k)


# ---------------------------------------------------------------------------------------------------------------
# case generation

def boundary(kmax):
    """non-negative boundary values: 0, 1, 2^(8k)-1, 2^(8k), 2^(8k-1) (and neighbours), 2^63-1, 2^63, 2^64"""
    s = {0, 1, 2, 2 ** 63 - 1, 2 ** 63, 2 ** 63 + 1, 2 ** 64 - 1, 2 ** 64, 2 ** 62}
    for k in range(1, kmax + 1):
        for base in (2 ** (8 * k), 2 ** (8 * k - 1)):
            s.update((base - 1, base, base + 1))
    return sorted(s)


SMALL = [0, 1, 2, 127, 128, 255, 256, 32768, 2 ** 62, 2 ** 63 - 1, 2 ** 63, 2 ** 64]
SHIFTS = [0, 1, 7, 8, 9, 63, 64, 255, 256, 257, 258, 1000, 2 ** 64]
BYTES_POOL = [b'', b'\x00', b'\x01', b'\x7f', b'\x80', b'\xff', b'\x00\x80', b'\x00\x7f', b'\xff\x7f', b'\xff\x80', b'\x80\x00',
              b'\x00\x00\x01', b'\xff\xff', b'\x00\xff', b'\x01\x00', b'\x7f\xff\xff\xff\xff\xff\xff\xff', b'\x80' + b'\x00' * 7,
              b'\x00' * 9, b'\xff' * 9]


class Gen:
    def __init__(self, rng, kmax):
        self.rng = rng
        self.bnd = boundary(kmax)
        self.bnd_mutez = [v for v in self.bnd if v < MUTEZ_LIM]

    def rand_nonneg(self, bits=2000):
        r = self.rng
        k = r.randrange(10)
        if k < 4:
            return r.choice(self.bnd)
        if k < 6:
            return r.getrandbits(r.randrange(1, 70))
        return r.getrandbits(r.randrange(1, bits + 1))

    def value(self, ty, role=None):
        r = self.rng
        if ty == 'bool':
            return r.random() < 0.5
        if ty == 'bytes':
            if r.random() < 0.4:
                return r.choice(BYTES_POOL)
            n = r.choice([1, 2, 3, 8, 9, 16, 33, r.randrange(1, 250)])
            b = bytearray(r.getrandbits(8) for _ in range(n))
            if r.random() < 0.5:
                b[0] = r.choice([0x00, 0x7f, 0x80, 0xff])
            return bytes(b)
        if role == 'shift' and ty == 'nat' and r.random() < 0.8:
            return r.choice(SHIFTS) if r.random() < 0.5 else r.randrange(0, 300)
        if ty == 'mutez':
            k = r.randrange(6)
            if k < 3:
                return r.choice(self.bnd_mutez)
            if k == 3:
                return MUTEZ_LIM - 1 - r.getrandbits(r.randrange(1, 40))
            return r.getrandbits(r.randrange(1, 64))
        v = self.rand_nonneg()
        if ty in ('int', 'timestamp') and r.random() < 0.5:
            v = -v
        return v

    def small(self, ty, role=None):
        if ty == 'bool':
            return [False, True]
        if ty == 'bytes':
            return BYTES_POOL[:8]
        if role == 'shift' and ty == 'nat':
            return SHIFTS
        if ty == 'mutez':
            return [v for v in SMALL if v < MUTEZ_LIM] + [MUTEZ_LIM - 2]
        if ty == 'nat':
            return SMALL
        return SMALL + [-v for v in SMALL if v] + [-129, -32769]

    def full(self, ty):
        if ty == 'bool':
            return [False, True]
        if ty == 'bytes':
            return BYTES_POOL
        if ty == 'mutez':
            return self.bnd_mutez
        if ty == 'nat':
            return self.bnd
        return self.bnd + [-v for v in self.bnd if v]


def role_of(op, i):
    return 'shift' if op in ('LSL', 'LSR') and i == 1 else None


def structured_cases(g, tier):
    cases = []
    # A: typing matrix — every instruction on every operand-type combination
    reps = 2 if tier == 'quick' else 12
    for op in BINARY:
        for ta in TYPES:
            for tb in TYPES:
                for _ in range(reps):
                    cases.append((op, [(ta, g.value(ta)), (tb, g.value(tb, role_of(op, 1)))]))
    for op in UNARY:
        for ta in TYPES:
            for _ in range(reps):
                cases.append((op, [(ta, g.value(ta))]))
    # B: Michelson-typed combinations, cross product of boundary values
    for op in BINARY:
        for ta, tb in VALID[op]:
            xs = g.small(ta) if tier == 'quick' else g.small(ta) + [g.value(ta) for _ in range(25)]
            ys = g.small(tb, role_of(op, 1)) if tier == 'quick' else g.small(tb, role_of(op, 1)) + [g.value(tb, role_of(op, 1)) for _ in range(25)]
            for x in xs:
                for y in ys:
                    cases.append((op, [(ta, x), (tb, y)]))
    # unary: the whole boundary set
    for op in UNARY:
        for (ta,) in VALID[op]:
            for x in g.full(ta):
                cases.append((op, [(ta, x)]))
    return cases


def random_case(g):
    r = g.rng
    if r.random() < 0.3:
        op = r.choice(UNARY)
        tys = r.choice(VALID[op]) if r.random() < 0.9 else (r.choice(TYPES),)
    else:
        op = r.choice(BINARY)
        tys = r.choice(VALID[op]) if r.random() < 0.9 else (r.choice(TYPES), r.choice(TYPES))
    args = [(t, g.value(t, role_of(op, i))) for i, t in enumerate(tys)]
    if op in ('ADD', 'MUL', 'SUB', 'SUB_MUTEZ', 'EDIV') and len(args) == 2 and r.random() < 0.15:
        # related operands: equal, off by one, near-multiples (remainders 0 / |b|-1)
        (ta, a), (tb, b) = args
        if ta in NUM and tb in NUM:
            cand = r.choice([b, b + 1, b - 1, b * r.randrange(1, 5), b * r.randrange(1, 5) - 1, -b])
            if (ta in ('nat', 'mutez') and cand < 0) or (ta == 'mutez' and cand >= MUTEZ_LIM):
                cand = a
            args = [(ta, cand), (tb, b)]
    return (op, args)


def py_lines(g, n):
    r = g.rng
    out = []
    sv = lambda: g.value('int')
    for _ in range(n):
        k = r.randrange(12)
        if k == 0:
            out.append(f'PY_BITLEN {sv()}')
        elif k in (1, 2):
            z = sv()
            ln = max(0, (abs(z).bit_length() + 7) // 8 + r.choice([-1, 0, 0, 1, 1, 2]))
            if r.random() < 0.1:
                ln = 0
                z = r.choice([0, -1, 1])
            out.append(f'PY_TOBYTES {z} {ln} {r.randrange(2)}')
        elif k == 3:
            out.append(f'PY_FROMBYTES {g.value("bytes").hex() or "-"} {r.randrange(2)}')
        elif k == 4:
            out.append(f'PY_LSTRIP {g.value("bytes").hex() or "-"}')
        elif k == 5:
            b = sv() or 1
            a = r.choice([sv(), b * r.randrange(-5, 6), b * r.randrange(-5, 6) + r.choice([1, -1])])
            out.append(f'PY_DIVMOD {a} {b}')
        elif k == 6:
            out.append(f'PY_SHL {sv()} {r.randrange(0, 300)}')
        elif k == 7:
            out.append(f'PY_SHR {sv()} {r.randrange(0, 300)}')
        elif k in (8, 9, 10):
            out.append(f'PY_{["AND", "OR", "XOR"][k - 8]} {sv()} {sv()}')
        else:
            out.append(f'PY_{r.choice(["INVERT", "ABS"])} {sv()}')
    return out


# ---------------------------------------------------------------------------------------------------------------
# judgement

def line_of(case):
    op, args = case
    return ' '.join([op] + [x for t, v in args for x in (t, fmt_val(t, v))])


def desc_of(case):
    op, args = case
    return {'op': op, 'args': [[t, fmt_val(t, v)] for t, v in args]}


def violated(want, got):
    if want in ('illtyped', 'unsupported'):
        return False
    if want == 'fail':
        return not got.startswith('fail')
    return got != want


def defect_key(case, want, got):
    """stable name of the failing call site / input class"""
    op, args = case
    tys = ','.join(t for t, _ in args)
    if op in ('BYTES', 'BYTES_INT') and tys == 'int' and args[0][1] > 0:
        return 'BYTES:int:positive-with-top-bit-set'
    if op == 'SUB_MUTEZ' and tys == 'mutez,mutez' and args[0][1] < args[1][1]:
        return 'SUB_MUTEZ:negative-difference'
    if want == 'fail':
        kind = 'value-instead-of-failure'
    elif got.startswith('fail'):
        kind = 'failure-instead-of-None' if want.endswith(' None') else 'failure-instead-of-value'
    elif got.split(' ')[1:2] != want.split(' ')[1:2]:
        kind = 'wrong-result-type'
    else:
        kind = 'wrong-value'
    return f'{op}({tys}): {kind}'


def shrink(case, want_key, budget=80):
    """greedy: replace numeric operands by smaller ones while the same defect class still shows"""
    op, args = case
    cur = list(args)

    def bad(a):
        c = (op, a)
        try:
            w = oracle(op, a)
        except Exception:
            return False
        got = impl_run(c)
        return violated(w, got) and defect_key(c, w, got) == want_key

    steps = 0
    progress = True
    while progress and steps < budget:
        progress = False
        for i, (t, v) in enumerate(cur):
            if t not in NUM:
                continue
            cands = [c for c in {0, 1, -1, 2, 127, 128, 255, 256, v // 2, v // 256, v - 1 if v > 0 else v + 1, -v}
                     if abs(c) < abs(v) or (c == -v and c > v)]
            for c in sorted(cands, key=lambda x: (abs(x), x < 0)):
                if (t in ('nat', 'mutez') and c < 0) or (t == 'mutez' and c >= MUTEZ_LIM):
                    continue
                steps += 1
                trial = list(cur)
                trial[i] = (t, c)
                if bad(trial):
                    cur = trial
                    progress = True
                    break
                if steps >= budget:
                    break
    return (op, cur)


def bits_bucket(case):
    m = 0
    for t, v in case[1]:
        if t in NUM:
            m = max(m, abs(v).bit_length())
        elif t == 'bytes':
            m = max(m, 8 * len(v))
    for lim in (1, 8, 63, 64, 256, 1024):
        if m <= lim:
            return f'<={lim}b'
    return '>1024b'


def launch(ctx, pool, executor, cases):
    """start the real interpreter (worker pool, cases sharded by index) and the Lean mirror (one driver process) on a batch"""
    lines = [line_of(c) for c in cases]
    chunks = [cases[i:i + 500] for i in range(0, len(cases), 500)]
    impl_job = pool.map_async(_impl_chunk, chunks) if pool is not None else None
    model_job = executor.submit(ctx.model, lines)
    return cases, lines, chunks, impl_job, model_job


def judge(ctx, batch, seen_keys):
    cases, lines, chunks, impl_job, model_job = batch
    model = model_job.result()
    impl = [x for ch in (impl_job.get() if impl_job is not None else map(_impl_chunk, chunks)) for x in ch]
    for idx, case in enumerate(cases):
        op, args = case
        got = impl[idx]
        want = oracle(op, args)
        tys = tuple(t for t, _ in args)
        nontrivial = want not in ('illtyped', 'unsupported') and any(
            (t in NUM and abs(v) > 1) or (t == 'bytes' and len(v) > 0) or t == 'bool' for t, v in args)
        ctx.case(desc_of(case), nontrivial=nontrivial)
        ctx.count('op', op)
        ctx.count('operand types', f'{op} {" ".join(tys)}')
        ctx.count('operand size', bits_bucket(case))
        if want == 'illtyped':
            verdict = 'illtyped:' + ('rejected' if got.startswith('fail') else 'accepted(lenient typing, not judged)')
        elif want == 'unsupported':
            verdict = 'bytes-bitwise:' + ('not implemented' if got.startswith('fail') else 'returned a value (not judged)')
        elif want == 'fail':
            verdict = 'spec fail'
        elif want.endswith(' None'):
            verdict = 'spec None'
        else:
            verdict = 'spec value'
        ctx.count('verdict', verdict)
        if got.startswith('fail'):
            ctx.count('impl error class', got)
        if violated(want, got):
            key = defect_key(case, want, got)
            if key not in seen_keys:
                seen_keys.add(key)
                small = shrink(case, key)
                s_want, s_got = oracle(*small), impl_run(small)
                ctx.violation(key, f'`{snippet(*small)}` gives `{s_got}`, Michelson: `{s_want}`',
                              {'code': snippet(*small), 'observed': s_got, 'expected': s_want, 'found_as': snippet(*case)})
        if model is not None and got != model[idx]:
            ctx.mismatch('interpreter-vs-mirror', {'line': lines[idx], 'code': snippet(*case)}, got, model[idx])


def run(ctx):
    ctx.prepare_lean(extract.generate(PROP))
    quick = ctx.tier == 'quick'
    ctx.extra['rule'] = (
        'case = instruction + operands pushed with PUSH (top first); streams: (A) every instruction x every operand-type '
        'combination of {int,nat,mutez,timestamp,bytes,bool}; (B) every Michelson-typed combination x cross product of boundary '
        'values {0,+-1,127,128,255,256,2^15,2^62,2^63-1,2^63,2^64,...}; unary ops over {2^(8k)-1,2^(8k),2^(8k-1) and +-1 neighbours, '
        'k<=40 (quick) / 64 (thorough)} with both signs; (C) random cases up to 2000 bits incl. related operands (equal, off by one, '
        'near multiples); (PY) CPython primitives vs their Lean definitions. non-trivial = Michelson-typed operands with a numeric '
        'operand of magnitude > 1, a non-empty byte string or a bool')
    ctx.extra['instructions'] = BINARY + UNARY[:7] + ['BYTES;INT', 'BYTES;NAT']
    ctx.extra['operand_types'] = TYPES
    ctx.extra['not_covered'] = ['AND/OR/XOR/NOT/LSL/LSR on bytes (no implementation in pytezos)', 'BLS12-381 rows of ADD/MUL/NEG/INT (C21)']
    g = Gen(ctx.rng, 40 if quick else 64)
    n_random = int(os.environ.get('VERIF_C16_RANDOM', 7000 if quick else 600000))
    workers = min(16, os.cpu_count() or 1)
    seen_keys = set()
    pool = None
    try:
        impl_run(('ADD', [('int', 1), ('int', 1)]))      # import pytezos and build the parser once, before forking
        if workers > 1:
            pool = multiprocessing.get_context('fork').Pool(workers)
        # batches are generated in order from the one PRNG; batch k+1 runs (interpreter pool + Lean driver) while
        # batch k is judged
        with concurrent.futures.ThreadPoolExecutor(1) as executor:
            pending = launch(ctx, pool, executor, structured_cases(g, ctx.tier))
            left = n_random
            while left > 0:
                n = min(left, 50000)
                nxt = launch(ctx, pool, executor, [random_case(g) for _ in range(n)])
                judge(ctx, pending, seen_keys)
                pending = nxt
                left -= n
            judge(ctx, pending, seen_keys)
    finally:
        if pool is not None:
            pool.terminate()
            pool.join()
    # CPython primitives against their Lean definitions
    pl = py_lines(g, 1500 if quick else 60000)
    model = ctx.model(pl)
    for ln, m in zip(pl, model or [None] * len(pl)):
        got = py_probe(ln)
        ctx.count('python primitive', ln.split(' ')[0])
        ctx.evaluations += 1
        if model is not None and got != m:
            ctx.mismatch('cpython-vs-PyNum', {'line': ln}, got, m)
    ctx.assumptions += [
        'CPython int/bytes primitives (to_bytes, from_bytes, bit_length, divmod, <<, >>, &, |, ^, ~, lstrip) are re-defined in '
        'Lean (PyNum.*) from positional numerals; they are tied to CPython only by the PY_* correspondence stream',
        'PUSH, the parser and the stack discipline are not part of this property: operands are pushed with PUSH, so only values '
        'PUSH accepts are operands (nat >= 0, 0 <= mutez < 2^63); timestamps are pushed as integer literals',
        'AND/OR/XOR/NOT/LSL/LSR on `bytes` operands are typed by Michelson but have no implementation in pytezos (dispatch '
        'assertion): outside the supported set, counted under verdict `bytes-bitwise:*`, not judged and not claimed',
        'pytezos is not a type checker: it also accepts `AND nat int`, `BYTES`/`INT` on mutez and `BYTES` on timestamp (subclass '
        'tests); the mirror reproduces this and it is compared, but the oracle does not judge operand types Michelson rejects',
        'BLS12-381 rows of the ADD/MUL/NEG tables are extracted but their execution branch is outside this model (C21)',
        'speed: `Interpreter.execute` is given one shared PLY parser instance instead of building a new one per snippet '
        '(module attribute patched in-process; VERIF_C16_FRESH_PARSER=1 disables it)',
        'error classes compared: root cause AssertionError vs OverflowError of the MichelsonRuntimeError (message text ignored)',
    ]
