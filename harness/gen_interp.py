"""Type-directed generator of well-typed Michelson programs over the core instruction set modelled in
lean/PytezosModel/Michelson/Interp (C01, C02).  Programs are grown forwards from an empty stack while tracking the
stack's types; branches / loop bodies / lambdas are closed with a "fix-up" (DROP what is extra, PUSH defaults for
what is missing), so every generated program is well-typed by construction."""

ADDRS = ['tz1VSUr8wwNhLAzempoch5d6hLRiTh8Cjcjb', 'KT1BEqzn5Wx8uJrZNvuS9DVHmLvG9td3fDLi', 'tz3WMqdzXqRWXwyvj5Hp2H7QEepaUuS7vd9K',
         'tz2TSvNTh2epDMhZHrw73nV9piBX7kLZ9K9m', 'KT18amZmM5W7qDWVt2pH6uj7sCEd3kbzLrHT']
CHAINS = ['NetXdQprcVkpaWU', 'NetXynUjJNZm7wi', 'NetXSgo1ZT2DRUG']
# public keys of the three curves and their hashes (HASH_KEY must map KEYS[i] to KEY_HASHES[i]); the last hashes have no key here
KEYS = ['edpktmbdMY3CZ5NsojummD3y23UVtPDq1aAXdxeiFqtqNqpwBF132W', 'edpkubJb1vpdePjHQJk7fXu84P3S3G49EA6JgPKMCBqCuRDw6tHQqp',
        'sppk7d8JtF7QDQoXAN5JQiJrZhqEJ8a2wNscNZKBLX8HemhEE6wuxgk', 'sppk7b9JHPD8Pxa9dkNHqeDgGtzXAPkPJZwpym1hp86Bz7BFRFiR7Tn',
        'p2pk65F8uLw4Qt6f1gJqgs4AFV4DCqyDPsT8aGD6Em7BFvwSRLLvWgV', 'p2pk66qUgMdo3pGFVogQT5YeEfxfhH3ky3oPy2fAimzX3XKGRU7C6yD']
KEY_HASHES = ['tz1bsdUtmpeQuTPeNiVksrvuyLzrjHU6LLXG', 'tz1cWk3eUkCuPAUrzFy9dJi5BrYowN9UT3jN', 'tz2LFUcTeBvgqeo1R9M9ZXu591KyDjPhwsJA',
              'tz2M2G5a2G8Qz8y4KpbWaiegjBXxr4LhsRwd', 'tz3SU9RJf9oezj1gurJa8zMyYVPk4wfEumsd', 'tz3h2Y9cfvbbFNjLpmsvsj948vm37WiV2vbQ',
              'tz1VSUr8wwNhLAzempoch5d6hLRiTh8Cjcjb', 'tz3WMqdzXqRWXwyvj5Hp2H7QEepaUuS7vd9K']
SIMPLE = [('unit',), ('bool',), ('int',), ('nat',), ('mutez',), ('timestamp',), ('string',), ('bytes',), ('address',), ('chain_id',),
          ('key_hash',), ('key',)]
# parameter sections of the running contract: (name, type expression with entrypoint annotations, entrypoint -> type)
_A = lambda prim, ann, *args: {'prim': prim, 'annots': ['%' + ann], **({'args': list(args)} if args else {})}
PARAMETERS = [
    ('unit', {'prim': 'unit'}, {'default': ('unit',)}),
    ('or-add-name', {'prim': 'or', 'args': [_A('nat', 'add'), _A('string', 'name')]},
     {'default': ('or', ('nat',), ('string',)), 'add': ('nat',), 'name': ('string',)}),
    ('nested', {'prim': 'or', 'args': [{'prim': 'or', 'args': [_A('unit', 'a'), _A('int', 'b')]}, _A('pair', 'c', {'prim': 'nat'}, {'prim': 'bool'})]},
     {'default': ('or', ('or', ('unit',), ('int',)), ('pair', ('nat',), ('bool',))), 'a': ('unit',), 'b': ('int',), 'c': ('pair', ('nat',), ('bool',))}),
]
KT_ADDRS = ['KT1BEqzn5Wx8uJrZNvuS9DVHmLvG9td3fDLi', 'KT18amZmM5W7qDWVt2pH6uj7sCEd3kbzLrHT']
TZ_ADDRS = ['tz1VSUr8wwNhLAzempoch5d6hLRiTh8Cjcjb', 'tz3WMqdzXqRWXwyvj5Hp2H7QEepaUuS7vd9K', 'tz2TSvNTh2epDMhZHrw73nV9piBX7kLZ9K9m']
HASH_PRIMS = ['BLAKE2B', 'SHA256', 'SHA512', 'KECCAK', 'SHA3']
SET_ELT = [('int',), ('nat',), ('string',), ('bytes',), ('bool',), ('mutez',), ('timestamp',)]
COMPARABLE = [('int',), ('nat',), ('string',), ('bytes',), ('bool',), ('mutez',), ('timestamp',)]


def ty_mich(t):
    if len(t) == 1:
        return {'prim': t[0]}
    return {'prim': t[0], 'args': [ty_mich(a) for a in t[1:]]}


def ty_from_mich(m):
    return (m['prim'], *[ty_from_mich(a) for a in m.get('args', [])])


def pushable(t):
    """can a value of this type be written as a PUSH literal (no contract / operation outside a lambda's signature)"""
    if t[0] in ('contract', 'operation', 'never', 'big_map'):
        return False
    if t[0] == 'lambda':
        return True
    return all(pushable(a) for a in t[1:])


def packable(t):
    """the packable types of the model: the plain data classes"""
    if t[0] in ('unit', 'bool', 'int', 'nat', 'mutez', 'timestamp', 'string', 'bytes'):
        return True
    if t[0] in ('option', 'list', 'set', 'or', 'pair', 'map'):
        return all(packable(a) for a in t[1:])
    return False


# ---- binary Micheline of data expressions, written here (not pytezos' forge): the UNPACK idiom builds its inputs with it --------
DATA_TAGS = {'False': 3, 'Elt': 4, 'Left': 5, 'None': 6, 'Pair': 7, 'Right': 8, 'Some': 9, 'True': 10, 'Unit': 11}


def zarith(v):
    """signed zarith: 6 bits + sign bit in the first byte, then groups of 7 bits, high bit = more"""
    a, out = abs(v), bytearray()
    first = (a & 0x3f) | (0x40 if v < 0 else 0)
    a >>= 6
    out.append(first | (0x80 if a else 0))
    while a:
        g = a & 0x7f
        a >>= 7
        out.append(g | (0x80 if a else 0))
    return bytes(out)


def _len4(b):
    return len(b).to_bytes(4, 'big')


def forge_data(m):
    """binary Micheline of a data expression (JSON shape; `raw`: bytes pasted as they are, `text`: a string node given as bytes,
    `tag`: a primitive given by its tag byte)"""
    if isinstance(m, list):
        body = b''.join(forge_data(x) for x in m)
        return b'\x02' + _len4(body) + body
    if 'raw' in m:
        return m['raw']
    if 'int' in m:
        return b'\x00' + zarith(int(m['int']))
    if 'string' in m:
        return b'\x01' + _len4(m['string'].encode()) + m['string'].encode()
    if 'text' in m:
        return b'\x01' + _len4(m['text']) + m['text']
    if 'bytes' in m:
        b = bytes.fromhex(m['bytes'])
        return b'\x0a' + _len4(b) + b
    tag = m['tag'] if 'tag' in m else DATA_TAGS[m['prim']]
    args, annots = m.get('args', []), m.get('annots')
    n = len(args)
    if n < 3:
        head = bytes([3 + 2 * n + (1 if annots is not None else 0), tag]) + b''.join(forge_data(a) for a in args)
        return head + (_len4(annots) + annots if annots is not None else b'')
    body = b''.join(forge_data(a) for a in args)
    an = annots or b''
    return bytes([9, tag]) + _len4(body) + body + _len4(an) + an


def scan_texts(data):
    """the string nodes of a well-delimited binary Micheline expression (b'' if it does not parse): the texts that can reach the
    timestamp reader when `data` is unpacked"""
    out = []

    def arr(p):
        if p + 4 > len(data):
            raise ValueError
        n = int.from_bytes(data[p:p + 4], 'big')
        if p + 4 + n > len(data):
            raise ValueError
        return data[p + 4:p + 4 + n], p + 4 + n

    def seq(p):
        body, end = arr(p)
        p += 4
        while p < end:
            p = node(p)
        if p != end:
            raise ValueError
        return p

    def node(p):
        tag = data[p]
        p += 1
        if tag == 0:
            while data[p] & 0x80:
                p += 1
            return p + 1
        if tag in (1, 10):
            v, q = arr(p)
            if tag == 1:
                out.append(v)
            return q
        if tag == 2:
            return seq(p)
        if 3 <= tag <= 9:
            n, an = (tag - 3) // 2, (tag - 3) % 2 == 1
            p += 1
            if n == 3:
                p = seq(p)
            else:
                for _ in range(n):
                    p = node(p)
            if an or n == 3:
                _, p = arr(p)
            return p
        raise ValueError

    try:
        if node(0) != len(data):
            return []
    except (ValueError, IndexError):
        return []
    return out


def texts_of(code):
    """every text of a program that could be read as a timestamp by an UNPACK: the string literals (PACK turns them into string
    nodes) and the string nodes inside the byte literals that start with 05"""
    out = set()

    def walk(x):
        if isinstance(x, list):
            for y in x:
                walk(y)
        elif isinstance(x, dict):
            if 'string' in x:
                out.add(x['string'].encode())
            elif 'bytes' in x:
                b = bytes.fromhex(x['bytes'])
                if b[:1] == b'\x05':
                    out.update(scan_texts(b[1:]))
            for y in x.get('args', []):
                walk(y)
    walk(code)
    return sorted(out)


def unpackable(t):
    """the types UNPACK is modelled for: packable, sets / maps keyed by a simple comparable type"""
    if t[0] in ('unit', 'bool', 'int', 'nat', 'mutez', 'timestamp', 'string', 'bytes'):
        return True
    if t[0] in ('option', 'list'):
        return unpackable(t[1])
    if t[0] == 'set':
        return t[1] in SET_ELT or t[1] == ('unit',)
    if t[0] in ('or', 'pair'):
        return unpackable(t[1]) and unpackable(t[2])
    if t[0] == 'map':
        return (t[1] in SET_ELT or t[1] == ('unit',)) and unpackable(t[2])
    return False


# ---- CHECK_SIGNATURE: keys of the three curves with signatures made once with pytezos (`Key.generate` / `Key.sign`; the secret keys
# are not kept) over the messages SIG_MSGS, plus a generic (`sig…`) signature of b'abc' per key --------------------------------
SIG_MSGS = ['', '00', '616263', '000102030405060708090a0b0c0d0e0f101112131415161718191a1b1c1d1e1f', '050005', '78' * 200]
SIG_KEYS = [
    ('edpkuHyjad2vs9m2xtDyjiJF7Xfa5RecdU4gfYNzRZhqjQ59gjYzpk',
     ['edsigtxdge6FHbHxp6J7mznGKPVRbGAzBhLxEW8FMv84t8ykQ3deWxJtFnZGtboAr2q5fQwr9zAQrGvuLJn19AaCLcdGprF9tnn',
      'edsigtdUsfnz9UP8TibvL5yy8ZQpQo5vsRtk539Ma7W638eFjaVGwxyDnPqwek2AwshJBXkiP5t3kCh4nH4gvAyHymnRj7AGHuJ',
      'edsigtb3yWsfzFGQ5U6nSTQRCcZwEkjqJg3R8xkjxsestoW4MJcFvXBxJbjVqwWVzCyWj2sqoBS1z1cpF7sYDGydDRMVfJAmbRX',
      'edsigtzS2pkUDS9ThpKoQ22uh4yBHVHtTtSbgWvzquMPrn8KSpbW3k4q7SJr56rjR3mtArSQWPj18qmM14YFhwuht7YSDgTAcja',
      'edsigtpepsNfPuVVKtr5bDmZGpEYXK1ktxwQ6G4ieSddE4PYASeSr7o9zBH6hAUDSa4oVrBYhQ1nofb613zCYJuXGzCTBGfyjME',
      'edsigtoMdfhweig7zBSvFhcb9W1TBvLpCnWyYsr82RCqYatpWzQbxr5TzeP4ytonzh8XM5e9fCs7Yp5sgP3PagTAcgCzNDVRYQX'],
     'sigREWPpT5yLD3Quo9KNa1fGeiyukNhQYYb4zE9JsuoA3PznKL2J3DWgFvtutC7WLNbLNBFvEdAzrUP5W1cqHFEJRZQhPcB4'),
    ('sppk7art2y9zXhRTa9WBqd9TAbi6hbp8S4QzY8KCxgarWiHAV1oVqko',
     ['spsig17yJa15qwSR8ATK6YeWmEMG1hYtbEcNLtwG1QC6S3YynqidzM9faKdAqEqJ2MZ3UjEHz6UHgMvWQ1sRVMG45diyJXq7BWv',
      'spsig1D4vgjWj3kERUPFegTddpLppRKQeAwLBPsJJPW5XdXnmwDJqd5pgu1ZUu58pQT2i9rUJvTNvkmH39odjtKt5w2Y2nxhwP2',
      'spsig1TU6ftFnc1jRZUNrUChXp6kCphF3YY6DdiDt1JL3rtjTEmN6j6RsEziUX4uWYZbEQojoCJDxXDdsjiKqgPjUMauTfQqeS1',
      'spsig1YfyXk18qvffXXYCKH1n5xpD7qPEfAiJX5cpoH7cfw5B27ep34FCLNW2m4G1DXJHNeDnNV9tU2ZY5GnXXfwMGGRoEQbXRj',
      'spsig1WV7kKJSJAPDbk4kwaKxTwhzwEqDsbyWSDeDZwqV44iDbVgpzNLkwfXUyLjE5wigPQt9wjCZHQvmowKpxHfsY8mZchFd6G',
      'spsig1VZ1eB4zg9j8CZy6wbC7Kw8mgpqD3xDFLzvUDyV7R2poGnkVrfJWm7rdGzCSFNggUJCSJguBJe4WUUCqnNjCRYUnP67zC5'],
     'sigjeRLpeY8fmHBJP6W49PAC4pusTUUUTXA96ZEWAk3zojohiHYXMVHsEcphLRVAXNL5zeTLNL65V9eRcjAX3ySNNM64tKYJ'),
    ('p2pk666QNz4G9f9wXU8tv7giEjEy81X4tp6ypeyHEiSEiMwqBEsJWQM',
     ['p2sigQpptgPLHeLgntL5giZKwb6ZNnmQbhpiR5R2XshZLGYoKMRLJBnEzQfJDN9fFpAX7JT4TVWtALeT3FsadusDQAgiq4yTvC',
      'p2sigh4JX86C5xERCRP9fCHEGQWsdZJhyJPAkVLr4VwZibryvoM5Mk1eQS9V8XGRZ6LPojbvc7jXbuYL7isWmQHnf7Mwmd31Kn',
      'p2sigbFzAMD3fetws73T1PBBs8PGHSptDvEGYYTy6RZtENWg6wCeSUnjqYqPz9VWT2SD1VtUnVCzNHSaVpHKnnV3oYK63oHoJx',
      'p2sigQEE5WqbZMJi1E6f7fJytL3BxwZoJg5yUCUcJy7XNZWKFWj6rSWvmuTGHKG2SYpppc9hWn1guUd5N1VZRM1KxnPK8cZrU8',
      'p2sigpkbxprTFgd44LQKKZTRE7L4Mm6Qvdz57Hj5Cf7LiC6Hxz8pLaH5x5ezTQP9jXmcJhqqfTHs55NMXtGjGc4gVc3DUGnYMe',
      'p2sigdZuFiLnmYsfW8ntfy7nygeZqDNptWYxdFUoyrkjejADZEem47PyRk69K2Mw4uZKc79B2FqgH49bD1yUfzUe8K1pnqHJ4S'],
     'sigbwmKG7VaBxuQAngkfaf5cvUu4AexporL6h7i27SwA4PZPvs86jecGeygxYzDbEdgsrxmQy42nVG8RbQ4C2rNGck8Aj5rN'),
    ('edpktsomPTFRruCKe5ZhVTRsbqpV27r5LwEZMKGk16mmqriM1N8ZiS',
     ['edsigtiUXL7Qj6FP1aqLVgzUpjPG7pUY6TE5Cr2xyYKRq2XpvSjdSjtHKfvNhLwYYd2tb8xHbhnEgaYmFk77qneCP9TTGfGLvrX',
      'edsigtgittSXoxoMTpCXFibeKTcpmA4LRFir9bxTDHJQAf8iBD5EDboE4H9ZYN2LpS7Csozu82rYFHbFfBhsdzgu7p8nw9W8JHH',
      'edsigtu1Z9dDPgTC137B64vtiwDApGyAZa323ggYdcHtqN8eWNEDJSkdwVEWHkWDzX9LSgzmQE2dCR7wzR6f1CU2RM5iWujgc3M',
      'edsigtpVvWzncwUqnWWLHWTtPhEtueN8ymbetrQ5YexC4EDdzdhDa3dmJC9CLJ2rF26r8YKeVo4WFRD3zsF1A1YfuyH7zY1msF7',
      'edsigtcPFM7wGr4HuuUcoNa1qJkoZ9WtogmixRTFjCiYzsZu7dXUJjiWBRo8cfPdeLpjVsWfzqpRPUBu6ztwvqXoNvjDKQsV735',
      'edsigtuyujxjxWn1si3zo8HpjyeEJ3nL5UiWV6WiCHH6jDpRiiyQSrHHBtjx2pBYAxB5UKH6AohjriHNoAddeSPunCxngY95dVJ'],
     'sigjC62ZzVQWzxyvBnvu3XyutJW95dbQ9TJzntswtrMndZ4QGhwrirQBGNhucCRgA6FTHnJWqqaVzDgJcoYKgTA2eR5XZ6XL'),
]
SIG_ALTERED = ['01', '616264', '61626300', '0500 05'.replace(' ', '') + '00', 'ff' + SIG_MSGS[3][2:]]      # messages nobody signed
SIG_KNOWN_MSGS = set(SIG_MSGS) | set(SIG_ALTERED)


def sig_triples(code):
    """the (key, signature, message) triples a CHECK_SIGNATURE of the program can meet: every key literal x signature literal x
    message of the idiom's message set that occurs as a bytes literal (or is packed: `PUSH nat 5 ; PACK` is 0x050005)"""
    keys, sigs, msgs = set(), set(), set()

    def walk(x):
        if isinstance(x, list):
            for i, y in enumerate(x):
                walk(y)
                if (isinstance(y, dict) and y.get('prim') == 'PACK' and i and isinstance(x[i - 1], dict) and x[i - 1].get('prim') == 'PUSH'
                        and 'int' in x[i - 1]['args'][1]):
                    msgs.add((b'\x05' + forge_data(x[i - 1]['args'][1])).hex())
        elif isinstance(x, dict):
            if 'string' in x:
                v = x['string']
                if v[:4] in ('edpk', 'sppk', 'p2pk'):
                    keys.add(v)
                elif v[:5] in ('edsig', 'spsig', 'p2sig') or v[:3] == 'sig':
                    sigs.add(v)
            elif 'bytes' in x and x['bytes'].lower() in SIG_KNOWN_MSGS:
                msgs.add(x['bytes'].lower())
            for y in x.get('args', []):
                walk(y)
    walk(code)
    return [(k, s, m) for k in sorted(keys) for s in sorted(sigs) for m in sorted(msgs & SIG_KNOWN_MSGS)]


def comb_leaves(t):
    """component types along the right spine of a pair type (a non-pair is its own single leaf)"""
    out = []
    while t[0] == 'pair':
        out.append(t[1])
        t = t[2]
    return out + [t]


def comb_of(ts):
    """right-comb type of >= 2 component types"""
    return ts[0] if len(ts) == 1 else ('pair', ts[0], comb_of(ts[1:]))


def get_n_ty(n, t):
    """type of `GET n` on a value of type t (None = ill-typed): 0 -> whole, 2k+1 -> k CDRs then CAR, 2k -> k CDRs"""
    while n >= 2:
        if t[0] != 'pair':
            return None
        t, n = t[2], n - 2
    if n == 0:
        return t
    return t[1] if t[0] == 'pair' else None


def update_n_ty(n, e, t):
    if n == 0:
        return e
    if t[0] != 'pair':
        return None
    if n == 1:
        return ('pair', e, t[2])
    r = update_n_ty(n - 2, e, t[2])
    return None if r is None else ('pair', t[1], r)


class Gen:
    def __init__(self, rng, max_depth=3):
        self.rng = rng
        self.max_depth = max_depth
        self.used = {}
        self.shapes = {}
        self.entrypoints = PARAMETERS[0][2]
        self.in_lambda = 0      # SELF is not allowed inside a lambda

    def shape(self, key):
        """boundary shapes chosen by the generator (goes into the evidence)"""
        self.shapes[key] = self.shapes.get(key, 0) + 1

    # ---------------------------------------------------------------- types and values
    def gen_type(self, depth=2, comparable=False):
        r = self.rng
        if depth <= 0 or r.random() < 0.45:
            return r.choice(COMPARABLE if comparable else SIMPLE)
        k = r.randrange(7)
        if comparable:
            return r.choice(COMPARABLE)
        if k == 0:
            return ('option', self.gen_type(depth - 1))
        if k == 1:
            return ('or', self.gen_type(depth - 1), self.gen_type(depth - 1))
        if k == 2:
            return ('pair', self.gen_type(depth - 1), self.gen_type(depth - 1))
        if k == 3:
            return ('list', self.gen_type(depth - 1))
        if k == 4:
            return ('map', self.gen_key_type(), self.gen_type(depth - 1))
        if k == 5 and depth >= 2:
            return ('lambda', self.gen_type(depth - 2), self.gen_type(depth - 2))
        if k == 6:
            return ('set', r.choice(SET_ELT))
        return r.choice(SIMPLE)

    KEY_LEAVES = [('int',), ('nat',), ('string',), ('bytes',)]

    def gen_key_type(self, depth=2):
        """key type of a map: a simple comparable type, or a composite one (pair / option / or of key types)"""
        r = self.rng
        if depth <= 0 or r.random() < 0.5:
            return r.choice(self.KEY_LEAVES + ([('bool',)] if depth < 2 else []))
        k = r.randrange(4)
        if k <= 1:
            return ('pair', self.gen_key_type(depth - 1), self.gen_key_type(depth - 1))
        if k == 2:
            return ('option', self.gen_key_type(depth - 1))
        return ('or', self.gen_key_type(depth - 1), self.gen_key_type(depth - 1))

    def gen_int(self, nat=False, small=False):
        r = self.rng
        k = r.randrange(6)
        if small or k < 3:
            v = r.randrange(0, 6)
        elif k == 3:
            v = r.choice([127, 128, 255, 256, 2**31, 2**63 - 1, 2**63, 2**64, 2**200])
        else:
            v = r.getrandbits(r.choice([8, 16, 70]))
        if not nat and r.random() < 0.4:
            v = -v
        return v

    def gen_value(self, t, depth=2):
        r = self.rng
        p = t[0]
        if p == 'unit':
            return {'prim': 'Unit'}
        if p == 'bool':
            return {'prim': r.choice(['True', 'False'])}
        if p == 'int':
            return {'int': str(self.gen_int())}
        if p == 'nat':
            return {'int': str(self.gen_int(nat=True))}
        if p == 'mutez':
            return {'int': str(min(self.gen_int(nat=True), r.choice([2**63 - 1, 10**6, 2**62])))}
        if p == 'timestamp':
            return {'int': str(self.gen_int())}
        if p == 'string':
            return {'string': ''.join(r.choice('abcXYZ 019_') for _ in range(r.choice([0, 1, 2, 5])))}
        if p == 'bytes':
            return {'bytes': r.bytes_(r.choice([0, 1, 2, 5])).hex()}
        if p == 'address':
            return {'string': r.choice(ADDRS)}
        if p == 'chain_id':
            return {'string': r.choice(CHAINS)}
        if p == 'key_hash':
            return {'string': r.choice(KEY_HASHES)}
        if p == 'key':
            return {'string': r.choice(KEYS)}
        if p == 'signature':
            return {'string': r.choice(r.choice(SIG_KEYS)[1])}
        if p == 'option':
            if r.random() < 0.35:
                return {'prim': 'None'}
            return {'prim': 'Some', 'args': [self.gen_value(t[1], depth - 1)]}
        if p == 'or':
            if r.random() < 0.5:
                return {'prim': 'Left', 'args': [self.gen_value(t[1], depth - 1)]}
            return {'prim': 'Right', 'args': [self.gen_value(t[2], depth - 1)]}
        if p == 'pair':
            return {'prim': 'Pair', 'args': [self.gen_value(t[1], depth - 1), self.gen_value(t[2], depth - 1)]}
        if p == 'list':
            return [self.gen_value(t[1], depth - 1) for _ in range(r.choice([0, 0, 1, 2, 3]))]
        if p == 'set':
            return self.distinct_sorted_keys(t[1], r.choice([0, 0, 1, 2, 3, 5]))
        if p == 'map':
            keys = self.distinct_sorted_keys(t[1], r.choice([0, 0, 1, 2, 3]))
            return [{'prim': 'Elt', 'args': [k, self.gen_value(t[2], depth - 1)]} for k in keys]
        if p == 'lambda':
            self.in_lambda += 1
            try:
                return self.body_to([t[1]], [t[2]], r.choice([0, 1, 2]), depth=0)
            finally:
                self.in_lambda -= 1
        raise ValueError(t)

    def gen_key(self, kt):
        """(sort key, Micheline) of a random value of comparable type kt; sort keys order like Michelson COMPARE"""
        r = self.rng
        p = kt[0]
        if p in ('int', 'nat', 'timestamp'):
            v = self.gen_int(nat=p == 'nat', small=r.random() < 0.7)
            return v, {'int': str(v)}
        if p == 'mutez':
            v = r.choice([0, 1, 2, 3, 5, 10**6, 2**62, 2**63 - 1])
            return v, {'int': str(v)}
        if p == 'string':
            v = ''.join(r.choice('abc') for _ in range(r.randrange(0, 4)))
            return v.encode(), {'string': v}
        if p == 'bytes':
            v = r.bytes_(r.randrange(0, 3))
            return v, {'bytes': v.hex()}
        if p == 'bool':
            v = r.random() < 0.5
            return v, {'prim': 'True' if v else 'False'}
        if p == 'pair':
            (ka, a), (kb, b) = self.gen_key(kt[1]), self.gen_key(kt[2])
            return (ka, kb), {'prim': 'Pair', 'args': [a, b]}
        if p == 'option':
            if r.random() < 0.3:
                return (0,), {'prim': 'None'}
            ka, a = self.gen_key(kt[1])
            return (1, ka), {'prim': 'Some', 'args': [a]}
        if p == 'or':
            if r.random() < 0.5:
                ka, a = self.gen_key(kt[1])
                return (0, ka), {'prim': 'Left', 'args': [a]}
            kb, b = self.gen_key(kt[2])
            return (1, kb), {'prim': 'Right', 'args': [b]}
        raise ValueError(kt)

    def distinct_sorted_keys(self, kt, n):
        ks = {}
        tries = 0
        while len(ks) < n and tries < 50:   # small key spaces (bool, option bool) may hold fewer than n values
            tries += 1
            k, m = self.gen_key(kt)
            ks.setdefault(k, m)
        return [ks[k] for k in sorted(ks)]

    def default_value(self, t):
        p = t[0]
        table = {
            'unit': {'prim': 'Unit'}, 'bool': {'prim': 'False'}, 'int': {'int': '0'}, 'nat': {'int': '0'}, 'mutez': {'int': '0'},
            'timestamp': {'int': '0'}, 'string': {'string': ''}, 'bytes': {'bytes': ''}, 'address': {'string': ADDRS[0]},
            'chain_id': {'string': CHAINS[0]}, 'option': {'prim': 'None'}, 'list': [], 'map': [], 'set': [],
            'key_hash': {'string': KEY_HASHES[0]}, 'key': {'string': KEYS[0]}, 'signature': {'string': SIG_KEYS[0][1][0]},
        }
        if p in table:
            return table[p]
        if p == 'or':
            return {'prim': 'Left', 'args': [self.default_value(t[1])]}
        if p == 'pair':
            return {'prim': 'Pair', 'args': [self.default_value(t[1]), self.default_value(t[2])]}
        return self.fixup([t[1]], [t[2]])

    # ---------------------------------------------------------------- programs
    def push(self, t, v=None):
        return {'prim': 'PUSH', 'args': [ty_mich(t), self.gen_value(t) if v is None else v]}

    def fixup(self, st, target):
        """code turning stack `st` into `target` (both top-first)"""
        k = 0
        while k < len(st) and k < len(target) and st[len(st) - 1 - k] == target[len(target) - 1 - k]:
            k += 1
        code = []
        extra = len(st) - k
        if extra == 1:
            code.append({'prim': 'DROP'})
        elif extra > 1:
            code.append({'prim': 'DROP', 'args': [{'int': str(extra)}]})
        for t in reversed(target[:len(target) - k]):
            code += self.produce(t)
        return code

    def produce(self, t):
        """code leaving one value of type `t` on the stack: a PUSH where the type is pushable, instructions otherwise"""
        P = lambda prim, *args: {'prim': prim, 'args': list(args)} if args else {'prim': prim}
        if pushable(t):
            return [P('PUSH', ty_mich(t), self.default_value(t))]
        p = t[0]
        if p == 'operation':
            return [P('NONE', ty_mich(('key_hash',))), P('SET_DELEGATE')]
        if p == 'contract':
            if t[1] == ('unit',):
                return [P('PUSH', ty_mich(('key_hash',)), {'string': KEY_HASHES[0]}), P('IMPLICIT_ACCOUNT')]
            return [P('PUSH', ty_mich(('address',)), {'string': KT_ADDRS[1]}), P('CONTRACT', ty_mich(t[1])),
                    P('IF_NONE', [P('PUSH', ty_mich(('string',)), {'string': 'no contract'}), P('FAILWITH')], [])]
        if p == 'option':
            return [P('NONE', ty_mich(t[1]))]
        if p == 'list':
            return [P('NIL', ty_mich(t[1]))]
        if p == 'map':
            return [P('EMPTY_MAP', ty_mich(t[1]), ty_mich(t[2]))]
        if p == 'big_map':
            return [P('EMPTY_BIG_MAP', ty_mich(t[1]), ty_mich(t[2]))]
        if p == 'pair':
            return self.produce(t[2]) + self.produce(t[1]) + [P('PAIR')]
        if p == 'or':
            if t[1] != ('never',):
                return self.produce(t[1]) + [P('LEFT', ty_mich(t[2]))]
            return self.produce(t[2]) + [P('RIGHT', ty_mich(t[1]))]
        raise ValueError(t)

    def body_to(self, st, target, n, depth):
        code, st2, dead = self.body(list(st), n, depth)
        if dead:
            return code
        return code + self.fixup(st2, list(target))

    def note(self, prim):
        self.used[prim] = self.used.get(prim, 0) + 1

    def body(self, st, n, depth):
        """free body: returns (code, resulting stack types, ends_in_FAILWITH)"""
        code = []
        for _ in range(n):
            ins, st = self.instr(st, depth)
            code += ins
        return code, st, False

    def branch(self, st, target, depth):
        """an IF-like branch from `st` to `target`; sometimes ends in FAILWITH instead"""
        r = self.rng
        n = r.choice([0, 1, 1, 2, 3])
        if r.random() < 0.08:
            code, st2, _ = self.body(list(st), n, depth)
            if st2:
                self.note('FAILWITH')
                return code + [{'prim': 'FAILWITH'}]
            return code + [self.push(('string',)), {'prim': 'FAILWITH'}]
        return self.body_to(st, target, n, depth)

    def instr(self, st, depth):
        """one applicable instruction (possibly a short idiom) for stack types `st`; returns (code, new st)"""
        r = self.rng
        cands = []

        def add(w, name, f):
            cands.append((w, name, f))

        top = st[0] if st else None
        snd = st[1] if len(st) > 1 else None
        # ---- producers
        add(4, 'PUSH', lambda: self._push_any(st))
        add(1, 'UNIT', lambda: ([{'prim': 'UNIT'}], [('unit',)] + st))
        add(1, 'NONE', lambda: self._typed1(st, 'NONE', lambda t: ('option', t)))
        add(1, 'NIL', lambda: self._typed1(st, 'NIL', lambda t: ('list', t)))
        add(1, 'EMPTY_MAP', lambda: self._empty_map(st))
        add(1.5, 'ENV', lambda: self._env(st))
        add(2, 'HASH', lambda: self._hash_idiom(st))
        add(2, 'COMB', lambda: self._comb_idiom(st))
        add(3, 'ARITH', lambda: self._arith_idiom(st))
        add(4, 'COLL', lambda: self._coll_idiom(st, depth))
        add(0.5, 'EMPTY_SET', lambda: self._empty_set(st))
        add(1.6, 'CONV', lambda: self._conv_idiom(st))
        add(0.9, 'KEYS', lambda: self._key_idiom(st))
        add(2.2, 'CONTRACTS', lambda: self._contract_idiom(st))
        add(1.6, 'PACKING', lambda: self._pack_idiom(st))
        add(2.0, 'UNPACKING', lambda: self._unpack_idiom(st))
        add(0.9, 'SIGNATURES', lambda: self._checksig_idiom(st))
        add(1.6, 'BIGMAPS', lambda: self._bigmap_idiom(st))
        if not self.in_lambda:
            add(0.6, 'SELF', lambda: self._self(st))
        if depth > 0:
            add(0.8, 'NEVER', lambda: self._never_idiom(st, depth))
        if depth > 0:
            add(1, 'LAMBDA', lambda: self._lambda(st, depth))
        res = None
        if st:
            add(2, 'DROP', lambda: ([{'prim': 'DROP'}], st[1:]))
            add(3, 'DUP', lambda: ([{'prim': 'DUP'}], [top] + st))
            add(2, 'SOME', lambda: ([{'prim': 'SOME'}], [('option', top)] + st[1:]))
            add(0.7, 'RENAME', lambda: ([{'prim': 'RENAME'}], st))
            add(0.7, 'CAST', lambda: ([{'prim': 'CAST', 'args': [ty_mich(top)]}], st))
            if top[0] == 'bytes':
                hp = r.choice(HASH_PRIMS)
                add(5, 'HASH', lambda: ([{'prim': hp}], st))
            add(1, 'LEFT', lambda: self._lr(st, 'LEFT'))
            add(1, 'RIGHT', lambda: self._lr(st, 'RIGHT'))
            if depth > 0:
                add(2, 'DIP', lambda: self._dip(st, 1, depth))
            add(0.2, 'GETN', lambda: self._getn(st))
            if top[0] == 'pair':
                add(2, 'GETN', lambda: self._getn(st))
                add(2, 'UNPAIRN', lambda: self._unpairn(st))
                add(3, 'CAR', lambda: ([{'prim': 'CAR'}], [top[1]] + st[1:]))
                add(3, 'CDR', lambda: ([{'prim': 'CDR'}], [top[2]] + st[1:]))
                add(3, 'UNPAIR', lambda: ([{'prim': 'UNPAIR'}], [top[1], top[2]] + st[1:]))
            if top[0] == 'bool':
                add(2, 'NOT', lambda: ([{'prim': 'NOT'}], st))
                if depth > 0:
                    add(4, 'IF', lambda: self._if('IF', st[1:], st[1:], depth))
            if top[0] in ('int', 'nat'):
                add(1, 'NOT', lambda: ([{'prim': 'NOT'}], [('int',)] + st[1:]))
                add(2, 'NEG', lambda: ([{'prim': 'NEG'}], [('int',)] + st[1:]))
            if top[0] == 'int':
                add(2, 'ABS', lambda: ([{'prim': 'ABS'}], [('nat',)] + st[1:]))
                add(2, 'ISNAT', lambda: ([{'prim': 'ISNAT'}], [('option', ('nat',))] + st[1:]))
                op = r.choice(['EQ', 'NEQ', 'LT', 'GT', 'LE', 'GE'])
                add(3, 'EQ..', lambda: ([{'prim': op}], [('bool',)] + st[1:]))
            if top[0] == 'nat':
                add(2, 'INT', lambda: ([{'prim': 'INT'}], [('int',)] + st[1:]))
            if top[0] in ('int', 'nat'):
                add(2, 'BYTES', lambda: ([{'prim': 'BYTES'}], [('bytes',)] + st[1:]))
            if top[0] == 'bytes':
                cv = r.choice(['INT', 'NAT'])
                add(3, cv, lambda: ([{'prim': cv}], [('int',) if cv == 'INT' else ('nat',)] + st[1:]))
            if top[0] == 'key':
                add(6, 'HASH_KEY', lambda: ([{'prim': 'HASH_KEY'}], [('key_hash',)] + st[1:]))
            if top[0] == 'key_hash':
                add(6, 'VOTING_POWER', lambda: ([{'prim': 'VOTING_POWER'}], [('nat',)] + st[1:]))
                add(5, 'IMPLICIT_ACCOUNT', lambda: ([{'prim': 'IMPLICIT_ACCOUNT'}], [('contract', ('unit',))] + st[1:]))
            if top == ('option', ('key_hash',)):
                add(8, 'SET_DELEGATE', lambda: ([{'prim': 'SET_DELEGATE'}], [('operation',)] + st[1:]))
            if packable(top):
                add(1.5, 'PACK', lambda: ([{'prim': 'PACK'}], [('bytes',)] + st[1:]))
            if top[0] == 'contract':
                add(8, 'ADDRESS', lambda: ([{'prim': 'ADDRESS'}], [('address',)] + st[1:]))
            if top[0] == 'address':
                add(5, 'CONTRACT', lambda: self._contract_instr(st))
            if pushable(top) and top[0] != 'lambda':
                add(0.6, 'EMIT', lambda: self._emit(st))
            if len(st) >= 3 and st[1] == ('mutez',) and st[2] == ('contract', top):
                add(20, 'TRANSFER_TOKENS', lambda: ([{'prim': 'TRANSFER_TOKENS'}], [('operation',)] + st[3:]))
            if top[0] == 'option' and depth > 0:
                add(4, 'IF_NONE', lambda: self._if('IF_NONE', st[1:], [top[1]] + st[1:], depth))
            if top[0] == 'or' and depth > 0:
                add(4, 'IF_LEFT', lambda: self._if('IF_LEFT', [top[1]] + st[1:], [top[2]] + st[1:], depth))
                add(2, 'LOOP_LEFT', lambda: self._loop_left(st, depth))
            if top[0] == 'list':
                add(2, 'SIZE', lambda: ([{'prim': 'SIZE'}], [('nat',)] + st[1:]))
                if depth > 0:
                    add(4, 'IF_CONS', lambda: self._if('IF_CONS', [top[1], top] + st[1:], st[1:], depth))
                    add(4, 'ITER', lambda: self._iter(st, top[1], depth))
                    add(5, 'MAP', lambda: self._map(st, top, top[1], depth))
                if top[1][0] in ('string', 'bytes'):
                    add(3, 'CONCAT', lambda: ([{'prim': 'CONCAT'}], [top[1]] + st[1:]))
            if top[0] == 'set':
                add(2, 'SIZE', lambda: ([{'prim': 'SIZE'}], [('nat',)] + st[1:]))
                if depth > 0:
                    add(4, 'ITER', lambda: self._iter(st, top[1], depth))
            if top[0] == 'map':
                add(2, 'SIZE', lambda: ([{'prim': 'SIZE'}], [('nat',)] + st[1:]))
                if depth > 0:
                    add(4, 'ITER', lambda: self._iter(st, ('pair', top[1], top[2]), depth))
                    add(5, 'MAP', lambda: self._map(st, top, ('pair', top[1], top[2]), depth))
            if top[0] in ('string', 'bytes'):
                add(2, 'SIZE', lambda: ([{'prim': 'SIZE'}], [('nat',)] + st[1:]))
                add(3, 'SLICE', lambda: self._slice(st))
        if len(st) >= 2:
            add(2, 'SWAP', lambda: ([{'prim': 'SWAP'}], [snd, top] + st[2:]))
            add(3, 'PAIR', lambda: ([{'prim': 'PAIR'}], [('pair', top, snd)] + st[2:]))
            add(1.5, 'PAIRN', lambda: self._pairn(st))
            add(3 if snd[0] == 'pair' else 0.2, 'UPDATEN', lambda: self._updaten(st))
            add(2, 'DIG', lambda: self._dig(st))
            add(2, 'DUG', lambda: self._dug(st))
            add(2, 'DUPN', lambda: self._dupn(st))
            add(1, 'DROPN', lambda: self._dropn(st))
            if depth > 0:
                add(2, 'DIPN', lambda: self._dip(st, r.randrange(0, len(st) + 1), depth))
            if top[0] == 'bool' and snd[0] == 'bool':
                op = r.choice(['AND', 'OR', 'XOR'])
                add(3, 'AND..', lambda: ([{'prim': op}], [('bool',)] + st[2:]))
            if snd[0] in ('set', 'map') and snd[1] == top and top in SET_ELT:
                add(6, 'MEM', lambda: ([{'prim': 'MEM'}], [('bool',)] + st[2:]))
                if snd[0] == 'map':
                    add(6, 'GET', lambda: ([{'prim': 'GET'}], [('option', snd[2])] + st[2:]))
            if len(st) >= 3 and top in SET_ELT:
                third = st[2]
                if third[0] == 'set' and third[1] == top and snd == ('bool',):
                    add(8, 'UPDATE', lambda: ([{'prim': 'UPDATE'}], st[2:]))
                if third[0] == 'map' and third[1] == top and snd == ('option', third[2]):
                    add(8, 'UPDATE', lambda: ([{'prim': 'UPDATE'}], st[2:]))
                    add(8, 'GET_AND_UPDATE', lambda: ([{'prim': 'GET_AND_UPDATE'}], [snd] + st[2:]))
            if (top[0], snd[0]) in EDIV_T:
                add(4, 'EDIV', lambda: ([{'prim': 'EDIV'}], [('option', ('pair', *[(x,) for x in EDIV_T[(top[0], snd[0])]]))] + st[2:]))
            if (top[0], snd[0]) in AND_T:
                add(3, 'AND', lambda: ([{'prim': 'AND'}], [('nat',)] + st[2:]))
            if top[0] == 'nat' and snd[0] == 'nat':
                op2 = r.choice(['OR', 'XOR'])
                add(3, 'OR..', lambda: ([{'prim': op2}], [('nat',)] + st[2:]))
            if top[0] == 'mutez' and snd[0] == 'mutez':
                add(4, 'SUB_MUTEZ', lambda: ([{'prim': 'SUB_MUTEZ'}], [('option', ('mutez',))] + st[2:]))
            for name, table in (('ADD', ADD_T), ('SUB', SUB_T), ('MUL', MUL_T)):
                if (top[0], snd[0]) in table:
                    add(4, name, (lambda name=name, table=table: ([{'prim': name}], [(table[(top[0], snd[0])],)] + st[2:])))
            if top == snd and top in COMPARABLE:
                add(4, 'COMPARE', lambda: ([{'prim': 'COMPARE'}], [('int',)] + st[2:]))
            if snd[0] == 'list' and snd[1] == top:
                add(5, 'CONS', lambda: ([{'prim': 'CONS'}], st[1:]))
            if top == snd and top[0] in ('string', 'bytes'):
                add(4, 'CONCAT', lambda: ([{'prim': 'CONCAT'}], st[1:]))
            if snd[0] == 'lambda' and snd[1] == top:
                add(14, 'EXEC', lambda: ([{'prim': 'EXEC'}], [snd[2]] + st[2:]))
            if snd[0] == 'lambda' and snd[1][0] == 'pair' and snd[1][1] == top and top[0] != 'lambda' and pushable(top):
                add(14, 'APPLY', lambda: ([{'prim': 'APPLY'}], [('lambda', snd[1][2], snd[2])] + st[2:]))
        if depth > 0:
            add(2, 'LOOP', lambda: self._loop(st, depth))
        total = sum(w for w, _, _ in cands)
        x = r.random() * total
        for w, name, f in cands:
            x -= w
            if x <= 0:
                self.note(name)
                return f()
        w, name, f = cands[-1]
        self.note(name)
        return f()

    # helpers ------------------------------------------------------------------------------------------------
    # ---- right combs: PAIR n / UNPAIR n / GET n / UPDATE n -------------------------------------------------
    def gen_comb_type(self):
        """a pair type with an interesting spine: right combs of 2..6 leaves, leaves that are pairs themselves
        (`pair (pair a b) c`, non-comb), a pair in the last position (which lengthens the comb)"""
        r = self.rng
        k = r.choice([2, 3, 3, 4, 5, 6])
        leaves = []
        for i in range(k):
            x = r.random()
            if x < 0.2:
                leaves.append(('pair', self.gen_type(0), self.gen_type(0)))      # a pair as a leaf
            elif x < 0.3:
                leaves.append(self.gen_type(1))
            else:
                leaves.append(self.gen_type(0))
        return comb_of(leaves)

    def _pick_n(self, lo, hi, what):
        """an argument in [lo, hi], boundaries preferred"""
        r = self.rng
        x = r.random()
        if x < 0.3:
            n = hi
        elif x < 0.5:
            n = lo
        elif x < 0.6 and hi - 1 >= lo:
            n = hi - 1
        else:
            n = r.randrange(lo, hi + 1)
        self.shape(f'{what} n={"max" if n == hi else n}')
        if n != hi:
            self.shape(f'{what} n<max')
        return n

    def _pairn(self, st):
        n = self._pick_n(2, len(st), 'PAIR')
        return [{'prim': 'PAIR', 'args': [{'int': str(n)}]}], [comb_of(st[:n])] + st[n:]

    def _unpairn(self, st):
        leaves = comb_leaves(st[0])
        n = self._pick_n(2, len(leaves), 'UNPAIR')
        return [{'prim': 'UNPAIR', 'args': [{'int': str(n)}]}], leaves[:n - 1] + [comb_of(leaves[n - 1:])] + st[1:]

    def _getn(self, st):
        top = st[0]
        if top[0] != 'pair':
            self.shape('GET n=0 on a non-pair')
            return [{'prim': 'GET', 'args': [{'int': '0'}]}], st
        n = self._pick_n(0, 2 * (len(comb_leaves(top)) - 1), 'GET')
        return [{'prim': 'GET', 'args': [{'int': str(n)}]}], [get_n_ty(n, top)] + st[1:]

    def _updaten(self, st):
        e, t = st[0], st[1]
        if t[0] != 'pair':
            self.shape('UPDATE n=0 on a non-pair')
            n = 0
        else:
            n = self._pick_n(0, 2 * (len(comb_leaves(t)) - 1), 'UPDATE')
        if e[0] == 'pair':
            self.shape('UPDATE with a pair element')
        return [{'prim': 'UPDATE', 'args': [{'int': str(n)}]}], [update_n_ty(n, e, t)] + st[2:]

    def _comb_idiom(self, st):
        """push a value with an interesting spine (written `Pair a b c …` / nested at random) and use it"""
        r = self.rng
        t = self.gen_comb_type()
        v = self.gen_value(t, depth=3)
        ty = ty_mich(t)
        if r.random() < 0.3:
            ty, v = self.flat_comb(ty, v)
        code, st2 = [{'prim': 'PUSH', 'args': [ty, v]}], [t] + st
        k = r.randrange(5)
        if k == 0:
            c, st2 = self._unpairn(st2)
            self.note('UNPAIRN')
            if r.random() < 0.6:      # … and fold them back
                c2, st2 = self._pairn(st2)
                self.note('PAIRN')
                c += c2
        elif k == 1:
            c, st2 = self._getn(st2)
            self.note('GETN')
        elif k == 2:
            e = self.gen_type(1) if r.random() < 0.7 else ('pair', self.gen_type(0), self.gen_type(0))
            c, st2 = self._updaten([e] + st2)
            self.note('UPDATEN')
            c = [self.push(e)] + c
        elif k == 3 and len(st2) >= 2:
            c, st2 = self._pairn(st2)
            self.note('PAIRN')
        else:
            c = []
        return code + c, st2

    def flat_comb(self, ty, v):
        """the n-ary spellings `pair a b c` / `Pair x y z` of a right comb (types and values flattened alike)"""
        if ty.get('prim') == 'pair' and len(ty['args']) == 2 and ty['args'][1].get('prim') == 'pair' \
                and isinstance(v, dict) and v.get('prim') == 'Pair':
            t2, v2 = self.flat_comb(ty['args'][1], v['args'][1])
            return ({'prim': 'pair', 'args': [ty['args'][0]] + t2['args']}, {'prim': 'Pair', 'args': [v['args'][0]] + v2['args']})
        return ty, v

    # ---- sets and maps: literals / histories with keys at chosen positions ----------------------------------
    def _empty_set(self, st):
        t = self.rng.choice(SET_ELT)
        return [{'prim': 'EMPTY_SET', 'args': [ty_mich(t)]}], [('set', t)] + st

    def _keys_and_probe(self, kt):
        """(keys of the collection, probe key, description of where the probe falls)"""
        r = self.rng
        n = r.choice([0, 0, 1, 1, 2, 3, 3, 5])
        pool = self.distinct_sorted_keys(kt, n + 1)
        if len(pool) <= 1 or r.random() < 0.45:      # probe present (if there is anything to find)
            keys = pool[:n] if len(pool) > n else pool
            if not keys:
                return keys, pool[0] if pool else self.gen_key(kt)[1], 'empty collection'
            i = r.choice([0, len(keys) - 1, r.randrange(len(keys))])
            where = 'singleton, present' if len(keys) == 1 else ('present first' if i == 0 else ('present last' if i == len(keys) - 1 else 'present middle'))
            return keys, keys[i], where
        i = r.choice([0, len(pool) - 1, r.randrange(len(pool))])
        keys = pool[:i] + pool[i + 1:]
        where = 'absent below all' if i == 0 else ('absent above all' if i == len(pool) - 1 else 'absent between')
        if len(keys) == 1:
            where = 'singleton, ' + where
        return keys, pool[i], where

    def _coll_idiom(self, st, depth):
        r = self.rng
        P = lambda prim, *args: {'prim': prim, 'args': list(args)} if args else {'prim': prim}
        kt = r.choice(SET_ELT)
        keys, probe, where = self._keys_and_probe(kt)
        is_set = r.random() < 0.45
        if is_set:
            ct = ('set', kt)
            lit = keys
        else:
            vt = self.gen_type(1)
            ct = ('map', kt, vt)
            lit = [{'prim': 'Elt', 'args': [k, self.gen_value(vt, 1)]} for k in keys]
        if r.random() < 0.3:
            # build it by insertions in a random order (`sorted([item] + items)` / `sorted(items + [(key, val)])`)
            order = list(range(len(keys)))
            r.shuffle(order)
            code = [P('EMPTY_SET', ty_mich(kt)) if is_set else P('EMPTY_MAP', ty_mich(kt), ty_mich(vt))]
            for j in order:
                if is_set:
                    code += [P('PUSH', P('bool'), P('True')), P('PUSH', ty_mich(kt), keys[j]), P('UPDATE')]
                else:
                    code += [P('PUSH', ty_mich(('option', vt)), P('Some', lit[j]['args'][1])), P('PUSH', ty_mich(kt), keys[j]), P('UPDATE')]
            self.note('EMPTY_SET' if is_set else 'EMPTY_MAP')
            self.shape(f'{ct[0]} built by {len(keys)} insertions')
        else:
            code = [P('PUSH', ty_mich(ct), lit)]
        self.shape(f'{ct[0]} size {len(keys) if len(keys) < 4 else "4+"}')
        pk = P('PUSH', ty_mich(kt), probe)
        ops = ['MEM', 'UPDATE+', 'UPDATE-', 'SIZE', 'ITER', 'UPDATE;MEM'] if is_set else \
              ['MEM', 'GET', 'UPDATE+', 'UPDATE-', 'GET_AND_UPDATE+', 'GET_AND_UPDATE-', 'SIZE', 'ITER', 'UPDATE;GET']
        op = r.choice(ops)
        self.shape(f'{ct[0]} {op}: {where}')
        new = [ct] + st
        if op == 'MEM':
            self.note('MEM')
            return code + [pk, P('MEM')], [('bool',)] + st
        if op == 'GET':
            self.note('GET')
            return code + [pk, P('GET')], [('option', vt)] + st
        if op == 'SIZE':
            return code + [P('SIZE')], [('nat',)] + st
        if op == 'ITER':
            elt = kt if is_set else ('pair', kt, vt)
            if depth <= 0:
                return code, new
            c, st2 = self._iter(new, elt, depth)
            return code + c, st2
        if is_set:
            add = op != 'UPDATE-' if op != 'UPDATE;MEM' else r.random() < 0.5
            upd = [P('PUSH', P('bool'), P('True' if add else 'False')), pk, P('UPDATE')]
            self.note('UPDATE')
            if op == 'UPDATE;MEM':
                self.note('MEM')
                return code + upd + [P('DUP'), pk, P('MEM')], [('bool',), ct] + st
            return code + upd, new
        some = op.endswith('+') if op != 'UPDATE;GET' else r.random() < 0.5
        ov = P('Some', self.gen_value(vt, 1)) if some else P('None')
        arg = [P('PUSH', ty_mich(('option', vt)), ov), pk]
        if op.startswith('GET_AND_UPDATE'):
            self.note('GET_AND_UPDATE')
            return code + arg + [P('GET_AND_UPDATE')], [('option', vt), ct] + st
        self.note('UPDATE')
        if op == 'UPDATE;GET':
            self.note('GET')
            return code + arg + [P('UPDATE'), P('DUP'), pk, P('GET')], [('option', vt), ct] + st
        return code + arg + [P('UPDATE')], new

    # ---- extension 2, phase A ------------------------------------------------------------------------------------
    CONV_INTS = [0, 1, -1, 127, 128, -127, -128, -129, 255, 256, -255, -256, -257, 32767, 32768, -32768, -32769, 2**63 - 1, 2**63,
                 -2**63, -2**63 - 1, 2**64, 2**127, -2**127, -2**127 - 1, 2**200 + 5, -2**200]
    CONV_BYTES = ['', '00', '0000', '01', '7f', '80', 'ff', '00ff', '0080', 'ff7f', 'ff80', 'ffff', '007f', '0100', '8000', '7fff',
                  '000001', 'ffffff80', '0000000000000000000001', '80' + '00' * 15, 'ff' * 17, '7f' + 'ff' * 31]

    def _conv_idiom(self, st):
        """int / nat <-> bytes at the edges: zero and the empty string, the sign-byte boundaries (127 / 128 / -128 / -129 …),
        leading 0x00 / 0xff bytes, long values; also the round trips BYTES ; INT and BYTES ; NAT"""
        r = self.rng
        P = lambda prim: {'prim': prim}
        kind = r.choice(['BYTES int', 'BYTES int', 'BYTES nat', 'INT', 'INT', 'NAT', 'BYTES;INT', 'BYTES;NAT', 'INT;BYTES', 'NAT;BYTES'])
        self.shape('conv ' + kind)
        if kind.startswith('BYTES') or kind in ('BYTES;INT', 'BYTES;NAT'):
            nat = kind in ('BYTES nat', 'BYTES;NAT')
            v = r.choice(self.CONV_INTS) if r.random() < 0.7 else self.gen_int()
            if nat:
                v = abs(v)
            self.shape('BYTES of ' + ('0' if v == 0 else ('negative' if v < 0 else 'positive')) + (' (sign-byte edge)' if abs(v) in (127, 128, 129, 255, 256, 32767, 32768, 32769, 2**63, 2**127) else ''))
            code = [{'prim': 'PUSH', 'args': [{'prim': 'nat' if nat else 'int'}, {'int': str(v)}]}, P('BYTES')]
            self.note('BYTES')
            if kind == 'BYTES;INT':
                self.note('INT')
                return code + [P('INT')], [('int',)] + st
            if kind == 'BYTES;NAT':
                self.note('NAT')
                return code + [P('NAT')], [('nat',)] + st
            return code, [('bytes',)] + st
        b = r.choice(self.CONV_BYTES) if r.random() < 0.75 else r.bytes_(r.choice([1, 2, 3, 8, 9, 33])).hex()
        self.shape('bytes operand ' + ('empty' if not b else ('0x00-prefixed' if b.startswith('00') else ('0xff-prefixed' if b.startswith('ff') else ('top bit set' if int(b[:2], 16) >= 128 else 'top bit clear')))))
        code = [{'prim': 'PUSH', 'args': [{'prim': 'bytes'}, {'bytes': b}]}]
        first = 'INT' if kind.startswith('INT') else 'NAT'
        self.note(first)
        code.append(P(first))
        if kind.endswith(';BYTES'):
            self.note('BYTES')
            return code + [P('BYTES')], [('bytes',)] + st
        return code, [('int',) if first == 'INT' else ('nat',)] + st

    def _key_idiom(self, st):
        """HASH_KEY on keys of the three curves, VOTING_POWER of listed / unlisted delegates"""
        r = self.rng
        P = lambda prim: {'prim': prim}
        if r.random() < 0.5:
            k = r.choice(KEYS)
            self.shape('HASH_KEY ' + k[:4])
            self.note('HASH_KEY')
            code = [{'prim': 'PUSH', 'args': [{'prim': 'key'}, {'string': k}]}, P('HASH_KEY')]
            if r.random() < 0.5:
                self.note('VOTING_POWER')
                return code + [P('VOTING_POWER')], [('nat',)] + st
            return code, [('key_hash',)] + st
        self.note('VOTING_POWER')
        return [{'prim': 'PUSH', 'args': [{'prim': 'key_hash'}, {'string': r.choice(KEY_HASHES)}]}, P('VOTING_POWER')], [('nat',)] + st

    def _never_idiom(self, st, depth):
        """NEVER closing a branch that cannot be taken: the `never` side of an `or`, the Some branch of an `option never`, the
        body of an ITER over an (empty) `list never`, a lambda from `never`"""
        r = self.rng
        P = lambda prim, *args: {'prim': prim, 'args': list(args)} if args else {'prim': prim}
        t = self.gen_type(1)
        kind = r.choice(['or-left', 'or-right', 'option', 'list', 'lambda'])
        self.shape('NEVER in ' + kind)
        if kind == 'or-left':
            return [P('PUSH', ty_mich(('or', ('never',), t)), P('Right', self.gen_value(t))), P('IF_LEFT', [P('NEVER')], [])], [t] + st
        if kind == 'or-right':
            return [P('PUSH', ty_mich(('or', t, ('never',))), P('Left', self.gen_value(t))), P('IF_LEFT', [], [P('NEVER')])], [t] + st
        if kind == 'option':
            return [P('NONE', ty_mich(('never',))), P('IF_NONE', [self.push(t)], [P('NEVER')])], [t] + st
        if kind == 'list':
            return [P('NIL', ty_mich(('never',))), P('ITER', [P('NEVER')])], st
        return [P('LAMBDA', ty_mich(('never',)), ty_mich(t), [P('NEVER')])], [('lambda', ('never',), t)] + st

    # ---- phase C: contracts and operations -------------------------------------------------------------------------
    def _ep_annot(self, names=('add', 'name', 'a', 'b', 'c', 'foo')):
        r = self.rng
        x = r.random()
        if x < 0.45:
            return None
        if x < 0.55:
            return 'default'
        return r.choice(names)

    def _contract_instr(self, st, t=None):
        t = t or self.gen_type(1)
        ep = self._ep_annot()
        ins = {'prim': 'CONTRACT', 'args': [ty_mich(t)]}
        if ep is not None:
            ins['annots'] = ['%' + ep]
        self.shape('CONTRACT ' + ('without annotation' if ep is None else ('%default' if ep == 'default' else '%entrypoint')))
        return [ins], [('option', ('contract', t))] + st[1:]

    def _self(self, st):
        r = self.rng
        ep = r.choice(sorted(self.entrypoints))
        ins = {'prim': 'SELF'}
        if ep != 'default' or r.random() < 0.3:
            ins['annots'] = ['%' + ep]
        self.shape('SELF ' + ('default' if ep == 'default' else '%entrypoint'))
        code, st2 = [ins], [('contract', self.entrypoints[ep])] + st
        if r.random() < 0.5:
            self.note('ADDRESS')
            code, st2 = code + [{'prim': 'ADDRESS'}], [('address',)] + st
            if r.random() < 0.5:      # … and back: the address names the entrypoint, CONTRACT finds it again
                self.note('CONTRACT')
                code.append({'prim': 'CONTRACT', 'args': [ty_mich(self.entrypoints[ep])]})
                st2 = [('option', ('contract', self.entrypoints[ep]))] + st
        return code, st2

    def _emit(self, st):
        r = self.rng
        ins = {'prim': 'EMIT', 'args': [ty_mich(st[0])]}
        if r.random() < 0.7:
            ins['annots'] = ['%' + r.choice(['tag', 'evt', 'x'])]
        return [ins], [('operation',)] + st[1:]

    def _contract_idiom(self, st):
        """an address (originated / implicit, with / without `%entrypoint`) and CONTRACT (with / without annotation, `%default`,
        of type unit / another type), then the handle is used: ADDRESS, TRANSFER_TOKENS (zero and non-zero amounts); implicit
        accounts through IMPLICIT_ACCOUNT; SET_DELEGATE"""
        r = self.rng
        P = lambda prim, *args: {'prim': prim, 'args': list(args)} if args else {'prim': prim}
        kind = r.choice(['contract', 'contract', 'contract', 'implicit', 'delegate'])
        if kind == 'delegate':
            self.note('SET_DELEGATE')
            if r.random() < 0.4:
                self.shape('SET_DELEGATE None')
                return [P('NONE', ty_mich(('key_hash',))), P('SET_DELEGATE')], [('operation',)] + st
            self.shape('SET_DELEGATE Some')
            return [P('PUSH', ty_mich(('key_hash',)), {'string': r.choice(KEY_HASHES)}), P('SOME'), P('SET_DELEGATE')], [('operation',)] + st
        if kind == 'implicit':
            self.note('IMPLICIT_ACCOUNT')
            code = [P('PUSH', ty_mich(('key_hash',)), {'string': r.choice(KEY_HASHES)}), P('IMPLICIT_ACCOUNT')]
            t = ('unit',)
            st2 = [('contract', t)] + st
        else:
            implicit = r.random() < 0.35
            addr = r.choice(TZ_ADDRS if implicit else KT_ADDRS)
            aep = r.choice([None, None, 'add', 'name', 'default', 'foo'])
            t = r.choice([('unit',), ('unit',), ('nat',), ('string',), self.gen_type(1)]) if implicit else self.gen_type(1)
            text = addr if aep is None else f'{addr}%{aep}'
            self.shape('CONTRACT on ' + ('an implicit account' if implicit else 'an originated address') + (' naming an entrypoint' if aep not in (None, 'default') else (' %default' if aep else '')) +
                       (', type unit' if t == ('unit',) else ', another type'))
            c, st2 = self._contract_instr([('address',)] + st, t)
            self.note('CONTRACT')
            code = [P('PUSH', ty_mich(('address',)), {'string': text})] + c
            k = r.random()
            if k < 0.3:
                return code, st2
            # open the option: the None branch fails
            code.append(P('IF_NONE', [P('PUSH', ty_mich(('string',)), {'string': 'none'}), P('FAILWITH')], []))
            self.note('IF_NONE')
            st2 = [('contract', t)] + st
        k = r.random()
        if k < 0.35:
            self.note('ADDRESS')
            return code + [P('ADDRESS')], [('address',)] + st
        if k < 0.85 and pushable(t):
            amount = r.choice([0, 0, 1, 5, 10**6, 2**63 - 1])
            self.shape('TRANSFER_TOKENS amount ' + ('0' if amount == 0 else ('max' if amount == 2**63 - 1 else '>0')))
            self.note('TRANSFER_TOKENS')
            return code + [P('PUSH', ty_mich(('mutez',)), {'int': str(amount)}), self.push(t), P('TRANSFER_TOKENS')], [('operation',)] + st
        return code, st2

    # ---- phase B (first half): PACK of every plain value class ---------------------------------------------------------
    PACK_LEAVES = [('unit',), ('bool',), ('int',), ('nat',), ('mutez',), ('timestamp',), ('string',), ('bytes',)]

    def gen_packable_type(self, depth=2):
        r = self.rng
        if depth <= 0 or r.random() < 0.35:
            return r.choice(self.PACK_LEAVES)
        k = r.randrange(7)
        if k == 0:
            return ('option', self.gen_packable_type(depth - 1))
        if k == 1:
            return ('or', self.gen_packable_type(depth - 1), self.gen_packable_type(depth - 1))
        if k == 2:
            return ('list', self.gen_packable_type(depth - 1))
        if k == 3:
            return ('set', r.choice(SET_ELT))
        if k == 4:
            return ('map', r.choice(SET_ELT), self.gen_packable_type(depth - 1))
        # right combs of 2 .. 6 components (2: `Pair a b`, 3: `Pair a (Pair b c)`, 4 and more: the sequence form), with pair leaves
        n = r.choice([2, 2, 3, 3, 4, 4, 5, 6])
        leaves = [self.gen_packable_type(depth - 1) if r.random() < 0.3 else r.choice(self.PACK_LEAVES) for _ in range(n)]
        if r.random() < 0.25:
            leaves[r.randrange(n - 1)] = ('pair', r.choice(self.PACK_LEAVES), r.choice(self.PACK_LEAVES))      # a pair on the left
        self.shape(f'PACK comb of {n if n < 4 else "4+"}')
        return comb_of(leaves)

    def _pack_idiom(self, st):
        """PACK of a pushed value of every plain class: numbers around the zarith byte boundaries (±63 / ±64, ±8191 / ±8192, big),
        empty and long strings / bytes, combs of 2, 3, 4+ components, empty and non-empty collections"""
        r = self.rng
        t = self.gen_packable_type(2)
        if t[0] in ('int', 'nat', 'mutez', 'timestamp') and r.random() < 0.7:
            v = r.choice([0, 1, 63, 64, 127, 128, 8191, 8192, 2**31, 2**62, 2**63 - 1])
            if t[0] in ('int', 'timestamp') and r.random() < 0.5:
                v = -v
            val = {'int': str(v)}
            self.shape('PACK number ' + ('0' if v == 0 else ('one byte' if abs(v) < 64 else ('two bytes' if abs(v) < 8192 else 'long'))))
        elif t[0] in ('string', 'bytes') and r.random() < 0.5:
            n = r.choice([0, 1, 255, 256, 300])
            val = {'string': 'a' * n} if t[0] == 'string' else {'bytes': r.bytes_(n).hex()}
            self.shape(f'PACK {t[0]} of length {n if n < 2 else ("<256" if n < 256 else "256+")}')
        else:
            val = self.gen_value(t, depth=3)
        self.shape('PACK of ' + t[0])
        self.note('PACK')
        return [{'prim': 'PUSH', 'args': [ty_mich(t), val]}, {'prim': 'PACK'}], [('bytes',)] + st


    # ---- UNPACK ---------------------------------------------------------------------------------------------------------
    TS_TEXTS = ['1970-01-01T00:00:01Z', '2020-02-29T12:30:00Z', '2021-12-31T23:59:59+01:00', '1969-12-31T23:59:59Z', '2019-02-29T00:00:00Z',
                '2020-01-01 00:00:00Z', '2020-01-01T00:00:00', '123', '-5', '0', '', 'abc', ' 1', '1_000', '+7', '0x10', '1e3',
                '2020-01-01T00:00:00.5Z', '9999-12-31T23:59:59Z']

    def alt_form(self, t, v):
        """the expression `v` (nested binary `Pair`s, as gen_value writes it) of type `t` in another spelling the protocol reads as
        the same value: right combs as `Pair x1 … xn` or `{x1; …; xn}`, possibly only partly flattened"""
        r = self.rng
        p = t[0]
        if p == 'pair':
            comps, ty, cur = [], t, v
            # walk down the right spine while the type is a pair; stop early at random (partial flattening)
            while ty[0] == 'pair' and isinstance(cur, dict) and cur.get('prim') == 'Pair' and (not comps or r.random() < 0.75):
                comps.append(self.alt_form(ty[1], cur['args'][0]))
                ty, cur = ty[2], cur['args'][1]
            comps.append(self.alt_form(ty, cur))
            if len(comps) == 2 and r.random() < 0.6:
                return {'prim': 'Pair', 'args': comps}
            as_seq = r.random() < 0.5
            self.shape(f'UNPACK pair as {"sequence" if as_seq else "n-ary Pair"} of {min(len(comps), 4)}{"+" if len(comps) > 4 else ""}')
            return comps if as_seq else {'prim': 'Pair', 'args': comps}
        if p in ('option', 'or') and isinstance(v, dict) and v.get('args'):
            return {'prim': v['prim'], 'args': [self.alt_form(t[1] if v['prim'] in ('Some', 'Left') else t[2], v['args'][0])]}
        if p in ('list', 'set'):
            return [self.alt_form(t[1], x) for x in v]
        if p == 'map':
            return [{'prim': 'Elt', 'args': [e['args'][0], self.alt_form(t[2], e['args'][1])]} for e in v]
        return v

    def broken_expr(self, t):
        """an expression that is NOT a value of type `t` (or is one only for a lenient reader), with the reason"""
        r = self.rng
        P = lambda prim, *args: {'prim': prim, 'args': list(args)} if args else {'prim': prim}
        I = lambda n: {'int': str(n)}
        ok = self.gen_value(t, depth=2)
        kinds = ['annotated', 'control-char', 'other-type', 'arity', 'unknown-prim', 'node-tag', 'non-minimal-int', 'negative-zero',
                 'length-too-long', 'length-too-short']
        p = t[0]
        if p == 'pair':
            kinds += ['nary-over-nonpair', 'annotated-pair', 'one-component', 'empty-seq', 'too-many']
        if p in ('nat', 'mutez'):
            kinds += ['negative', 'negative', 'range']
        if p in ('set', 'map'):
            kinds += ['unsorted', 'unsorted', 'duplicate', 'duplicate']
        if p == 'timestamp':
            kinds += ['text', 'text', 'text', 'text']
        if p == 'string':
            kinds += ['control-char', 'control-char', 'non-ascii', 'invalid-utf8', 'newline']
        k = r.choice(kinds)
        self.shape('UNPACK input: ' + k)
        if k == 'annotated':
            m = dict(ok) if isinstance(ok, dict) and 'prim' in ok else {'prim': 'Unit'}
            return {**m, 'annots': r.choice([b'%a', b'@v', b':t', b'%a @b', b'\xff'])}
        if k == 'annotated-pair':
            return {**ok, 'annots': b'%x'} if isinstance(ok, dict) else ok
        if k in ('control-char', 'non-ascii', 'invalid-utf8', 'newline'):
            return {'text': {'control-char': r.choice([b'\x01', b'a\tb', b'\x7f', b'ab\x00', b'\r']), 'non-ascii': 'é'.encode(),
                             'invalid-utf8': b'\xff\xfe', 'newline': b'a\nb'}[k]}
        if k == 'other-type':
            other = r.choice([P('Unit'), I(5), {'string': 'x'}, {'bytes': '00'}, [], [I(1)], P('Some', I(1)), P('Pair', I(1), I(2)), P('Left', P('Unit')), P('None')])
            return other
        if k == 'arity':
            return r.choice([P('Unit', I(1)), P('Some'), P('Some', I(1), I(2)), P('None', I(1)), P('Left'), P('True', P('Unit')), P('Pair', I(1)), P('Elt', I(1), I(2))])
        if k == 'unknown-prim':
            return {'tag': r.choice([158, 159, 200, 255, 0, 1, 2]), 'args': []}
        if k == 'node-tag':
            return {'raw': bytes([r.choice([11, 12, 127, 255])]) + r.bytes_(r.choice([0, 1, 4]))}
        if k == 'non-minimal-int':
            return {'raw': b'\x00' + r.choice([b'\x80\x00', b'\x81\x80\x00', b'\xc0\x00', b'\xbf\x80\x80\x00'])}
        if k == 'negative-zero':
            return {'raw': b'\x00\x40'}
        if k in ('length-too-long', 'length-too-short'):
            body = b''.join(forge_data(I(i)) for i in range(r.choice([1, 2, 3])))
            n = len(body) + (r.choice([1, 2, 100, 2**31]) if k == 'length-too-long' else -1)
            return {'raw': b'\x02' + max(n, 0).to_bytes(4, 'big') + body}
        if k == 'nary-over-nonpair':      # `Pair 1 2 3` at `pair int (list int)`: the right component is not a pair
            return r.choice([P('Pair', I(1), I(2), I(3)), [I(1), I(2), I(3)], P('Pair', I(1), P('Elt', I(1), I(1)), P('Elt', I(2), I(1)))])
        if k == 'one-component':
            return r.choice([P('Pair', I(1)), [I(1)]])
        if k == 'empty-seq':
            return []
        if k == 'too-many':
            return self.alt_form(t, ok) if r.random() < 0.3 else {'prim': 'Pair', 'args': [I(1)] * r.choice([5, 9])}
        if k == 'negative':
            return I(-r.choice([1, 2, 64, 2**70]))
        if k == 'range':
            return I(r.choice([2**63 - 1, 2**63, 2**63 + 1, 2**64]))
        if k in ('unsorted', 'duplicate'):
            kt = t[1]
            ks = self.distinct_sorted_keys(kt, r.choice([2, 3, 4]))
            if len(ks) < 2:
                ks = ks * 2
            elif k == 'unsorted':
                i = r.randrange(len(ks) - 1)
                ks[i], ks[i + 1] = ks[i + 1], ks[i]
            else:
                ks.insert(r.randrange(len(ks)), ks[r.randrange(len(ks))])
            return ks if p == 'set' else [P('Elt', x, self.gen_value(t[2], 1)) for x in ks]
        if k == 'text':
            return {'string': r.choice(self.TS_TEXTS)}
        return ok

    def _unpack_idiom(self, st):
        """UNPACK of bytes made by PACK in the same program (at the same and at another type) and of literal byte strings: valid
        encodings in the optimized and in the readable-equivalent spellings, truncated ones, trailing garbage, a missing or
        different first byte, ill-typed expressions, non-minimal integers, annotated constructors, unsorted collections …"""
        r = self.rng
        P = lambda prim, *args: {'prim': prim, 'args': list(args)} if args else {'prim': prim}
        t = self.gen_packable_type(2)
        while not unpackable(t):
            t = self.gen_packable_type(1)
        kind = r.choice(['roundtrip', 'roundtrip', 'roundtrip', 'wrong-type', 'literal', 'literal', 'alt-form', 'alt-form', 'mangled', 'mangled',
                         'broken', 'broken', 'broken', 'nested-broken', 'timestamp-text', 'collection-order'])
        self.note('UNPACK')
        self.shape('UNPACK ' + kind)
        if kind in ('roundtrip', 'wrong-type'):
            code, _ = self._pack_idiom([])
            src = ty_from_mich(code[0]['args'][0])
            if kind == 'roundtrip' and unpackable(src):
                t = src
            elif kind == 'wrong-type':
                # a neighbouring type: the same expression is a value of it, or is not
                t = r.choice([t, ('int',), ('nat',), ('timestamp',), ('mutez',), ('string',), ('bytes',), ('option', src) if unpackable(src) else ('unit',),
                              ('list', src) if unpackable(src) else ('unit',), ('pair', ('int',), ('int',)), ('set', ('int',)), ('list', ('int',))])
            return code + [P('UNPACK', ty_mich(t))], [('option', t)] + st
        if kind == 'collection-order':
            # a set / map literal inside the bytes: strictly ascending (accepted), swapped neighbours, a duplicate
            kt = r.choice(SET_ELT)
            t = r.choice([('set', kt), ('map', kt, ('unit',)), ('list', ('set', kt)), ('pair', ('set', kt), ('int',))])
            ks = self.distinct_sorted_keys(kt, r.choice([2, 3, 4]))
            how = r.choice(['ascending', 'swapped', 'swapped', 'duplicate', 'duplicate']) if len(ks) >= 2 else 'ascending'
            if how == 'swapped':
                i = r.randrange(len(ks) - 1)
                ks[i], ks[i + 1] = ks[i + 1], ks[i]
            elif how == 'duplicate':
                j = r.randrange(len(ks))
                ks.insert(j, ks[j])
            self.shape('UNPACK collection keys: ' + how)
            coll = ks if t[0] != 'map' else [P('Elt', x, P('Unit')) for x in ks]
            expr = {'set': coll, 'map': coll, 'list': [coll], 'pair': P('Pair', coll, {'int': '0'})}[t[0]]
            data = b'\x05' + forge_data(expr)
            return [P('PUSH', P('bytes'), {'bytes': data.hex()}), P('UNPACK', ty_mich(t))], [('option', t)] + st
        if kind == 'timestamp-text':
            # a timestamp in its readable form (and texts that are not timestamps), alone and inside containers
            txt = {'string': r.choice(self.TS_TEXTS)}
            self.shape('UNPACK timestamp text: ' + ('RFC 3339' if 'T' in txt['string'] else ('digits' if txt['string'].lstrip('-').isdigit() else 'other')))
            t, expr = r.choice([(('timestamp',), txt), (('option', ('timestamp',)), P('Some', txt)), (('pair', ('timestamp',), ('int',)), P('Pair', txt, {'int': '7'})),
                                (('list', ('timestamp',)), [{'int': '5'}, txt]), (('set', ('timestamp',)), [txt]),
                                (('map', ('timestamp',), ('unit',)), [P('Elt', txt, P('Unit'))])])
            data = b'\x05' + forge_data(expr)
            return [P('PUSH', P('bytes'), {'bytes': data.hex()}), P('UNPACK', ty_mich(t))], [('option', t)] + st
        v = self.gen_value(t, depth=3)
        if kind == 'literal':
            data = b'\x05' + forge_data(v)
        elif kind == 'alt-form':
            if t[0] != 'pair' and r.random() < 0.7:
                for _ in range(20):
                    t = self.gen_comb_type()
                    if unpackable(t):
                        break
                else:
                    t = comb_of([('int',), ('nat',), ('string',), ('option', ('bytes',))][:r.choice([2, 3, 4])])
                v = self.gen_value(t, depth=3)
            data = b'\x05' + forge_data(self.alt_form(t, v))
        elif kind == 'mangled':
            good = b'\x05' + forge_data(self.alt_form(t, v))
            how = r.choice(['truncated', 'truncated', 'trailing', 'trailing', 'no-prefix', 'other-prefix', 'empty', 'only-prefix', 'doubled-prefix'])
            self.shape('UNPACK input: ' + how)
            data = {'truncated': good[:max(1, len(good) - r.choice([1, 1, 2, 4]))], 'trailing': good + r.choice([b'\x00', b'\x03\x0b', b'\xff', good[1:]]),
                    'no-prefix': good[1:], 'other-prefix': bytes([r.choice([0, 4, 6, 255])]) + good[1:], 'empty': b'', 'only-prefix': b'\x05',
                    'doubled-prefix': b'\x05' + good}[how]
        elif kind == 'broken':
            data = b'\x05' + forge_data(self.broken_expr(t))
        else:      # a broken component deep inside a valid container
            inner = self.gen_packable_type(1)
            while not unpackable(inner):
                inner = self.gen_packable_type(1)
            bad = self.broken_expr(inner)
            t, expr = r.choice([(('option', inner), P('Some', bad)), (('list', inner), [self.gen_value(inner, 1), bad]),
                                (('pair', ('int',), inner), P('Pair', {'int': '1'}, bad)), (('or', ('unit',), inner), P('Right', bad)),
                                (('map', ('int',), inner), [P('Elt', {'int': '1'}, self.gen_value(inner, 1)), P('Elt', {'int': '2'}, bad)])])
            data = b'\x05' + forge_data(expr)
        return [P('PUSH', P('bytes'), {'bytes': data.hex()}), P('UNPACK', ty_mich(t))], [('option', t)] + st


    # ---- CHECK_SIGNATURE ------------------------------------------------------------------------------------------------
    def _checksig_idiom(self, st):
        """a key, a signature and a message of the corpus: the signed message (true), an altered or another message, another key of the
        same curve, a key of another curve, the generic `sig…` spelling, the empty and a long message, a message made by PACK"""
        r = self.rng
        P = lambda prim, *args: {'prim': prim, 'args': list(args)} if args else {'prim': prim}
        ki = r.randrange(len(SIG_KEYS))
        key, sigs, generic = SIG_KEYS[ki]
        mi = r.randrange(len(SIG_MSGS))
        msg, sig = SIG_MSGS[mi], sigs[mi]
        kind = r.choice(['valid', 'valid', 'valid', 'altered-message', 'other-message', 'other-key-same-curve', 'other-curve', 'generic', 'generic-wrong',
                         'packed-message', 'empty-message', 'long-message'])
        if kind == 'altered-message':
            msg = r.choice(SIG_ALTERED)
        elif kind == 'other-message':
            msg = SIG_MSGS[(mi + 1) % len(SIG_MSGS)]
        elif kind == 'other-key-same-curve':
            key = SIG_KEYS[3 - ki][0] if ki in (0, 3) else SIG_KEYS[0][0]
        elif kind == 'other-curve':
            key = SIG_KEYS[(ki + 1) % 3][0]
        elif kind in ('generic', 'generic-wrong'):
            sig, msg = generic, ('616263' if kind == 'generic' else '616264')
        elif kind == 'empty-message':
            msg, sig = SIG_MSGS[0], sigs[0]
        elif kind == 'long-message':
            msg, sig = SIG_MSGS[5], sigs[5]
        self.shape('CHECK_SIGNATURE ' + kind + (' (' + key[:2] + ')' if kind == 'valid' else ''))
        self.note('CHECK_SIGNATURE')
        if kind == 'packed-message':
            push_msg = [P('PUSH', P('nat'), {'int': '5'}), P('PACK')]
            sig = sigs[4]
        else:
            push_msg = [P('PUSH', P('bytes'), {'bytes': msg})]
        code = push_msg + [P('PUSH', P('signature'), {'string': sig}), P('PUSH', P('key'), {'string': key}), P('CHECK_SIGNATURE')]
        return code, [('bool',)] + st


    # ---- big maps created in the run ----------------------------------------------------------------------------------
    def _bigmap_idiom(self, st):
        """EMPTY_BIG_MAP, filled by insertions in a random order, then MEM / GET / UPDATE / GET_AND_UPDATE with the probe key present
        (first / middle / last), absent (below / between / above), in an empty map; a removal followed by MEM / GET / a re-insertion
        (pytezos keeps removed keys in a list of their own); the map duplicated and both copies used"""
        r = self.rng
        P = lambda prim, *args: {'prim': prim, 'args': list(args)} if args else {'prim': prim}
        kt = r.choice(SET_ELT)
        keys, probe, where = self._keys_and_probe(kt)
        vt = self.gen_type(1)
        while not pushable(vt):
            vt = self.gen_type(1)
        ct = ('big_map', kt, vt)
        order = list(range(len(keys)))
        r.shuffle(order)
        code = [P('EMPTY_BIG_MAP', ty_mich(kt), ty_mich(vt))]
        for j in order:
            code += [P('PUSH', ty_mich(('option', vt)), P('Some', self.gen_value(vt, 1))), P('PUSH', ty_mich(kt), keys[j]), P('UPDATE')]
        self.note('EMPTY_BIG_MAP')
        self.shape(f'big_map size {len(keys) if len(keys) < 4 else "4+"}')
        pk = P('PUSH', ty_mich(kt), probe)
        some = lambda: [P('PUSH', ty_mich(('option', vt)), P('Some', self.gen_value(vt, 1))), pk]
        none = lambda: [P('PUSH', ty_mich(('option', vt)), P('None')), pk]
        op = r.choice(['MEM', 'GET', 'UPDATE+', 'UPDATE-', 'GET_AND_UPDATE+', 'GET_AND_UPDATE-', 'UPDATE+;GET', 'UPDATE-;MEM', 'UPDATE-;GET',
                       'UPDATE-;UPDATE+;GET', 'GET_AND_UPDATE-;GET_AND_UPDATE-', 'DUP;UPDATE;both', 'keep'])
        self.shape(f'big_map {op}: {where}')
        new = [ct] + st
        for prim in ('MEM', 'GET_AND_UPDATE', 'GET', 'UPDATE'):
            if prim in op.replace('GET_AND_UPDATE', 'X') or (prim == 'GET_AND_UPDATE' and 'GET_AND_UPDATE' in op):
                self.note(prim)
        if op == 'MEM':
            return code + [pk, P('MEM')], [('bool',)] + st
        if op == 'GET':
            return code + [pk, P('GET')], [('option', vt)] + st
        if op == 'UPDATE+':
            return code + some() + [P('UPDATE')], new
        if op == 'UPDATE-':
            return code + none() + [P('UPDATE')], new
        if op == 'GET_AND_UPDATE+':
            return code + some() + [P('GET_AND_UPDATE')], [('option', vt)] + new
        if op == 'GET_AND_UPDATE-':
            return code + none() + [P('GET_AND_UPDATE')], [('option', vt)] + new
        if op == 'UPDATE+;GET':
            return code + some() + [P('UPDATE'), P('DUP'), pk, P('GET')], [('option', vt)] + new
        if op == 'UPDATE-;MEM':
            return code + none() + [P('UPDATE'), P('DUP'), pk, P('MEM')], [('bool',)] + new
        if op == 'UPDATE-;GET':
            return code + none() + [P('UPDATE'), P('DUP'), pk, P('GET')], [('option', vt)] + new
        if op == 'UPDATE-;UPDATE+;GET':
            return code + none() + [P('UPDATE')] + some() + [P('UPDATE'), P('DUP'), pk, P('GET')], [('option', vt)] + new
        if op == 'GET_AND_UPDATE-;GET_AND_UPDATE-':
            return code + none() + [P('GET_AND_UPDATE'), P('SWAP')] + none() + [P('GET_AND_UPDATE')], [('option', vt), ct, ('option', vt)] + st
        if op == 'DUP;UPDATE;both':
            # a big map is duplicable: updating one copy must not show in the other
            return code + [P('DUP')] + none() + [P('UPDATE'), pk, P('MEM'), P('SWAP'), pk, P('MEM')], [('bool',), ('bool',)] + st
        return code, new

    def _hash_idiom(self, st):
        """hash a pushed byte string (lengths around the block sizes of the five functions), sometimes twice"""
        r = self.rng
        n = r.choice([0, 0, 1, 5, 31, 32, 55, 56, 63, 64, 65, 111, 112, 127, 128, 129, 135, 136, 137, 200])
        self.shape(f'hash input of {n if n in (0, 1) else ("<64" if n < 64 else ("<128" if n < 128 else "128+"))} bytes')
        code = [{'prim': 'PUSH', 'args': [{'prim': 'bytes'}, {'bytes': r.bytes_(n).hex()}]}]
        for _ in range(r.choice([1, 1, 2])):
            hp = r.choice(HASH_PRIMS)
            self.note(hp)
            code.append({'prim': hp})
        return code, [('bytes',)] + st

    # ---- arithmetic: operands pushed on purpose so that every operand class and edge is reached --------------
    def _arith_idiom(self, st):
        r = self.rng
        P = lambda prim: {'prim': prim}
        kind = r.choice(['EDIV', 'EDIV', 'EDIV', 'LSL', 'LSR', 'AND', 'OR', 'XOR', 'ANDI', 'SUB_MUTEZ', 'NOT', 'ADD', 'SUB', 'MUL', 'BOOL', 'CMP', 'CMP', 'CMP', 'CONS', 'CONCAT'])
        self.note(kind if kind not in ('ANDI',) else 'AND')

        def num(t, **kw):
            if t == 'mutez':
                return {'int': str(r.choice([0, 1, 2, 7, 10**6, 2**62, 2**63 - 1, r.getrandbits(40)]))}
            return {'int': str(self.gen_int(nat=t == 'nat', **kw))}

        def two(ta, va, tb, vb, op, res):
            """operands: `a` ends up on top"""
            return [{'prim': 'PUSH', 'args': [{'prim': tb}, vb]}, {'prim': 'PUSH', 'args': [{'prim': ta}, va]}, P(op)], [res] + st

        if kind == 'EDIV':
            ta, tb = r.choice(sorted(EDIV_T))
            va, vb = num(ta), num(tb)
            if r.random() < 0.25:
                vb = {'int': '0'}
            a, b = int(va['int']), int(vb['int'])
            self.shape('EDIV ' + ('by zero' if b == 0 else ('negative divisor' if b < 0 else 'positive divisor')) + (', negative dividend' if a < 0 else ''))
            self.shape(f'EDIV {ta} {tb}')
            if b != 0 and a % b == 0:
                self.shape('EDIV exact')
            q, rr = EDIV_T[(ta, tb)]
            return two(ta, va, tb, vb, 'EDIV', ('option', ('pair', (q,), (rr,))))
        if kind in ('LSL', 'LSR'):
            n = r.choice([0, 0, 1, 7, 8, 63, 64, 255, 256, 256, 257, 1000])
            self.shape(f'{kind} shift={n if n in (0, 256, 257) else ("<256" if n < 256 else ">257")}')
            return two('nat', num('nat'), 'nat', {'int': str(n)}, kind, ('nat',))
        if kind in ('AND', 'OR', 'XOR'):
            return two('nat', num('nat'), 'nat', num('nat'), kind, ('nat',))
        if kind == 'ANDI':
            if r.random() < 0.5:
                va = num('int')
                self.shape('AND int nat' + (' (negative int)' if int(va['int']) < 0 else ''))
                return two('int', va, 'nat', num('nat'), 'AND', ('nat',))
            vb = num('int')
            self.shape('AND nat int' + (' (negative int)' if int(vb['int']) < 0 else ''))
            return two('nat', num('nat'), 'int', vb, 'AND', ('nat',))
        if kind == 'SUB_MUTEZ':
            va, vb = num('mutez'), num('mutez')
            if r.random() < 0.2:
                vb = va
            a, b = int(va['int']), int(vb['int'])
            self.shape('SUB_MUTEZ ' + ('underflow' if a < b else ('to zero' if a == b else 'positive')))
            return two('mutez', va, 'mutez', vb, 'SUB_MUTEZ', ('option', ('mutez',)))
        if kind == 'NOT':
            t = r.choice(['nat', 'int', 'bool'])
            v = self.gen_value((t,))
            return [{'prim': 'PUSH', 'args': [{'prim': t}, v]}, P('NOT')], [('bool',) if t == 'bool' else ('int',)] + st
        if kind == 'BOOL':
            op = r.choice(['AND', 'OR', 'XOR'])
            return two('bool', self.gen_value(('bool',)), 'bool', self.gen_value(('bool',)), op, ('bool',))
        if kind == 'CONS':
            t = self.gen_type(1)
            return [self.push(('list', t)), self.push(t), P('CONS')], [('list', t)] + st
        if kind == 'CONCAT':
            t = r.choice([('string',), ('bytes',)])
            if r.random() < 0.5:
                return [self.push(('list', t)), P('CONCAT')], [t] + st
            return [self.push(t), self.push(t), P('CONCAT')], [t] + st
        if kind == 'CMP':
            t = r.choice(COMPARABLE)
            va = self.gen_value(t)
            vb = va if r.random() < 0.3 else self.gen_value(t)
            op = r.choice(['EQ', 'NEQ', 'LT', 'GT', 'LE', 'GE'])
            code, _ = two(t[0], va, t[0], vb, 'COMPARE', ('int',))
            return code + [P(op)], [('bool',)] + st
        table = {'ADD': ADD_T, 'SUB': SUB_T, 'MUL': MUL_T}[kind]
        ta, tb = r.choice(sorted(k for k in table if 'mutez' not in k or r.random() < 0.5) or sorted(table))
        return two(ta, num(ta, small=(ta == 'mutez')), tb, num(tb, small=(tb == 'mutez')), kind, (table[(ta, tb)],))

    def _push_any(self, st):
        t = self.gen_type(2)
        return [self.push(t)], [t] + st

    def _typed1(self, st, prim, mk):
        t = self.gen_type(1)
        return [{'prim': prim, 'args': [ty_mich(t)]}], [mk(t)] + st

    def _empty_map(self, st):
        k, v = self.gen_key_type(), self.gen_type(1)
        return [{'prim': 'EMPTY_MAP', 'args': [ty_mich(k), ty_mich(v)]}], [('map', k, v)] + st

    def _env(self, st):
        prim, t = self.rng.choice([('AMOUNT', ('mutez',)), ('BALANCE', ('mutez',)), ('SENDER', ('address',)), ('SOURCE', ('address',)),
                                   ('NOW', ('timestamp',)), ('LEVEL', ('nat',)), ('CHAIN_ID', ('chain_id',)), ('SELF_ADDRESS', ('address',)),
                                   ('TOTAL_VOTING_POWER', ('nat',)), ('MIN_BLOCK_TIME', ('nat',))])
        return [{'prim': prim}], [t] + st

    def _lambda(self, st, depth):
        a, b = self.gen_type(1), self.gen_type(1)
        if st and self.rng.random() < 0.6:      # make EXEC / APPLY reachable
            a = st[0] if self.rng.random() < 0.6 else ('pair', st[0], self.gen_type(1))
        self.in_lambda += 1
        try:
            body = self.body_to([a], [b], self.rng.choice([0, 1, 2, 3]), depth - 1)
        finally:
            self.in_lambda -= 1
        code = [{'prim': 'LAMBDA', 'args': [ty_mich(a), ty_mich(b), body]}]
        new = [('lambda', a, b)] + st
        if st and a == st[0]:
            code.append({'prim': 'SWAP'})
            new = [st[0], ('lambda', a, b)] + st[1:]
            if self.rng.random() < 0.4:
                self.note('EXEC')
                code.append({'prim': 'EXEC'})
                new = [b] + st[1:]
        elif st and a[0] == 'pair' and a[1] == st[0] and st[0][0] != 'lambda' and pushable(st[0]):
            code.append({'prim': 'SWAP'})
            new = [st[0], ('lambda', a, b)] + st[1:]
            if self.rng.random() < 0.6:
                self.note('APPLY')
                code.append({'prim': 'APPLY'})
                new = [('lambda', a[2], b)] + st[1:]
        return code, new

    def _lr(self, st, prim):
        t = self.gen_type(1)
        ty = ('or', st[0], t) if prim == 'LEFT' else ('or', t, st[0])
        return [{'prim': prim, 'args': [ty_mich(t)]}], [ty] + st[1:]

    def _dip(self, st, n, depth):
        code, below, dead = self.body(st[n:], self.rng.choice([1, 1, 2, 3]), depth - 1)
        if n == 1 and self.rng.random() < 0.5:
            return [{'prim': 'DIP', 'args': [code]}], st[:n] + below
        return [{'prim': 'DIP', 'args': [{'int': str(n)}, code]}], st[:n] + below

    def _if(self, prim, st_a, st_b, depth):
        a_code, a_st, _ = self.body(list(st_a), self.rng.choice([0, 1, 2, 3]), depth - 1)
        target = a_st
        if self.rng.random() < 0.08 and a_st:
            a_code = a_code + [{'prim': 'FAILWITH'}]
            b_code, target, _ = self.body(list(st_b), self.rng.choice([0, 1, 2]), depth - 1)
        else:
            b_code = self.branch(st_b, target, depth - 1)
        return [{'prim': prim, 'args': [a_code, b_code]}], target

    def _iter(self, st0, elt, depth):
        st = st0[1:]
        body = self.body_to([elt] + st, st, self.rng.choice([0, 1, 2, 3]), depth - 1)
        return [{'prim': 'ITER', 'args': [body]}], st

    def _map(self, st0, coll, elt, depth):
        st = st0[1:]
        out = self.gen_type(1) if self.rng.random() < 0.6 else (coll[1] if coll[0] == 'list' else coll[2])
        body = self.body_to([elt] + st, [out] + st, self.rng.choice([0, 1, 2, 3]), depth - 1)
        res = ('list', out) if coll[0] == 'list' else ('map', coll[1], out)
        return [{'prim': 'MAP', 'args': [body]}], [res] + st

    def _loop(self, st, depth):
        n = self.rng.choice([0, 1, 2, 3, 5])
        inner = self.body_to(st, st, self.rng.choice([0, 1, 2]), depth - 1)
        body = [{'prim': 'DIP', 'args': [inner]}, {'prim': 'PUSH', 'args': [{'prim': 'int'}, {'int': '1'}]}, {'prim': 'SWAP'},
                {'prim': 'SUB'}, {'prim': 'DUP'}, {'prim': 'GT'}]
        code = [{'prim': 'PUSH', 'args': [{'prim': 'int'}, {'int': str(n)}]}, {'prim': 'DUP'}, {'prim': 'GT'},
                {'prim': 'LOOP', 'args': [body]}, {'prim': 'DROP'}]
        return code, st

    def _loop_left(self, st, depth):
        top = st[0]
        body = self.body_to([top[1]] + st[1:], [top] + st[1:], self.rng.choice([0, 1, 2]), depth - 1)
        # the fix-up pushes the default of `or a b`, which is a Left: make termination certain with a Right instead
        body = body + [{'prim': 'DROP'}] + self.produce(top[2]) + [{'prim': 'RIGHT', 'args': [ty_mich(top[1])]}]
        return [{'prim': 'LOOP_LEFT', 'args': [body]}], [top[2]] + st[1:]

    def _slice(self, st):
        r = self.rng
        code = [{'prim': 'PUSH', 'args': [{'prim': 'nat'}, {'int': str(r.choice([0, 0, 1, 2, 3, 5, 6]))}]},
                {'prim': 'PUSH', 'args': [{'prim': 'nat'}, {'int': str(r.choice([0, 0, 1, 2, 3, 5, 6]))}]}, {'prim': 'SLICE'}]
        return code, [('option', st[0])] + st[1:]

    def _dig(self, st):
        n = self.rng.randrange(0, len(st))
        return [{'prim': 'DIG', 'args': [{'int': str(n)}]}], [st[n]] + st[:n] + st[n + 1:]

    def _dug(self, st):
        n = self.rng.randrange(0, len(st))
        rest = st[1:]
        return [{'prim': 'DUG', 'args': [{'int': str(n)}]}], rest[:n] + [st[0]] + rest[n:]

    def _dupn(self, st):
        n = self.rng.randrange(1, len(st) + 1)
        return [{'prim': 'DUP', 'args': [{'int': str(n)}]}], [st[n - 1]] + st

    def _dropn(self, st):
        n = self.rng.randrange(0, len(st) + 1)
        return [{'prim': 'DROP', 'args': [{'int': str(n)}]}], st[n:]

    def program(self, n):
        code, st, _ = self.body([], n, self.max_depth)
        return code, st


ADD_T = {('nat', 'nat'): 'nat', ('nat', 'int'): 'int', ('int', 'nat'): 'int', ('int', 'int'): 'int', ('timestamp', 'int'): 'timestamp',
         ('int', 'timestamp'): 'timestamp', ('mutez', 'mutez'): 'mutez'}
SUB_T = {('nat', 'nat'): 'int', ('nat', 'int'): 'int', ('int', 'nat'): 'int', ('int', 'int'): 'int', ('timestamp', 'int'): 'timestamp',
         ('timestamp', 'timestamp'): 'int', ('mutez', 'mutez'): 'mutez'}
EDIV_T = {('nat', 'nat'): ('nat', 'nat'), ('nat', 'int'): ('int', 'nat'), ('int', 'nat'): ('int', 'nat'), ('int', 'int'): ('int', 'nat'),
          ('mutez', 'nat'): ('mutez', 'mutez'), ('mutez', 'mutez'): ('nat', 'mutez')}
AND_T = {('nat', 'nat'), ('int', 'nat'), ('nat', 'int')}
MUL_T = {('nat', 'nat'): 'nat', ('nat', 'int'): 'int', ('int', 'nat'): 'int', ('int', 'int'): 'int', ('mutez', 'nat'): 'mutez',
         ('nat', 'mutez'): 'mutez'}


def well_typed_edge(code):
    """is the last instruction of an edge-stream program (PUSH…; <comb instruction n>) inside its typing rule?"""
    if not (code[-1].get('args') and isinstance(code[-1]['args'][0], dict) and 'int' in code[-1]['args'][0]):
        return False      # the ill-formed literal programs
    types = [ty_from_mich(c['args'][0]) if c['prim'] == 'PUSH' else ('unit',) for c in code[:-1]][::-1]
    types = [binarize_ty(t) for t in types]
    last, n = code[-1]['prim'], int(code[-1]['args'][0]['int'])
    if last == 'PAIR':
        return 2 <= n <= len(types)
    if last == 'UNPAIR':
        return 2 <= n <= len(comb_leaves(types[0]))
    if last == 'GET':
        return get_n_ty(n, types[0]) is not None
    if last == 'UPDATE':
        return update_n_ty(n, types[0], types[1]) is not None
    raise ValueError(last)


def binarize_ty(t):
    if t[0] == 'pair' and len(t) > 3:
        return ('pair', binarize_ty(t[1]), binarize_ty(('pair',) + t[2:]))
    return (t[0],) + tuple(binarize_ty(a) for a in t[1:])


def code_size(code):
    if isinstance(code, list):
        return sum(code_size(c) for c in code)
    if isinstance(code, dict) and 'prim' in code:
        return 1 + sum(code_size(a) for a in code.get('args', []) if isinstance(a, (list,)) or (isinstance(a, dict) and a.get('prim', '').isupper()))
    return 0
