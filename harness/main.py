import importlib
import json
import os
import sys
import traceback

from harness import common


def run_check(prop, tier, seed):
    common.use_repo()
    ctx = common.Ctx(prop, tier, seed)
    mod = importlib.import_module(f'harness.props.{prop.lower()}')
    try:
        mod.run(ctx)
    except Exception as e:
        tb = traceback.format_exc()
        chain, x = [], e
        while x is not None and len(chain) < 6:     # worker-pool exceptions carry the remote traceback as __cause__
            chain.append(str(x))
            x = x.__cause__ or x.__context__
        text = tb + '\n'.join(chain)
        src = os.path.join(os.path.realpath(common.REPO), 'src')
        if src in text or os.path.join(common.REPO, 'src') in text:
            # an exception raised INSIDE the code under test escaped a case handler: the tie between model and code
            # no longer checks on some generated input (not pinned down here) -> broken correspondence, reported by
            # finish() as a violation without a failing input; the traceback goes into the replay file
            frames = [l.strip() for l in text.split('\n') if src in l or os.path.join(common.REPO, 'src') in l]
            ctx.obligation('correspondence:uncaught-exception-in-code-under-test', False,
                           f'{type(e).__name__}: {str(e)[:200]} at {frames[-1] if frames else "?"}')
            ctx.mismatch('uncaught-exception', {'traceback': text[-3000:]}, f'{type(e).__name__}: {e}'[:300], 'no exception expected')
            traceback.print_exc()
            return ctx.finish()
        traceback.print_exc()
        if ctx.violations or ctx.mismatches or any(not ok for _, ok, _ in ctx.obligations):
            # the harness itself tripped (typically while shrinking or describing a failure it had already found on a changed
            # tree): what was established before the error is still reported; the error is recorded next to it
            ctx.extra['harness_error_after_findings'] = f'{type(e).__name__}: {str(e)[:300]}'
            print(f'{prop}: harness error after findings were recorded; reporting them', file=sys.stderr)
            return ctx.finish()
        print(f'{prop}: harness error (exit 2)', file=sys.stderr)      # infrastructure error: never a VIOLATION
        return 2
    return ctx.finish()


def main(argv):
    if not argv:
        print(__doc__ or 'usage: check <Cxx> <quick|thorough> | --replay <file> | --setup')
        return 2
    if argv[0] == '--setup':
        from harness import setup
        return setup.main()
    if argv[0] == '--replay':
        d = json.load(open(argv[1]))
        os.environ['VERIF_SEED'] = str(d.get('seed', 0))
        return run_check(d['property'], d.get('tier', 'quick'), int(d.get('seed', 0)))
    prop = argv[0].upper()
    tier = argv[1] if len(argv) > 1 else os.environ.get('VERIF_TIER', 'quick')
    seed = int(os.environ.get('VERIF_SEED', '0') or 0)
    return run_check(prop, tier, seed)


if __name__ == '__main__':
    sys.exit(main(sys.argv[1:]))
