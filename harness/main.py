import importlib
import json
import os
import sys
import traceback

from harness import common


def run_check(prop, tier, seed):
    common.use_repo()
    ctx = common.Ctx(prop, tier, seed)
    mod = importlib.import_module(f'harness.props.{prop.lower()}')
    try:
        mod.run(ctx)
    except Exception:  # infrastructure error: never a VIOLATION
        traceback.print_exc()
        print(f'{prop}: harness error (exit 2)', file=sys.stderr)
        return 2
    return ctx.finish()


def main(argv):
    if not argv:
        print(__doc__ or 'usage: check <Cxx> <quick|thorough> | --replay <file> | --setup')
        return 2
    if argv[0] == '--setup':
        from harness import setup
        return setup.main()
    if argv[0] == '--replay':
        d = json.load(open(argv[1]))
        os.environ['VERIF_SEED'] = str(d.get('seed', 0))
        return run_check(d['property'], d.get('tier', 'quick'), int(d.get('seed', 0)))
    prop = argv[0].upper()
    tier = argv[1] if len(argv) > 1 else os.environ.get('VERIF_TIER', 'quick')
    seed = int(os.environ.get('VERIF_SEED', '0') or 0)
    return run_check(prop, tier, seed)


if __name__ == '__main__':
    sys.exit(main(sys.argv[1:]))
