"""Offline stand-in for the ExecutionContext of an OperationGroup (C23): holds the key, and a `shell`
recorder that notes every attribute / index path touched and refuses to be called — signing and hashing must
not need the network."""


class NetworkTouched(Exception):
    pass


class Recorder:
    def __init__(self, path, log):
        object.__setattr__(self, '_path', path)
        object.__setattr__(self, '_log', log)

    def __getattr__(self, name):
        if name.startswith('__'):
            raise AttributeError(name)
        p = f'{self._path}.{name}'
        self._log.append(p)
        return Recorder(p, self._log)

    def __getitem__(self, item):
        p = f'{self._path}[{item!r}]'
        self._log.append(p)
        return Recorder(p, self._log)

    def __call__(self, *a, **k):
        self._log.append(f'{self._path}()')
        raise NetworkTouched(self._path)


class StubContext:
    """the attributes ContextMixin / OperationGroup read: `key`, `shell`, `address`, `block_id`"""

    def __init__(self, key):
        self.touched = []
        self.key = key
        self.shell = Recorder('shell', self.touched)
        self.address = None
        self.block_id = 'head'

    def __getattr__(self, name):          # anything else an OperationGroup method might ask of the context
        if name.startswith('__'):
            raise AttributeError(name)
        self.touched.append(f'context.{name}')
        raise NetworkTouched(f'context.{name}')
