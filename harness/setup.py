"""MANIFEST.setup_cmd: regenerate every table from /repo and build the Lean targets of every published check
(claims/READY), offline.  Unpublished (in-progress) properties are not built here."""
import os
import subprocess
import sys

from harness import common
from translator import extract


def main():
    common.use_repo()
    ready = open(os.path.join(common.ROOT, 'claims', 'READY')).read().split()
    targets = []
    lakefile = open(os.path.join(common.LEAN, 'lakefile.toml')).read()
    for prop in ready:
        st = extract.generate(prop)
        bad = {k: v for k, v in st.items() if not v[0]}
        if bad:
            print(f'setup: translator could not read {prop}: {bad}', file=sys.stderr)
        thms = common.theorem_names(prop)
        common.write_if_changed(os.path.join(common.LEAN, 'PytezosModel', 'Audit', f'{prop}.lean'),
                                f'import PytezosModel.Props.{prop}\n' + ''.join(f'#print axioms {t}\n' for t in thms))
        targets += [f'PytezosModel.Props.{prop}', f'Driver.{prop}']
        if f'name = "drv_{prop.lower()}"' in lakefile:
            targets.append(f'drv_{prop.lower()}')
    with common.BuildLock():
        p = subprocess.run(['lake', 'build', *targets], cwd=common.LEAN, stdout=subprocess.PIPE, stderr=subprocess.STDOUT, text=True)
    if p.returncode != 0:
        print(p.stdout[-6000:])
    print(f'setup: built {len(targets)} targets for {len(ready)} properties -> rc {p.returncode}')
    return 0 if p.returncode == 0 else 1
