"""C03 / C14: drives the REAL pytezos interpreter (instruction classes built from Micheline JSON — the text parser is
not under test here, a sample also goes through `Interpreter.execute` on source text).  pytezos is imported lazily."""
from harness import gen_c03 as G

_cache = {}


def _mods():
    if not _cache:
        from pytezos.context.impl import ExecutionContext
        from pytezos.michelson import instructions  # noqa: F401  (registers the instruction classes)
        from pytezos.michelson.micheline import Micheline
        from pytezos.michelson.micheline import MichelsonRuntimeError
        from pytezos.michelson.stack import MichelsonStack
        _cache.update(Micheline=Micheline, Stack=MichelsonStack, Ctx=ExecutionContext, Err=MichelsonRuntimeError)
    return _cache


def classify_error(e):
    """small enum: reject-dup / reject-unsorted (collection constraints) / raise (anything else)"""
    txt = ' '.join(str(a) for a in e.args)
    if 'duplicate' in txt:
        return 'reject-dup'
    if 'sorted' in txt:
        return 'reject-unsorted'
    return 'raise'


def run_seq(seq, stack=None):
    """execute a Micheline instruction sequence on a fresh (or given) stack; returns (stack, None) or (None, exc)"""
    m = _mods()
    stack = stack if stack is not None else m['Stack']()
    try:
        m['Micheline'].match(seq).execute(stack, [], m['Ctx']())
    except m['Err'] as e:
        return None, e
    return stack, None


def push(t, v):
    return {'prim': 'PUSH', 'args': [G.ty_expr(t), G.to_micheline(v)]}


def compare(t, a, b):
    """COMPARE with `a` on top of `b`  ->  '-1' | '0' | '1' | 'raise'"""
    st, e = run_seq([push(t, b), push(t, a), {'prim': 'COMPARE'}])
    if e is not None:
        return 'raise'
    return str(int(st.items[0]))


def compare_text(t, a, b):
    """the same through Interpreter.execute on Michelson source text"""
    from pytezos.michelson.repl import Interpreter
    i = Interpreter()
    r = i.execute(f'PUSH {G.ty_text(t)} {G.to_text(b)}; PUSH {G.ty_text(t)} {G.to_text(a)}; COMPARE')
    if r.error is not None:
        return 'raise'
    return str(int(i.stack.items[0]))


def literal(t, vals, kind='set'):
    """PUSH (set t) {..} / PUSH (map t unit) {Elt .. Unit}  ->  'accept' | 'reject-dup' | 'reject-unsorted' | 'raise'"""
    if kind == 'set':
        ty = {'prim': 'set', 'args': [G.ty_expr(t)]}
        val = [G.to_micheline(v) for v in vals]
    else:
        ty = {'prim': 'map', 'args': [G.ty_expr(t), {'prim': 'unit'}]}
        val = [{'prim': 'Elt', 'args': [G.to_micheline(v), {'prim': 'Unit'}]} for v in vals]
    st, e = run_seq([{'prim': 'PUSH', 'args': [ty, val]}])
    if e is not None:
        return classify_error(e)
    return 'accept'


def raw_of_obj(o):
    """runtime value -> nested tuple of python primitives (no rendering code of pytezos involved)"""
    prim = o.prim
    if prim == 'unit':
        return ('unit',)
    if prim == 'option':
        return ('none',) if o.item is None else ('some', raw_of_obj(o.item))
    if prim == 'or':
        return ('left', raw_of_obj(o.items[0])) if o.is_left() else ('right', raw_of_obj(o.items[1]))
    if prim == 'pair':
        return ('pair', raw_of_obj(o.items[0]), raw_of_obj(o.items[1]))
    return (prim, o.value)


def raw_of_abs(t, v):
    """the same shape computed from the abstract value (what the runtime value must be)"""
    k = v[0]
    if k == 'unit':
        return ('unit',)
    if k == 'none':
        return ('none',)
    if k == 'some':
        return ('some', raw_of_abs(t[1], v[1]))
    if k == 'left':
        return ('left', raw_of_abs(t[1], v[1]))
    if k == 'right':
        return ('right', raw_of_abs(t[2], v[1]))
    if k == 'pair':
        return ('pair', raw_of_abs(t[1], v[1]), raw_of_abs(t[2], v[2]))
    m = G.to_micheline(G.normalise_value(v))
    if k == 'bool':
        return (t, v[1])
    if k == 'int':
        return (t, v[1])
    if k == 'bytes':
        return (t, v[1])
    return (t, m['string'])


def _index_of(x, xs):
    for i, m in enumerate(xs):
        if m == x:
            return i
    return -1


def collection_keys(coll):
    return [raw_of_obj(x) for x in coll] if coll.prim == 'set' else [raw_of_obj(k) for k, _ in coll]


def insert_all(t, vals, kind='set'):
    """EMPTY_SET t; then UPDATE-insert every value in the given order.  Returns the element order of the final
    collection as indices into `vals` (first index whose raw form equals the stored element), or 'raise'."""
    if kind == 'set':
        seq = [{'prim': 'EMPTY_SET', 'args': [G.ty_expr(t)]}]
        for v in vals:
            seq += [{'prim': 'PUSH', 'args': [{'prim': 'bool'}, {'prim': 'True'}]}, push(t, v), {'prim': 'UPDATE'}]
    else:
        seq = [{'prim': 'EMPTY_MAP', 'args': [G.ty_expr(t), {'prim': 'unit'}]}]
        for v in vals:
            seq += [{'prim': 'PUSH', 'args': [{'prim': 'option', 'args': [{'prim': 'unit'}]},
                                               {'prim': 'Some', 'args': [{'prim': 'Unit'}]}]}, push(t, v), {'prim': 'UPDATE'}]
    st, e = run_seq(seq)
    if e is not None:
        return 'raise'
    raws = [raw_of_abs(t, v) for v in vals]
    return [_index_of(x, raws) for x in collection_keys(st.items[0])]


def insert_all_big_map(t, vals, on_chain):
    """a big_map with an id whose on-chain part holds `vals[i]` for i in on_chain (the node is a dict); then UPDATE k (Some Unit)
    for every value in the given order.  Returns the key order of the LOCAL part (what the lazy diff and the storage rendering are
    made from) as indices into `vals`, or 'raise'."""
    m = _mods()
    from pytezos.michelson.forge import forge_script_expr
    from pytezos.michelson.types.base import MichelsonType

    class Stored(m['Ctx']):
        chain = {}

        def get_big_map_value(self, ptr, key_hash):
            return self.chain.get(key_hash)
    try:
        kcls = MichelsonType.match(G.ty_expr(t))
        bcls = MichelsonType.match({'prim': 'big_map', 'args': [G.ty_expr(t), {'prim': 'unit'}]})
        ctx = Stored()
        ctx.chain = {forge_script_expr(kcls.from_micheline_value(G.to_micheline(vals[i])).pack(legacy=True)): {'prim': 'Unit'} for i in on_chain}
        bm = bcls.from_micheline_value({'int': '7'})
        bm.attach_context(ctx)
        stack = m['Stack'].from_items([bm])
        seq = []
        for v in vals:
            seq += [{'prim': 'PUSH', 'args': [{'prim': 'option', 'args': [{'prim': 'unit'}]}, {'prim': 'Some', 'args': [{'prim': 'Unit'}]}]}, push(t, v), {'prim': 'UPDATE'}]
        m['Micheline'].match(seq).execute(stack, [], ctx)
        out = stack.items[0]
        keys_items = [raw_of_obj(k) for k, _ in out.items]
        diff = []
        out.aggregate_lazy_diff(diff)
        keys_diff = [raw_of_obj(kcls.from_micheline_value(u['key'])) for u in diff[0]['diff']['updates']]
    except (m['Err'], AssertionError):
        return 'raise'
    raws = [raw_of_abs(t, v) for v in vals]
    a, b = [_index_of(x, raws) for x in keys_items], [_index_of(x, raws) for x in keys_diff]
    return a if a == b else ('items', a, 'diff', b)
