"""C17 — generators: types with annotations, values, well-typed-by-construction programs over the core
instruction set, random re-annotation, and a small Michelson text printer for exactly this subset
(independent of pytezos' own formatter).  Never imports pytezos.

Types are Micheline JSON ({'prim', 'args', 'annots'}); `shape(ty)` is the annotation-free tuple form used by the
abstract (typed) stack of the program generator: ('nat',), ('pair', a, b), ('option', t), ('or', a, b), ('list', t),
('map', k, v), ('lambda', a, b)."""

ATOMS = ['nat', 'int', 'string', 'bytes', 'bool', 'unit']
KEY_ATOMS = ['nat', 'int', 'string']
NAMES = ['a', 'b', 'c', 'x', 'y', 'foo', 'bar', 'k_1', 'T0', 'nat_1',
         # the annotation grammar `[@:%][_0-9a-zA-Z][_0-9a-zA-Z\.%@]*`: the sigils may occur again after the first character
         'pct%', 'amount%mutez', 'a@b', 'x.y', '_z']
# children of these cannot carry a %field annotation (Michelson rule, asserted by pytezos' create_type)
NO_FIELD_CHILD = {'option', 'list', 'set', 'map', 'big_map', 'lambda', 'contract', 'ticket'}


# ---------------------------------------------------------------------------------------------- types
def shape(ty):
    return (ty['prim'], *[shape(a) for a in ty.get('args', [])])


def plain(sh):
    """annotation-free type JSON of a shape"""
    d = {'prim': sh[0]}
    if len(sh) > 1:
        d['args'] = [plain(a) for a in sh[1:]]
    return d


def strip_type(ty):
    return plain(shape(ty))


def rand_shape(rng, depth=3, comb_bias=0.5):
    k = rng.random()
    if depth <= 0 or k < 0.3:
        return (rng.choice(ATOMS),)
    if k < 0.3 + 0.7 * comb_bias:
        # right comb with 2..6 leaves; leaves may again be pairs (left-nested) or containers
        n = rng.choice([2, 2, 3, 3, 4, 4, 5, 6])
        leaves = [rand_shape(rng, depth - 1, comb_bias * 0.5) for _ in range(n)]
        t = leaves[-1]
        for x in reversed(leaves[:-1]):
            t = ('pair', x, t)
        return t
    c = rng.randrange(4)
    if c == 0:
        return ('option', rand_shape(rng, depth - 1, comb_bias))
    if c == 1:
        return ('or', rand_shape(rng, depth - 1, comb_bias), rand_shape(rng, depth - 1, comb_bias))
    if c == 2:
        return ('list', rand_shape(rng, depth - 1, comb_bias))
    return ('map', (rng.choice(KEY_ATOMS),), rand_shape(rng, depth - 1, comb_bias))


def rand_nonpair_shape(rng, depth=2):
    """a shape whose root is not a pair (atom, option, or, list, map; pairs may occur below the root): what `GET 0` / `UPDATE 0`
    must accept although no other comb instruction does"""
    k = rng.randrange(7)
    if depth <= 0 or k < 3:
        return (rng.choice(ATOMS),)
    if k == 3:
        return ('option', rand_shape(rng, depth - 1, 0.6))
    if k == 4:
        return ('or', rand_shape(rng, depth - 1, 0.6), rand_shape(rng, depth - 1, 0.6))
    if k == 5:
        return ('list', rand_shape(rng, depth - 1, 0.6))
    return ('map', (rng.choice(KEY_ATOMS),), rand_shape(rng, depth - 1, 0.6))


def tsize(sh):
    return 1 + sum(tsize(a) for a in sh[1:])


def annotate(rng, sh, density=0.5, field_ok=False, empty_names=True):
    """type JSON of `sh` with random annotations on every node: `%f` only where Michelson allows a field annotation
    (components of pair / or), `:t` anywhere"""
    d = {'prim': sh[0]}
    if len(sh) > 1:
        child_field = sh[0] in ('pair', 'or')
        d['args'] = [annotate(rng, a, density, child_field, empty_names) for a in sh[1:]]
    ann = []
    if rng.random() < density:
        k = rng.randrange(6)
        name = rng.choice(NAMES)
        if empty_names and rng.random() < 0.06:
            name = ''
        if k in (0, 1, 2) and field_ok:
            ann = ['%' + name]
        elif k == 3 and field_ok:
            ann = [':' + rng.choice(NAMES), '%' + name]
        else:
            ann = [':' + name]
    if ann:
        d['annots'] = ann
    return d


# ---------------------------------------------------------------------------------------------- values
def rand_value(rng, sh, depth=0):
    p = sh[0]
    if p == 'nat':
        return {'int': str(rng.choice([0, 1, 2, 7, 63, 64, 255, 2 ** 64, rng.randrange(1000)]))}
    if p == 'int':
        return {'int': str(rng.choice([0, 1, -1, -64, 65, -2 ** 70, rng.randrange(-500, 500)]))}
    if p == 'string':
        return {'string': ''.join(rng.choice('abcXYZ09 _') for _ in range(rng.choice([0, 1, 3, 8])))}
    if p == 'bytes':
        return {'bytes': rng.bytes_(rng.choice([0, 1, 2, 5])).hex()}
    if p == 'bool':
        return {'prim': rng.choice(['True', 'False'])}
    if p == 'unit':
        return {'prim': 'Unit'}
    if p == 'pair':
        return {'prim': 'Pair', 'args': [rand_value(rng, sh[1], depth + 1), rand_value(rng, sh[2], depth + 1)]}
    if p == 'option':
        if rng.random() < 0.3:
            return {'prim': 'None'}
        return {'prim': 'Some', 'args': [rand_value(rng, sh[1], depth + 1)]}
    if p == 'or':
        if rng.random() < 0.5:
            return {'prim': 'Left', 'args': [rand_value(rng, sh[1], depth + 1)]}
        return {'prim': 'Right', 'args': [rand_value(rng, sh[2], depth + 1)]}
    if p == 'list':
        return [rand_value(rng, sh[1], depth + 1) for _ in range(rng.choice([0, 1, 2, 3]) if depth < 3 else 0)]
    if p == 'map':
        keys = rand_keys(rng, sh[1], rng.choice([0, 1, 2, 3]) if depth < 3 else 0)
        return [{'prim': 'Elt', 'args': [k, rand_value(rng, sh[2], depth + 1)]} for k in keys]
    raise ValueError(sh)


def rand_keys(rng, ksh, n):
    """n distinct keys in Michelson order (nat / int numeric, string by code points)"""
    if ksh[0] == 'string':
        ks = sorted({''.join(rng.choice('abcXY09') for _ in range(rng.choice([0, 1, 2, 4]))) for _ in range(n)})
        return [{'string': k} for k in ks]
    lo = 0 if ksh[0] == 'nat' else -50
    ks = sorted({rng.randrange(lo, 100) for _ in range(n)})
    return [{'int': str(k)} for k in ks]


def rand_cmp_shape(rng, depth=3):
    """a COMPARABLE shape with at least three leaves under nested pairs (right combs, left-nested pairs, option / or inside):
    the key types on which COMPARE and the ordered collections have to look through annotated inner pair nodes"""
    def leaf(d):
        k = rng.random()
        if d <= 0 or k < 0.55:
            return (rng.choice(['nat', 'int', 'string', 'bytes', 'bool']),)
        if k < 0.75:
            return ('pair', leaf(d - 1), leaf(d - 1))
        if k < 0.88:
            return ('option', leaf(d - 1))
        return ('or', leaf(d - 1), leaf(d - 1))
    n = rng.choice([3, 3, 4, 5])
    leaves = [leaf(depth - 1) for _ in range(n)]
    if rng.random() < 0.75:
        t = leaves[-1]
        for x in reversed(leaves[:-1]):
            t = ('pair', x, t)
    else:
        t = leaves[0]
        for x in leaves[1:]:
            t = ('pair', t, x)
    return t


def small_value(rng, sh):
    """values from a tiny domain per leaf, so that two draws often share a prefix or are equal"""
    p = sh[0]
    if p == 'nat':
        return {'int': str(rng.choice([0, 1, 2]))}
    if p == 'int':
        return {'int': str(rng.choice([-1, 0, 1]))}
    if p == 'string':
        return {'string': rng.choice(['', 'a', 'b'])}
    if p == 'bytes':
        return {'bytes': rng.choice(['', '00', '01'])}
    if p == 'bool':
        return {'prim': rng.choice(['True', 'False'])}
    if p == 'pair':
        return {'prim': 'Pair', 'args': [small_value(rng, sh[1]), small_value(rng, sh[2])]}
    if p == 'option':
        return {'prim': 'None'} if rng.random() < 0.3 else {'prim': 'Some', 'args': [small_value(rng, sh[1])]}
    if p == 'or':
        return {'prim': 'Left', 'args': [small_value(rng, sh[1])]} if rng.random() < 0.5 else {'prim': 'Right', 'args': [small_value(rng, sh[2])]}
    raise ValueError(sh)


# ---------------------------------------------------------------------------------------------- printer
def fmt_type(ty, top=False):
    s = ty['prim']
    for a in ty.get('annots', []):
        s += ' ' + a
    for a in ty.get('args', []):
        s += ' ' + fmt_type(a)
    if not top and (ty.get('args') or ty.get('annots')):
        return '(' + s + ')'
    return s


def fmt_value(v, top=False):
    if isinstance(v, list):
        return '{ ' + ' ; '.join(fmt_value(x, True) for x in v) + ' }' if v else '{}'
    if 'int' in v:
        return v['int']
    if 'string' in v:
        assert '"' not in v['string'] and '\\' not in v['string'] and '\n' not in v['string']
        return '"' + v['string'] + '"'
    if 'bytes' in v:
        return '0x' + v['bytes']
    s = v['prim'] + ''.join(' ' + fmt_value(a) for a in v.get('args', []))
    return s if top or not v.get('args') else '(' + s + ')'


TYPE_ARG_POS = {'PUSH': [0], 'NIL': [0], 'NONE': [0], 'LEFT': [0], 'RIGHT': [0], 'UNPACK': [0], 'EMPTY_SET': [0],
                'EMPTY_MAP': [0, 1], 'EMPTY_BIG_MAP': [0, 1], 'LAMBDA': [0, 1]}


def fmt_instr(ins):
    if isinstance(ins, list):
        return fmt_seq(ins)
    p = ins['prim']
    s = p + ''.join(' ' + a for a in ins.get('annots', []))
    tpos = TYPE_ARG_POS.get(p, [])
    for i, a in enumerate(ins.get('args', [])):
        if i in tpos:
            s += ' ' + fmt_type(a)
        elif isinstance(a, list) and (p in ('IF_NONE', 'IF_LEFT', 'IF_CONS', 'IF', 'DIP', 'ITER', 'MAP', 'LOOP') or (p == 'LAMBDA' and i == 2)):
            s += ' ' + fmt_seq(a)
        else:
            s += ' ' + fmt_value(a)
    return s


def fmt_seq(seq):
    return '{ ' + ' ; '.join(fmt_instr(i) for i in seq) + ' }' if seq else '{}'


def fmt_program(seq):
    return ' ; '.join(fmt_instr(i) for i in seq)


# ---------------------------------------------------------------------------------------------- comb arithmetic on shapes
def comb_leaves(sh):
    """number of leaves of the maximal right comb"""
    n = 1
    while sh[0] == 'pair':
        n += 1
        sh = sh[2]
    return n


def t_getn(n, sh):
    if n == 0:
        return sh
    if sh[0] != 'pair':
        return None
    if n == 1:
        return sh[1]
    return t_getn(n - 2, sh[2])


def t_updaten(n, e, sh):
    if n == 0:
        return e
    if sh[0] != 'pair':
        return None
    if n == 1:
        return ('pair', e, sh[2])
    r = t_updaten(n - 2, e, sh[2])
    return None if r is None else ('pair', sh[1], r)


def t_unpairn(n, sh):
    out = []
    for _ in range(n - 1):
        if sh[0] != 'pair':
            return None
        out.append(sh[1])
        sh = sh[2]
    return out + [sh]


def t_pairn(items):
    t = items[-1]
    for x in reversed(items[:-1]):
        t = ('pair', x, t)
    return t


# ---------------------------------------------------------------------------------------------- programs
class ProgGen:
    """typed generation: `self.stack` is the list of shapes (top first).  Every emitted instruction is well typed
    for the Michelson type system (annotations aside), so the reference behaviour is: runs without failure."""

    def __init__(self, rng, max_stack=6, max_tsize=28):
        self.rng = rng
        self.max_stack = max_stack
        self.max_tsize = max_tsize

    def ty(self, sh, density=None):
        return annotate(self.rng, sh, self.rng.choice([0.0, 0.3, 0.6, 0.9]) if density is None else density)

    def push(self, sh):
        return {'prim': 'PUSH', 'args': [self.ty(sh), rand_value(self.rng, sh)]}

    def gen(self, stack, n, depth=0):
        """returns (instrs, final stack)"""
        out = []
        stack = list(stack)
        for _ in range(n):
            ins, stack = self.one(stack, depth)
            out += ins
        return out, stack

    def one(self, S, depth):
        rng = self.rng
        cands = []
        top = S[0] if S else None
        big = bool(S) and tsize(top) > self.max_tsize
        if len(S) < self.max_stack:
            cands += ['PUSH'] * (4 if len(S) < 2 else 1)
            # the same composite value under independently annotated types, compared / used as a collection key
            cands += ['CMP_PAIRS', 'SET_PAIRS', 'MAP_PAIRS', 'MAP_ENTRY']
        if S:
            cands += ['DROP', 'DUP', 'GET0']        # GET 0 :: a : S -> a : S, any a
            if not big:
                cands += ['SOME', 'LEFT', 'RIGHT', 'NILCONS', 'LAMBDA_EXEC']
            if top[0] != 'lambda':
                cands += ['PACK', 'PACK_UNPACK']
            if top[0] == 'pair':
                cands += ['CAR', 'CDR', 'UNPAIR', 'GETN', 'GETN', 'GETN', 'UNPAIRN', 'UNPAIRN']
            if top[0] == 'option':
                cands += ['IF_NONE'] * 2
            if top[0] == 'or':
                cands += ['IF_LEFT'] * 2
            if top[0] == 'map':
                cands += ['MAP_GET', 'MAP_UPDATE']
            if top[0] == 'list':
                cands += ['IF_CONS', 'LIST_MAP', 'LIST_MAP', 'LIST_REV']
            if top[0] == 'map':
                cands += ['MAP_MAP', 'MAP_ITER']
            if top[0] == 'set':
                cands += ['SET_COPY']
        if len(S) >= 2:
            cands += ['SWAP', 'DIG', 'DUG', 'DUPN', 'UPDATE0']      # UPDATE 0 :: a : b : S -> a : S, any a, b
            if not big and tsize(S[1]) <= self.max_tsize:
                cands += ['PAIR', 'PAIR', 'PAIRN', 'PAIRN']
            if S[1][0] == 'pair' and not big:
                cands += ['UPDATEN'] * 4
            if S[1] == ('list', S[0]):
                cands += ['CONS'] * 2
        c = rng.choice(cands)
        if c == 'PUSH':
            sh = rand_shape(rng, rng.choice([1, 2, 3]), rng.choice([0.3, 0.7, 0.9]))
            return [self.push(sh)], [sh] + S
        if c == 'MAP_ENTRY':
            # a map whose stored key and value come out of ONE annotated pair (UNPAIR keeps the components' `%field`s on the
            # value objects): EMPTY_MAP k v ; PUSH (pair (k %a) (v %b)) .. ; UNPAIR ; DIP { SOME } ; UPDATE, then MAP over it
            K = (rng.choice(['nat', 'int', 'string', 'bytes', 'bool']),) if rng.random() < 0.6 else rand_cmp_shape(rng)
            V = rand_shape(rng, rng.choice([1, 2]), rng.choice([0.3, 0.7]))
            ins = [{'prim': 'EMPTY_MAP', 'args': [self.ty(K), self.ty(V)]}]
            for _ in range(rng.choice([1, 1, 2])):
                kt, vt = annotate(rng, K, rng.choice([0.0, 0.9]), True), annotate(rng, V, rng.choice([0.0, 0.9]), True)
                for t in (kt, vt):
                    if rng.random() < 0.7:
                        t['annots'] = [a for a in t.get('annots', []) if a[0] != '%'] + ['%' + rng.choice(NAMES)]
                ins += [{'prim': 'PUSH', 'args': [{'prim': 'pair', 'args': [kt, vt]}, {'prim': 'Pair', 'args': [small_value(rng, K), rand_value(rng, V)]}]},
                        {'prim': 'UNPAIR'}, {'prim': 'DIP', 'args': [[{'prim': 'SOME'}]]}, {'prim': 'UPDATE'}]
            k = rng.randrange(4)
            if k == 0:
                return ins, [('map', K, V)] + S
            if k == 1:
                return ins + [{'prim': 'MAP', 'args': [[{'prim': 'CDR'}]]}], [('map', K, V)] + S
            if k == 2:
                return ins + [{'prim': 'MAP', 'args': [[{'prim': 'CAR'}]]}], [('map', K, K)] + S
            return ins + [{'prim': 'MAP', 'args': [[{'prim': 'CDR'}, {'prim': 'SOME'}]]}], [('map', K, ('option', V))] + S
        if c in ('CMP_PAIRS', 'SET_PAIRS', 'MAP_PAIRS'):
            K = rand_cmp_shape(rng)
            v1 = small_value(rng, K)
            v2 = v1 if rng.random() < 0.4 else small_value(rng, K)
            ty = lambda: self.ty(K, rng.choice([0.0, 0.5, 0.9]))
            P = lambda v: {'prim': 'PUSH', 'args': [ty(), v]}
            T = {'prim': 'PUSH', 'args': [{'prim': 'bool'}, {'prim': 'True'}]}
            if c == 'CMP_PAIRS':
                return [P(v1), P(v2), {'prim': 'COMPARE'}], [('int',)] + S
            if c == 'SET_PAIRS':
                ins = [{'prim': 'EMPTY_SET', 'args': [ty()]}, T, P(v1), {'prim': 'UPDATE'}, T, P(v2), {'prim': 'UPDATE'}]
                if rng.random() < 0.5:
                    return ins + [P(v1), {'prim': 'MEM'}], [('bool',)] + S
                if rng.random() < 0.5:
                    return ins + [{'prim': 'PUSH', 'args': [{'prim': 'bool'}, {'prim': 'False'}]}, P(v1), {'prim': 'UPDATE'}, {'prim': 'SIZE'}], [('nat',)] + S
                return ins + [{'prim': 'SIZE'}], [('nat',)] + S
            one_ = {'prim': 'PUSH', 'args': [{'prim': 'option', 'args': [{'prim': 'nat'}]}, {'prim': 'Some', 'args': [{'int': str(rng.randrange(9))}]}]}
            ins = [{'prim': 'EMPTY_MAP', 'args': [ty(), {'prim': 'nat'}]}, one_, P(v1), {'prim': 'UPDATE'}, one_, P(v2), {'prim': 'UPDATE'}]
            if rng.random() < 0.5:
                return ins + [P(v1), {'prim': 'GET'}], [('option', ('nat',))] + S
            if rng.random() < 0.5:
                return ins + [{'prim': 'PUSH', 'args': [{'prim': 'option', 'args': [{'prim': 'nat'}]}, {'prim': 'None'}]}, P(v2), {'prim': 'UPDATE'}, {'prim': 'SIZE'}], [('nat',)] + S
            return ins + [P(v2), {'prim': 'MEM'}], [('bool',)] + S
        if c == 'DROP':
            return [{'prim': 'DROP'}], S[1:]
        if c == 'DUP':
            return [{'prim': 'DUP'}], [top] + S
        if c == 'GET0':
            return [{'prim': 'GET', 'args': [{'int': '0'}]}], S
        if c == 'UPDATE0':
            return [{'prim': 'UPDATE', 'args': [{'int': '0'}]}], [top] + S[2:]
        if c == 'SOME':
            return [{'prim': 'SOME'}], [('option', top)] + S[1:]
        if c in ('LEFT', 'RIGHT'):
            other = rand_shape(rng, 2)
            sh = ('or', top, other) if c == 'LEFT' else ('or', other, top)
            return [{'prim': c, 'args': [self.ty(other)]}], [sh] + S[1:]
        if c == 'NILCONS':
            return [{'prim': 'NIL', 'args': [self.ty(top)]}, {'prim': 'SWAP'}, {'prim': 'CONS'}], [('list', top)] + S[1:]
        if c == 'CONS':
            return [{'prim': 'CONS'}], S[1:]
        if c == 'LAMBDA_EXEC':
            res = rand_shape(rng, 2)
            body = [] if res == top and rng.random() < 0.7 else [{'prim': 'DROP'}, self.push(res)]
            if not body:
                res = top
            return [{'prim': 'LAMBDA', 'args': [self.ty(top), self.ty(res), body]}, {'prim': 'SWAP'}, {'prim': 'EXEC'}], [res] + S[1:]
        if c == 'PACK':
            return [{'prim': 'PACK'}], [('bytes',)] + S[1:]
        if c == 'PACK_UNPACK':
            return [{'prim': 'PACK'}, {'prim': 'UNPACK', 'args': [self.ty(top)]}], [('option', top)] + S[1:]
        if c == 'CAR':
            return [{'prim': 'CAR'}], [top[1]] + S[1:]
        if c == 'CDR':
            return [{'prim': 'CDR'}], [top[2]] + S[1:]
        if c == 'UNPAIR':
            return [{'prim': 'UNPAIR'}], [top[1], top[2]] + S[1:]
        if c == 'GETN':
            n = rng.randrange(0, 2 * comb_leaves(top) - 1)
            return [{'prim': 'GET', 'args': [{'int': str(n)}]}], [t_getn(n, top)] + S[1:]
        if c == 'UNPAIRN':
            n = rng.randrange(2, comb_leaves(top) + 1)
            if len(S) - 1 + n > self.max_stack + 3:
                return [{'prim': 'DROP'}], S[1:]
            return [{'prim': 'UNPAIR', 'args': [{'int': str(n)}]}], t_unpairn(n, top) + S[1:]
        if c == 'UPDATEN':
            m = comb_leaves(S[1])
            n = rng.randrange(1, 2 * m - 1)
            return [{'prim': 'UPDATE', 'args': [{'int': str(n)}]}], [t_updaten(n, top, S[1])] + S[2:]
        if c == 'PAIR':
            return [{'prim': 'PAIR'}], [('pair', S[0], S[1])] + S[2:]
        if c == 'PAIRN':
            n = rng.randrange(2, len(S) + 1)
            if sum(tsize(x) for x in S[:n]) > 2 * self.max_tsize:
                n = 2
            return [{'prim': 'PAIR', 'args': [{'int': str(n)}]}], [t_pairn(S[:n])] + S[n:]
        if c == 'SWAP':
            return [{'prim': 'SWAP'}], [S[1], S[0]] + S[2:]
        if c == 'DIG':
            n = rng.randrange(0, len(S))
            return [{'prim': 'DIG', 'args': [{'int': str(n)}]}], [S[n]] + S[:n] + S[n + 1:]
        if c == 'DUG':
            n = rng.randrange(0, len(S))
            return [{'prim': 'DUG', 'args': [{'int': str(n)}]}], S[1:n + 1] + [S[0]] + S[n + 1:]
        if c == 'DUPN':
            n = rng.randrange(1, len(S) + 1)
            if len(S) >= self.max_stack + 3:
                return [{'prim': 'DROP'}], S[1:]
            return [{'prim': 'DUP', 'args': [{'int': str(n)}]}], [S[n - 1]] + S
        if c == 'IF_NONE':
            inner = top[1]
            k = rng.randrange(3)
            if k == 0 or depth >= 2:
                return [{'prim': 'IF_NONE', 'args': [[self.push(inner)], []]}], [inner] + S[1:]
            if k == 1:
                return [{'prim': 'IF_NONE', 'args': [[], [{'prim': 'DROP'}]]}], S[1:]
            body, R = self.gen(S[1:], rng.choice([1, 2, 3]), depth + 1)
            return [{'prim': 'IF_NONE', 'args': [body, [{'prim': 'DROP'}] + body]}], R
        if c == 'IF_LEFT':
            a, b = top[1], top[2]
            if a == b and rng.random() < 0.5:
                return [{'prim': 'IF_LEFT', 'args': [[], []]}], [a] + S[1:]
            if depth >= 2 or rng.random() < 0.4:
                return [{'prim': 'IF_LEFT', 'args': [[{'prim': 'DROP'}], [{'prim': 'DROP'}]]}], S[1:]
            body, R = self.gen(S[1:], rng.choice([1, 2, 3]), depth + 1)
            return [{'prim': 'IF_LEFT', 'args': [[{'prim': 'DROP'}] + body, [{'prim': 'DROP'}] + body]}], R
        if c == 'IF_CONS':
            # IF_CONS { SWAP ; DROP } { PUSH t v }  : head or a default
            return [{'prim': 'IF_CONS', 'args': [[{'prim': 'SWAP'}, {'prim': 'DROP'}], [self.push(top[1])]]}], [top[1]] + S[1:]
        if c == 'LIST_MAP':
            # MAP over a list: the body leaves a component / a wrapped copy of the element — the new list's element type is made
            # from the type the body's result carries (with whatever annotations the element type had on that component)
            el = top[1]
            opts = ['ID', 'SOME', 'CONST']
            if tsize(el) * 2 <= self.max_tsize:
                opts.append('DUPPAIR')
            if el[0] == 'pair':
                opts += ['CAR', 'CDR', 'GETN', 'SWAPPED'] * 2
            if el[0] == 'option':
                opts += ['DEFAULT'] * 2
            k = rng.choice(opts)
            if k == 'ID':
                return [{'prim': 'MAP', 'args': [[]]}], S
            if k == 'SOME':
                return [{'prim': 'MAP', 'args': [[{'prim': 'SOME'}]]}], [('list', ('option', el))] + S[1:]
            if k == 'CONST':
                sh = rand_shape(rng, 1)
                return [{'prim': 'MAP', 'args': [[{'prim': 'DROP'}, self.push(sh)]]}], [('list', sh)] + S[1:]
            if k == 'DUPPAIR':
                return [{'prim': 'MAP', 'args': [[{'prim': 'DUP'}, {'prim': 'PAIR'}]]}], [('list', ('pair', el, el))] + S[1:]
            if k == 'CAR':
                return [{'prim': 'MAP', 'args': [[{'prim': 'CAR'}]]}], [('list', el[1])] + S[1:]
            if k == 'CDR':
                return [{'prim': 'MAP', 'args': [[{'prim': 'CDR'}]]}], [('list', el[2])] + S[1:]
            if k == 'GETN':
                n = rng.randrange(0, 2 * comb_leaves(el) - 1)
                return [{'prim': 'MAP', 'args': [[{'prim': 'GET', 'args': [{'int': str(n)}]}]]}], [('list', t_getn(n, el))] + S[1:]
            if k == 'SWAPPED':
                return [{'prim': 'MAP', 'args': [[{'prim': 'UNPAIR'}, {'prim': 'SWAP'}, {'prim': 'PAIR'}]]}], [('list', ('pair', el[2], el[1]))] + S[1:]
            return [{'prim': 'MAP', 'args': [[{'prim': 'IF_NONE', 'args': [[self.push(el[1])], []]}]]}], [('list', el[1])] + S[1:]
        if c == 'LIST_REV':
            return [{'prim': 'NIL', 'args': [self.ty(top[1])]}, {'prim': 'SWAP'}, {'prim': 'ITER', 'args': [[{'prim': 'CONS'}]]}], S
        if c == 'MAP_MAP':
            kk, vv = top[1], top[2]
            k = rng.choice(['CDR', 'CAR', 'ID', 'CDRSOME'] + (['VCAR', 'VCDR'] * 2 if vv[0] == 'pair' else []))
            if k == 'CDR':
                return [{'prim': 'MAP', 'args': [[{'prim': 'CDR'}]]}], S
            if k == 'CAR':
                return [{'prim': 'MAP', 'args': [[{'prim': 'CAR'}]]}], [('map', kk, kk)] + S[1:]
            if k == 'ID':
                if tsize(kk) + tsize(vv) > self.max_tsize:
                    return [{'prim': 'MAP', 'args': [[{'prim': 'CDR'}]]}], S
                return [{'prim': 'MAP', 'args': [[]]}], [('map', kk, ('pair', kk, vv))] + S[1:]
            if k == 'CDRSOME':
                return [{'prim': 'MAP', 'args': [[{'prim': 'CDR'}, {'prim': 'SOME'}]]}], [('map', kk, ('option', vv))] + S[1:]
            if k == 'VCAR':
                return [{'prim': 'MAP', 'args': [[{'prim': 'CDR'}, {'prim': 'CAR'}]]}], [('map', kk, vv[1])] + S[1:]
            return [{'prim': 'MAP', 'args': [[{'prim': 'CDR'}, {'prim': 'CDR'}]]}], [('map', kk, vv[2])] + S[1:]
        if c == 'MAP_ITER':
            # collect the values: NIL v ; SWAP ; ITER { CDR ; CONS }
            return [{'prim': 'NIL', 'args': [self.ty(top[2])]}, {'prim': 'SWAP'}, {'prim': 'ITER', 'args': [[{'prim': 'CDR'}, {'prim': 'CONS'}]]}], [('list', top[2])] + S[1:]
        if c == 'SET_COPY':
            T = {'prim': 'PUSH', 'args': [{'prim': 'bool'}, {'prim': 'True'}]}
            return [{'prim': 'EMPTY_SET', 'args': [self.ty(top[1])]}, {'prim': 'SWAP'}, {'prim': 'ITER', 'args': [[T, {'prim': 'SWAP'}, {'prim': 'UPDATE'}]]}], S
        if c == 'MAP_GET':
            key = rand_keys(rng, top[1], 1)[0]
            return [{'prim': 'PUSH', 'args': [self.ty(top[1]), key]}, {'prim': 'GET'}], [('option', top[2])] + S[1:]
        if c == 'MAP_UPDATE':
            key = rand_keys(rng, top[1], 1)[0]
            return [self.push(top[2]), {'prim': 'SOME'}, {'prim': 'PUSH', 'args': [self.ty(top[1]), key]}, {'prim': 'UPDATE'}], S
        raise AssertionError(c)


FIELD_INSTR = {'CAR', 'CDR', 'LEFT', 'RIGHT'}
# instructions on which Michelson accepts a variable annotation
VAR_INSTR = {'PUSH', 'CAR', 'CDR', 'PAIR', 'GET', 'UPDATE', 'SOME', 'NIL', 'NONE', 'LEFT', 'RIGHT', 'PACK', 'UNPACK', 'CONS', 'DUP',
             'LAMBDA', 'EXEC', 'EMPTY_MAP', 'EMPTY_SET', 'COMPARE', 'MEM', 'SIZE'}


def reannotate(rng, seq, mode='random'):
    """same program, every type argument re-annotated (mode 'strip': all annotations removed) and `@var` / `%field`
    annotations put on / taken off instructions"""
    out = []
    for ins in seq:
        if isinstance(ins, list):
            out.append(reannotate(rng, ins, mode))
            continue
        p = ins['prim']
        d = {'prim': p}
        tpos = TYPE_ARG_POS.get(p, [])
        if 'args' in ins:
            args = []
            for i, a in enumerate(ins['args']):
                if i in tpos:
                    args.append(strip_type(a) if mode == 'strip' else annotate(rng, shape(a), rng.choice([0.2, 0.6, 1.0])))
                elif isinstance(a, list) and (p in ('IF_NONE', 'IF_LEFT', 'IF_CONS', 'DIP', 'ITER', 'MAP') or (p == 'LAMBDA' and i == 2)):
                    args.append(reannotate(rng, a, mode))
                else:
                    args.append(a)
            d['args'] = args
        if mode != 'strip' and rng.random() < 0.25:
            ann = []
            if p in VAR_INSTR and rng.random() < 0.7:
                ann.append('@' + rng.choice(NAMES))
            if p in FIELD_INSTR and rng.random() < 0.6:
                ann.append('%' + rng.choice(NAMES))
            if p == 'PAIR' and not ins.get('args') and rng.random() < 0.6:
                ann += ['%' + rng.choice(NAMES), '%' + rng.choice(NAMES)]
            if ann:
                d['annots'] = ann
        out.append(d)
    return out


def flat_len(seq):
    return sum(1 + sum(flat_len(a) for a in i.get('args', []) if isinstance(a, list)) if isinstance(i, dict) else flat_len(i) for i in seq)


def prims(seq):
    out = []
    for i in seq:
        if isinstance(i, list):
            out += prims(i)
        else:
            out.append(i['prim'] + (' n' if i['prim'] in ('GET', 'UPDATE', 'PAIR', 'UNPAIR', 'DUP') and i.get('args') else ''))
            for a in i.get('args', []):
                if isinstance(a, list) and a and isinstance(a[0], dict) and a[0].get('prim', '').isupper():
                    out += prims(a)
    return out
