"""C03 / C14 shared helpers: comparable Michelson types and values (abstract form), an adversarial generator,
an INDEPENDENT oracle for the Tezos total order, Micheline rendering (own base58check tables, `base58` lib only —
pytezos is never imported here) and the token encoding read by lean/Driver/C03.lean / C14.lean.

Abstract values (hashable tuples):
  ('unit',) ('bool', b) ('int', n) ('str', s) ('bytes', b) ('kh', kind, payload) ('addr', kind, payload, ep)
  ('key', curve, payload) ('sig', kind, payload) ('cid', payload) ('none',) ('some', v) ('left', v) ('right', v)
  ('pair', a, b)
Types: leaf name (str) or ('option', t) / ('or', l, r) / ('pair', l, r).
"""
import base58

LEAVES = ['unit', 'bool', 'int', 'nat', 'mutez', 'timestamp', 'string', 'bytes',
          'key_hash', 'address', 'key', 'signature', 'chain_id']
INT_LIKE = ('int', 'nat', 'mutez', 'timestamp')

# --- own copy of the base58check rows needed here: text prefix -> (binary prefix, payload length) -----------------
KH_KINDS = ['tz1', 'tz2', 'tz3', 'tz4']                       # Ed25519 < Secp256k1 < P256 < Bls
ADDR_KINDS = ['tz1', 'tz2', 'tz3', 'tz4', 'KT1', 'sr1']       # implicit (0..3) < originated (4) < smart rollup (5)
KEY_CURVES = ['edpk', 'sppk', 'p2pk', 'BLpk']
SIG_KINDS = ['edsig', 'spsig', 'p2sig', 'sig', 'BLsig']
B58 = {
    'tz1': (bytes([6, 161, 159]), 20), 'tz2': (bytes([6, 161, 161]), 20), 'tz3': (bytes([6, 161, 164]), 20),
    'tz4': (bytes([6, 161, 166]), 20), 'KT1': (bytes([2, 90, 121]), 20), 'sr1': (bytes([6, 124, 117]), 20),
    'edpk': (bytes([13, 15, 37, 217]), 32), 'sppk': (bytes([3, 254, 226, 86]), 33),
    'p2pk': (bytes([3, 178, 139, 127]), 33), 'BLpk': (bytes([6, 149, 135, 204]), 48),
    'edsig': (bytes([9, 245, 205, 134, 18]), 64), 'spsig': (bytes([13, 115, 101, 19, 63]), 64),
    'p2sig': (bytes([54, 240, 44, 52]), 64), 'sig': (bytes([4, 130, 43]), 64),
    'BLsig': (bytes([40, 171, 64, 207]), 96), 'Net': (bytes([87, 82, 0]), 4),
}
EP_CHARS = 'abcdefghijklmnopqrstuvwxyzABCDEFGHIJKLMNOPQRSTUVWXYZ0123456789_'
EP_ADVERSARIAL = ['', 'default', 'defaul', 'defaulta', 'default0', 'defaulu', 'defaulT', 'd', 'e', 'a', 'z', 'Z', '_', '0', 'root', 'do',
                  'set_delegate', 'remove_delegate', 'Default', 'DEFAULT']


def b58(kind, payload):
    pfx, n = B58[kind]
    assert len(payload) == n, (kind, len(payload))
    s = base58.b58encode_check(pfx + payload).decode()
    assert s.startswith(kind), (kind, s)
    return s


# ---------------------------------------------------------------------------------------------------------------------
# types
def ty_depth(t):
    return 0 if isinstance(t, str) else 1 + max(ty_depth(x) for x in t[1:])


def inhabited(t):
    if isinstance(t, str):
        return t != 'never'
    if t[0] == 'option':
        return True
    if t[0] == 'or':
        return inhabited(t[1]) or inhabited(t[2])
    return inhabited(t[1]) and inhabited(t[2])


def gen_type(rng, depth, leaves=None, allow_never=True):
    leaves = leaves or LEAVES
    if depth <= 0 or rng.random() < 0.25:
        if allow_never and rng.random() < 0.02:
            return 'never'
        return rng.choice(leaves)
    k = rng.choice(['option', 'or', 'pair', 'pair', 'pair'])
    if k == 'option':
        return ('option', gen_type(rng, depth - 1, leaves, allow_never))
    return (k, gen_type(rng, depth - 1, leaves, allow_never), gen_type(rng, depth - 1, leaves, allow_never))


def ty_expr(t):
    """Micheline JSON of the type"""
    if isinstance(t, str):
        return {'prim': t}
    return {'prim': t[0], 'args': [ty_expr(x) for x in t[1:]]}


def ty_text(t):
    if isinstance(t, str):
        return t
    return '(' + t[0] + ' ' + ' '.join(ty_text(x) for x in t[1:]) + ')'


def ty_tokens(t):
    if isinstance(t, str):
        return [t]
    out = [t[0]]
    for x in t[1:]:
        out += ty_tokens(x)
    return out


def ty_shape(t):
    """coarse bucket for the input-distribution histogram"""
    if isinstance(t, str):
        return t
    return t[0] + '<' + ','.join(ty_shape(x) if isinstance(x, str) else x[0] + '..' for x in t[1:]) + '>'


# ---------------------------------------------------------------------------------------------------------------------
# values
def _rand_bytes(rng, n):
    r = rng.random()
    if r < 0.15:
        return bytes([rng.choice([0, 1, 0x7f, 0x80, 0xfe, 0xff])] * n)
    return bytes(rng.getrandbits(8) for _ in range(n))


def _rand_str(rng):
    n = rng.choice([0, 1, 1, 2, 3, 5, 8])
    alpha = ' !~0189AZaz_'
    return ''.join(rng.choice(alpha) for _ in range(n))


def _rand_ep(rng):
    if rng.random() < 0.45:
        return ''
    if rng.random() < 0.6:
        return rng.choice(EP_ADVERSARIAL)
    return ''.join(rng.choice(EP_CHARS) for _ in range(rng.randrange(1, 9)))


def _key_payload(rng, curve, base=None):
    n = B58[curve][1]
    if curve in ('sppk', 'p2pk'):
        x = _rand_bytes(rng, 32) if base is None else base[-32:].rjust(32, b'\0')
        return bytes([rng.choice([2, 3])]) + x
    return _rand_bytes(rng, n) if base is None else (base[-32:] + _rand_bytes(rng, n))[:n]


def _rand_int(rng, t):
    r = rng.random()
    if r < 0.5:
        v = rng.randrange(-4, 5)
    elif r < 0.8:
        v = rng.choice([-2 ** 63, -2 ** 31, -256, -255, 255, 256, 2 ** 31, 2 ** 62, 2 ** 63 - 1, 2 ** 64, 10 ** 30, -10 ** 30])
    else:
        v = rng.getrandbits(rng.randrange(1, 90)) * rng.choice([1, -1])
    if t in ('nat', 'mutez'):
        v = abs(v)
    if t == 'mutez':
        v = min(v, 2 ** 63 - 1)
    return v


def gen_value(rng, t):
    if isinstance(t, str):
        if t == 'unit':
            return ('unit',)
        if t == 'bool':
            return ('bool', rng.random() < 0.5)
        if t in INT_LIKE:
            return ('int', _rand_int(rng, t))
        if t == 'string':
            return ('str', _rand_str(rng))
        if t == 'bytes':
            return ('bytes', _rand_bytes(rng, rng.choice([0, 1, 1, 2, 3, 5])))
        if t == 'key_hash':
            return ('kh', rng.randrange(4), _rand_bytes(rng, 20))
        if t == 'address':
            return ('addr', rng.randrange(6), _rand_bytes(rng, 20), _rand_ep(rng))
        if t == 'key':
            c = rng.randrange(4)
            return ('key', c, _key_payload(rng, KEY_CURVES[c]))
        if t == 'signature':
            k = rng.randrange(5)
            return ('sig', k, _rand_bytes(rng, B58[SIG_KINDS[k]][1]))
        if t == 'chain_id':
            return ('cid', _rand_bytes(rng, 4))
        raise ValueError(t)
    if t[0] == 'option':
        if not inhabited(t[1]) or rng.random() < 0.3:
            return ('none',)
        return ('some', gen_value(rng, t[1]))
    if t[0] == 'or':
        left = rng.random() < 0.5
        if not inhabited(t[1]):
            left = False
        elif not inhabited(t[2]):
            left = True
        return ('left', gen_value(rng, t[1])) if left else ('right', gen_value(rng, t[2]))
    return ('pair', gen_value(rng, t[1]), gen_value(rng, t[2]))


def _tweak_bytes(rng, b, fixed_len):
    """a byte string close to b in lexicographic order"""
    b = bytearray(b)
    ops = ['first', 'last', 'mid'] if fixed_len else ['first', 'last', 'mid', 'append0', 'appendff', 'drop', 'empty']
    op = rng.choice(ops)
    if not b and op in ('first', 'last', 'mid', 'drop'):
        op = 'append0' if not fixed_len else None
    if op == 'first':
        b[0] = (b[0] + rng.choice([1, -1, 128])) % 256
    elif op == 'last':
        b[-1] = (b[-1] + rng.choice([1, -1])) % 256
    elif op == 'mid':
        i = rng.randrange(len(b))
        b[i] = (b[i] + rng.choice([1, -1, 7])) % 256
    elif op == 'append0':
        b.append(0)
    elif op == 'appendff':
        b.append(0xff)
    elif op == 'drop':
        b.pop()
    elif op == 'empty':
        b = bytearray()
    return bytes(b)


def near(rng, t, v):
    """a value of type t that differs from v as little as possible (equal prefixes / one component changed)"""
    if isinstance(t, str):
        if t == 'unit':
            return v
        if t == 'bool':
            return ('bool', not v[1])
        if t in INT_LIKE:
            w = v[1] + rng.choice([1, -1, 2, -2, 256, -256]) if rng.random() < 0.8 else -v[1]
            if t in ('nat', 'mutez'):
                w = abs(w)
            if t == 'mutez':
                w = min(w, 2 ** 63 - 1)
            return ('int', w)
        if t == 'string':
            s = _tweak_bytes(rng, v[1].encode(), False)
            s = bytes(32 + (c - 32) % 95 for c in s)      # printable ASCII only
            return ('str', s.decode())
        if t == 'bytes':
            return ('bytes', _tweak_bytes(rng, v[1], False))
        if t == 'key_hash':
            if rng.random() < 0.4:
                return ('kh', rng.randrange(4), v[2])
            return ('kh', v[1], _tweak_bytes(rng, v[2], True))
        if t == 'address':
            r = rng.random()
            if r < 0.3:
                return ('addr', rng.randrange(6), v[2], v[3])
            if r < 0.6:
                return ('addr', v[1], _tweak_bytes(rng, v[2], True), v[3])
            return ('addr', v[1], v[2], _rand_ep(rng))
        if t == 'key':
            r = rng.random()
            if r < 0.3:
                c = rng.randrange(4)
                return ('key', c, _key_payload(rng, KEY_CURVES[c], base=v[2]))
            if r < 0.5 and KEY_CURVES[v[1]] in ('sppk', 'p2pk'):
                return ('key', v[1], bytes([5 - v[2][0]]) + v[2][1:])     # same X, other parity flag
            p = _tweak_bytes(rng, v[2], True)
            if KEY_CURVES[v[1]] in ('sppk', 'p2pk') and p[0] not in (2, 3):
                p = bytes([rng.choice([2, 3])]) + p[1:]
            return ('key', v[1], p)
        if t == 'signature':
            r = rng.random()
            if r < 0.35:
                k = rng.randrange(5)
                n = B58[SIG_KINDS[k]][1]
                return ('sig', k, (v[2] + _rand_bytes(rng, 96))[:n])       # same bytes / prefix-related bytes, other text kind
            return ('sig', v[1], _tweak_bytes(rng, v[2], True))
        if t == 'chain_id':
            return ('cid', _tweak_bytes(rng, v[1], True))
        raise ValueError(t)
    if t[0] == 'option':
        if v[0] == 'none':
            return gen_value(rng, t)
        if rng.random() < 0.2:
            return ('none',)
        return ('some', near(rng, t[1], v[1]))
    if t[0] == 'or':
        r = rng.random()
        if r < 0.25:
            return gen_value(rng, t)
        return (v[0], near(rng, t[1] if v[0] == 'left' else t[2], v[1]))
    r = rng.random()
    if r < 0.35:
        return ('pair', near(rng, t[1], v[1]), v[2])            # first component decides
    if r < 0.7:
        return ('pair', v[1], near(rng, t[2], v[2]))            # equal prefix, second decides
    return ('pair', near(rng, t[1], v[1]), near(rng, t[2], v[2]))   # both move: first vs second


def gen_pair(rng, t):
    a = gen_value(rng, t)
    r = rng.random()
    if r < 0.08:
        return a, a
    if r < 0.75:
        b = near(rng, t, a)
        if rng.random() < 0.3:
            b = near(rng, t, b)
    else:
        b = gen_value(rng, t)
    return (a, b) if rng.random() < 0.5 else (b, a)


def gen_triple(rng, t):
    a = gen_value(rng, t)
    b = near(rng, t, a) if rng.random() < 0.7 else gen_value(rng, t)
    c = near(rng, t, rng.choice([a, b])) if rng.random() < 0.7 else gen_value(rng, t)
    xs = [a, b, c]
    rng.shuffle(xs)
    return tuple(xs)


# ---------------------------------------------------------------------------------------------------------------------
# the oracle: the Tezos order, written independently of pytezos and of the Lean model
def _c(x, y):
    return (x > y) - (x < y)


def _key_of(v):
    """total-order key of a LEAF value (python tuples/bytes/ints compare the way the reference does)"""
    k = v[0]
    if k == 'unit':
        return 0
    if k == 'bool':
        return 1 if v[1] else 0
    if k == 'int':
        return v[1]
    if k == 'str':
        return v[1].encode()                       # byte-wise
    if k == 'bytes':
        return v[1]
    if k == 'kh':
        return (v[1], v[2])                        # curve tag, then hash bytes
    if k == 'addr':
        cls = 0 if v[1] < 4 else (1 if v[1] == 4 else 2)     # implicit < originated < rollup
        return (cls, v[1], v[2], (v[3] or 'default').encode())
    if k == 'key':
        return (v[1], v[2])                        # curve tag, then the (compressed) key bytes
    if k == 'sig':
        return v[2]                                # raw signature bytes; the textual kind is not part of the value
    if k == 'cid':
        return v[1]
    raise ValueError(v)


def tz_cmp(a, b):
    ka, kb = a[0], b[0]
    if ka == 'pair':
        c = tz_cmp(a[1], b[1])
        return c if c else tz_cmp(a[2], b[2])
    if ka in ('none', 'some'):
        if ka != kb:
            return -1 if ka == 'none' else 1
        return 0 if ka == 'none' else tz_cmp(a[1], b[1])
    if ka in ('left', 'right'):
        if ka != kb:
            return -1 if ka == 'left' else 1
        return tz_cmp(a[1], b[1])
    assert ka == kb, (a, b)
    return _c(_key_of(a), _key_of(b))


def tz_eq(a, b):
    return tz_cmp(a, b) == 0


def tz_sorted(vals):
    """strictly ascending, duplicates (by the order) removed keeping the first occurrence"""
    import functools
    out = []
    for v in vals:
        if not any(tz_eq(v, w) for w in out):
            out.append(v)
    return sorted(out, key=functools.cmp_to_key(tz_cmp))


def strictly_sorted(vals):
    return all(tz_cmp(vals[i], vals[i + 1]) < 0 for i in range(len(vals) - 1))


# ---------------------------------------------------------------------------------------------------------------------
# rendering
def addr_text(v):
    s = b58(ADDR_KINDS[v[1]], v[2])
    return s + ('%' + v[3] if v[3] else '')


def to_micheline(v):
    k = v[0]
    if k == 'unit':
        return {'prim': 'Unit'}
    if k == 'bool':
        return {'prim': 'True' if v[1] else 'False'}
    if k == 'int':
        return {'int': str(v[1])}
    if k == 'str':
        return {'string': v[1]}
    if k == 'bytes':
        return {'bytes': v[1].hex()}
    if k == 'kh':
        return {'string': b58(KH_KINDS[v[1]], v[2])}
    if k == 'addr':
        return {'string': addr_text(v)}
    if k == 'key':
        return {'string': b58(KEY_CURVES[v[1]], v[2])}
    if k == 'sig':
        return {'string': b58(SIG_KINDS[v[1]], v[2])}
    if k == 'cid':
        return {'string': b58('Net', v[1])}
    if k == 'none':
        return {'prim': 'None'}
    if k == 'some':
        return {'prim': 'Some', 'args': [to_micheline(v[1])]}
    if k == 'left':
        return {'prim': 'Left', 'args': [to_micheline(v[1])]}
    if k == 'right':
        return {'prim': 'Right', 'args': [to_micheline(v[1])]}
    if k == 'pair':
        return {'prim': 'Pair', 'args': [to_micheline(v[1]), to_micheline(v[2])]}
    raise ValueError(v)


def to_text(v):
    """Michelson source text of the value"""
    k = v[0]
    m = to_micheline(v)
    if 'int' in m:
        return m['int']
    if 'string' in m:
        return '"' + m['string'].replace('\\', '\\\\').replace('"', '\\"') + '"'
    if 'bytes' in m:
        return '0x' + m['bytes']
    if k in ('unit', 'bool', 'none'):
        return m['prim']
    if k == 'pair':
        return f'(Pair {to_text(v[1])} {to_text(v[2])})'
    return f'({m["prim"]} {to_text(v[1])})'


def _hex(b):
    return b.hex() if b else '-'


def val_tokens(v):
    """token encoding for the Lean drivers (structured form: kind tag + payload bytes [+ entrypoint])"""
    k = v[0]
    if k == 'unit':
        return ['U']
    if k == 'bool':
        return ['T' if v[1] else 'F']
    if k == 'int':
        return [f'I{v[1]}']
    if k == 'str':
        return ['S' + _hex(v[1].encode())]
    if k == 'bytes':
        return ['B' + _hex(v[1])]
    if k == 'kh':
        return [f'H{v[1]}:{_hex(v[2])}']
    if k == 'addr':
        ep = '' if v[3] == 'default' else v[3]          # AddressType.from_value strips `%default`
        return [f'A{v[1]}:{_hex(v[2])}:{_hex(ep.encode())}']
    if k == 'key':
        return [f'K{v[1]}:{_hex(v[2])}']
    if k == 'sig':
        return ['G' + _hex(v[2])]
    if k == 'cid':
        return ['C' + _hex(v[1])]
    if k == 'none':
        return ['N']
    if k == 'some':
        return ['J'] + val_tokens(v[1])
    if k == 'left':
        return ['L'] + val_tokens(v[1])
    if k == 'right':
        return ['R'] + val_tokens(v[1])
    if k == 'pair':
        return ['P'] + val_tokens(v[1]) + val_tokens(v[2])
    raise ValueError(v)


def describe(v):
    """JSON-friendly rendering for replays"""
    return to_text(v)


def contains_kind(v, kinds):
    if v[0] in kinds:
        return True
    return any(contains_kind(x, kinds) for x in v[1:] if isinstance(x, tuple))


def normalise_value(v):
    """what pytezos stores: `%default` is stripped by AddressType.from_value"""
    if v[0] == 'addr' and v[3] == 'default':
        return ('addr', v[1], v[2], '')
    if v[0] in ('some', 'left', 'right'):
        return (v[0], normalise_value(v[1]))
    if v[0] == 'pair':
        return ('pair', normalise_value(v[1]), normalise_value(v[2]))
    return v
