"""Per-property claims live in claims/Cxx.json (text, note, technique, design_ref[, category]);
tools/mk_manifest.py turns them into MANIFEST.json.  A property without a claim file is listed under
not_applicable with the reason below (or the specific one in NOT_APPLICABLE)."""
import json
import os

_D = os.path.join(os.path.dirname(os.path.dirname(os.path.abspath(__file__))), 'claims')
CLAIMED = {fn[:-5]: json.load(open(os.path.join(_D, fn))) for fn in sorted(os.listdir(_D)) if fn.endswith('.json')}
NOT_YET = 'check not built yet (model and theorem planned in DESIGN.md §5); not claimed'
NOT_APPLICABLE = {}
