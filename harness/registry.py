"""Per-property claims live in claims/Cxx.json (text, note, technique, design_ref[, category]);
tools/mk_manifest.py turns them into MANIFEST.json.  A property without a claim file is listed under
not_applicable with the reason below (or the specific one in NOT_APPLICABLE)."""
import json
import os

_D = os.path.join(os.path.dirname(os.path.dirname(os.path.abspath(__file__))), 'claims')
# a claim is published only once the orchestrator has reviewed it and its check passes on /repo (claims/READY)
_READY = set(open(os.path.join(_D, 'READY')).read().split()) if os.path.exists(os.path.join(_D, 'READY')) else set()
CLAIMED = {fn[:-5]: json.load(open(os.path.join(_D, fn))) for fn in sorted(os.listdir(_D)) if fn.endswith('.json') and fn[:-5] in _READY}
NOT_YET = 'check not built yet (model and theorem planned in DESIGN.md §5); not claimed'
NOT_APPLICABLE = {}
