"""Per-property registration data; tools/mk_manifest.py turns this into MANIFEST.json."""

CLAIMED = {
    'C28': {
        'text': 'Lean theorem `C28.rotation`: for every node count n>0 and every outcome sequence (induction over the list, no length bound) the '
                'model of RpcMultiNode.request sends request i to node i % n. The model is parametrised by the exit-path structure of the method, '
                're-extracted from the source on every run; the real class is run against the model on exhaustive short and random long outcome sequences.',
        'note': 'Trusted: Lean kernel; the ast pattern that classifies RpcMultiNode.request (advance in finally / after call); the stubbed RpcNode.request '
                '(success or RpcError) stands for the network. Only the rotation logic is modelled; RpcNode.request itself is C26.',
        'technique': 'Lean 4 proof by list induction over a source-extracted model + differential correspondence',
        'design_ref': '§5 C28',
    },
}

NOT_YET = 'check not built yet in this session (model and theorem planned in DESIGN.md §5); not claimed'
NOT_APPLICABLE = {}
