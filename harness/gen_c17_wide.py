"""C17, wide stream: programs of the type-directed generator of C01/C02 (harness/gen_interp.py — every instruction form of the
interpreter model: control flow, loops, lambdas, collections, arithmetic, strings / bytes, hashing, environment readers), with
random `%field` / `:type` annotations put on every type written in the program and `@var` annotations on instructions.  The
program as generated carries no annotation at all, so it is its own annotation-free twin."""
import json

# positions of type arguments
TYPE_POS = {'PUSH': [0], 'NIL': [0], 'NONE': [0], 'LEFT': [0], 'RIGHT': [0], 'EMPTY_SET': [0], 'EMPTY_MAP': [0, 1], 'EMPTY_BIG_MAP': [0, 1],
            'LAMBDA': [0, 1], 'CAST': [0], 'UNPACK': [0], 'CONTRACT': [0]}
NAMES = ['a', 'b', 'x', 'owner', 'amount_1', 'k_1', 'Z', 'default', 'v0', 'left', 'Pair', 'int', 'pct%', 'amount%mutez', 'a@b', 'x.y']
VAR_OK = {'PUSH', 'CAR', 'CDR', 'PAIR', 'GET', 'UPDATE', 'SOME', 'NIL', 'NONE', 'LEFT', 'RIGHT', 'CONS', 'DUP', 'LAMBDA', 'EXEC', 'EMPTY_MAP',
          'EMPTY_SET', 'COMPARE', 'MEM', 'SIZE', 'ADD', 'SUB', 'MUL', 'EDIV', 'ABS', 'NEG', 'INT', 'ISNAT', 'NOT', 'AND', 'OR', 'XOR', 'LSL', 'LSR',
          'EQ', 'NEQ', 'LT', 'GT', 'LE', 'GE', 'CONCAT', 'SLICE', 'UNIT', 'AMOUNT', 'BALANCE', 'NOW', 'LEVEL', 'SENDER', 'SOURCE', 'SELF_ADDRESS',
          'CHAIN_ID', 'BLAKE2B', 'SHA256', 'SHA512', 'KECCAK', 'SHA3', 'APPLY', 'GET_AND_UPDATE', 'UNPAIR', 'SUB_MUTEZ', 'TOTAL_VOTING_POWER'}


def annotate_type(rng, t, density, field_ok=False):
    d = {'prim': t['prim']}
    if t.get('args'):
        child_field = t['prim'] in ('pair', 'or')
        d['args'] = [annotate_type(rng, a, density, child_field) for a in t['args']]
    if rng.random() < density:
        k = rng.randrange(6)
        name = rng.choice(NAMES)
        if k in (0, 1, 2) and field_ok:
            d['annots'] = ['%' + name]
        elif k == 3 and field_ok:
            d['annots'] = [':' + rng.choice(NAMES), '%' + name]
        else:
            d['annots'] = [':' + name]
    return d


def is_lambda_type(t):
    return isinstance(t, dict) and t.get('prim') == 'lambda'


def annotate_code(rng, code, density):
    if isinstance(code, list):
        return [annotate_code(rng, c, density) for c in code]
    p = code['prim']
    d = {'prim': p}
    tpos = TYPE_POS.get(p, [])
    if 'args' in code:
        args = []
        for i, a in enumerate(code['args']):
            if i in tpos:
                args.append(annotate_type(rng, a, density))
            elif isinstance(a, list) and p != 'PUSH':
                args.append(annotate_code(rng, a, density))
            elif p == 'PUSH' and i == 1 and is_lambda_type(code['args'][0]) and isinstance(a, list):
                args.append(annotate_code(rng, a, density))          # a pushed lambda literal is code
            else:
                args.append(a)
        d['args'] = args
    if p in VAR_OK and rng.random() < 0.15:
        d['annots'] = ['@' + rng.choice(NAMES)]
    elif p in ('LEFT', 'RIGHT') and rng.random() < 0.3:
        d['annots'] = ['%' + rng.choice(NAMES), '%' + rng.choice(NAMES)]
    elif p in ('CAR', 'CDR') and rng.random() < 0.1:
        d['annots'] = ['@' + rng.choice(NAMES)]
    return d


def strip_annots(m):
    if isinstance(m, list):
        return [strip_annots(x) for x in m]
    if isinstance(m, dict) and 'prim' in m:
        d = {'prim': m['prim']}
        if m.get('args'):
            d['args'] = [strip_annots(a) for a in m['args']]
        return d
    return m


def observe(res):
    """annotation-blind observation of interp_run.run_real's result"""
    if res[0] == 'ok':
        return ('ok', json.dumps([(t, strip_annots(v)) for t, v in res[1]], sort_keys=True))
    if res[0] == 'failed':
        return ('failed', str(res[1]))
    return ('err',)


def seq_paths(code, prefix=()):
    """paths to every instruction position inside every sequence of `code` (a list): deepest first"""
    out = []
    for i, ins in enumerate(code):
        if isinstance(ins, list):
            out += seq_paths(ins, prefix + (i,))
        elif isinstance(ins, dict) and ins.get('prim') != 'PUSH':
            for j, a in enumerate(ins.get('args', [])):
                if isinstance(a, list):
                    out += seq_paths(a, prefix + (i, 'args', j))
        out.append(prefix + (i,))
    return out


def remove_at(code, path):
    """deep copy of `code` without the instruction at `path`"""
    code = json.loads(json.dumps(code))
    cur = code
    for k in path[:-1]:
        cur = cur[k]
    del cur[path[-1]]
    return code


def last_prim(code):
    """the instruction the run is about: the last primitive of the outermost sequence"""
    flat = [x for x in code if isinstance(x, dict)]
    return flat[-1]['prim'] if flat else '?'
