"""C20 — program generator over the ticket instruction set, with two printers (Michelson text for the real interpreter,
tokens for lean/Driver/C20.lean).  Never imports pytezos.

Instructions are tuples: ('PUSH', ty, val), ('IF_NONE', [..], [..]), ('ITER', [..]), ('MAP', [..]), ('DIP', [..]),
('DIPN', n, [..]), ('DUPN', n), ('DIG', n), ('DUG', n), ('NONE', ty), ('NIL', ty), ('EMPTY_MAP', k, v), ('EMPTY_BIG_MAP', k, v),
('SEQ', [..]) and nullary ('TICKET',) …   Types are tuples ('nat',) ('pair', a, b) ('ticket', t) …; values are
('nat', n) ('str', s) ('addr', s) ('unit',) ('pair', a, b) ('none', ty) ('some', v) ('list', ty, [..]).

Generation is type-directed over an abstract stack of types (a ticket entry also remembers its amount when it is
known, so that splits that add up — and splits with a zero part — are produced on purpose), mixed with a share of
instructions picked regardless of the types: those exercise the dynamic checks (DUP / DUP n / GET on ticket-bearing
values, PUSH of a ticket type, ill-typed operands)."""

TICKETERS = ['KT1BEqzn5Wx8uJrZNvuS9DVHmLvG9td3fDLi', 'KT1VG2WtYdSWz5E7chTeAdDPZNy2MpP8pTfL']
AMOUNTS = [0, 1, 1, 2, 2, 3, 3, 5, 2 ** 64, 10 ** 30]
CONTENT_TYPES = [('nat',), ('string',), ('unit',), ('pair', ('nat',), ('string',)),
                 # optional contents whose payload has a value Python treats as false: `Some ""` / `Some False` are not `None`
                 ('option', ('string',)), ('option', ('bool',)), ('pair', ('nat',), ('option', ('string',))),
                 # unions whose two branches hold the same payload type: `Left v` and `Right v` are different contents
                 ('or', ('nat',), ('nat',)), ('or', ('unit',), ('unit',)), ('pair', ('or', ('string',), ('string',)), ('nat',)),
                 # an option directly inside an option: `None` and `Some None` are different contents
                 ('option', ('option', ('nat',))), ('pair', ('nat',), ('option', ('option', ('bool',)))),
                 # a pair whose LEFT component is a pair (not a right comb): contents that differ only after the nested pair
                 ('pair', ('pair', ('bool',), ('unit',)), ('bool',)), ('pair', ('nat',), ('pair', ('pair', ('unit',), ('bool',)), ('string',))),
                 ('option', ('pair', ('pair', ('unit',), ('unit',)), ('nat',)))]


# ---------------------------------------------------------------------------------------------- printers
def ty_text(t, top=False):
    if len(t) == 1:
        return t[0]
    s = t[0] + ''.join(' ' + ty_text(a) for a in t[1:])
    return s if top else '(' + s + ')'


def ty_tokens(t):
    out = [t[0]]
    for a in t[1:]:
        out += ty_tokens(a)
    return out


def val_text(v, top=False):
    k = v[0]
    if k == 'nat':
        return str(v[1])
    if k in ('str', 'addr'):
        return '"' + v[1] + '"'
    if k == 'unit':
        return 'Unit'
    if k == 'bool':
        return 'True' if v[1] else 'False'
    if k == 'set':
        return '{ ' + ' ; '.join(val_text(x, True) for x in v[2]) + ' }' if v[2] else '{}'
    if k == 'map':
        return '{ ' + ' ; '.join('Elt ' + val_text(a) + ' ' + val_text(b) for a, b in v[3]) + ' }' if v[3] else '{}'
    if k == 'left':
        s = 'Left ' + val_text(v[1])
    elif k == 'right':
        s = 'Right ' + val_text(v[2])
    elif k == 'pair':
        s = 'Pair ' + val_text(v[1]) + ' ' + val_text(v[2])
    elif k == 'none':
        return 'None'
    elif k == 'some':
        s = 'Some ' + val_text(v[1])
    elif k == 'list':
        return '{ ' + ' ; '.join(val_text(x, True) for x in v[2]) + ' }' if v[2] else '{}'
    else:
        raise ValueError(v)
    return s if top else '(' + s + ')'


def val_tokens(v):
    k = v[0]
    if k == 'nat':
        return [f'N{v[1]}']
    if k == 'str':
        return ['S' + (v[1].encode().hex() or '-')]
    if k == 'addr':
        return ['A' + v[1].encode().hex()]
    if k == 'unit':
        return ['U']
    if k == 'bool':
        return ['B1' if v[1] else 'B0']
    if k == 'left':
        return ['left'] + val_tokens(v[1]) + ty_tokens(v[2])
    if k == 'right':
        return ['right'] + ty_tokens(v[1]) + val_tokens(v[2])
    if k == 'set':
        out = [f'E{len(v[2])}'] + ty_tokens(v[1])
        for x in v[2]:
            out += val_tokens(x)
        return out
    if k == 'map':
        out = [f'M{len(v[3])}', '0'] + ty_tokens(v[1]) + ty_tokens(v[2])
        for a, b in v[3]:
            out += val_tokens(a) + val_tokens(b)
        return out + ['R0']
    if k == 'pair':
        return ['P'] + val_tokens(v[1]) + val_tokens(v[2])
    if k == 'none':
        return ['none'] + ty_tokens(v[1])
    if k == 'some':
        return ['some'] + val_tokens(v[1])
    if k == 'list':
        out = [f'L{len(v[2])}'] + ty_tokens(v[1])
        for x in v[2]:
            out += val_tokens(x)
        return out
    raise ValueError(v)


BLOCKS = {'IF_NONE': 2, 'IF_LEFT': 2, 'ITER': 1, 'MAP': 1, 'DIP': 1}


def instr_text(i):
    p = i[0]
    if p == 'SEQ':
        return seq_text(i[1])
    if p == 'PUSH':
        return f'PUSH {ty_text(i[1])} {val_text(i[2])}'
    if p in ('NONE', 'NIL', 'LEFT', 'RIGHT', 'EMPTY_SET'):
        return f'{p} {ty_text(i[1])}'
    if p in ('EMPTY_MAP', 'EMPTY_BIG_MAP'):
        return f'{p} {ty_text(i[1])} {ty_text(i[2])}'
    if p == 'LAMBDA':
        return f'LAMBDA {ty_text(i[1])} {ty_text(i[2])} {seq_text(i[3])}'
    if p in BLOCKS:
        return p + ''.join(' ' + seq_text(b) for b in i[1:])
    if p == 'DIPN':
        return f'DIP {i[1]} {seq_text(i[2])}'
    if p == 'DUPN':
        return f'DUP {i[1]}'
    if p in ('DIG', 'DUG'):
        return f'{p} {i[1]}'
    return p


def seq_text(seq):
    return '{ ' + ' ; '.join(instr_text(i) for i in seq) + ' }' if seq else '{}'


def instr_tokens(i):
    p = i[0]
    if p == 'SEQ':
        return seq_tokens(i[1])
    if p == 'PUSH':
        return ['PUSH'] + ty_tokens(i[1]) + val_tokens(i[2])
    if p in ('NONE', 'NIL', 'LEFT', 'RIGHT', 'EMPTY_SET'):
        return [p] + ty_tokens(i[1])
    if p in ('EMPTY_MAP', 'EMPTY_BIG_MAP'):
        return [p] + ty_tokens(i[1]) + ty_tokens(i[2])
    if p == 'LAMBDA':
        return [p] + ty_tokens(i[1]) + ty_tokens(i[2]) + seq_tokens(i[3])
    if p in BLOCKS:
        out = [p]
        for b in i[1:]:
            out += seq_tokens(b)
        return out
    if p == 'DIPN':
        return [f'DIPN:{i[1]}'] + seq_tokens(i[2])
    if p in ('DUPN', 'DIG', 'DUG'):
        return [f'{p}:{i[1]}']
    return [p]


def seq_tokens(seq):
    out = ['{']
    for i in seq:
        out += instr_tokens(i)
    return out + ['}']


def line_of(segments):
    out = []
    for ticketer, prog in segments:
        out += ['seg', ticketer.encode().hex()] + seq_tokens(prog)
    return ' '.join(out)


def prims(seq):
    out = []
    for i in seq:
        out.append(i[0])
        for a in i[1:]:
            if isinstance(a, list):
                out += prims(a)
    return out


# ---------------------------------------------------------------------------------------------- types
def has_ticket(t):
    if t[0] == 'lambda':
        return False          # code: duplicable whatever its argument types are
    return t[0] == 'ticket' or any(has_ticket(a) for a in t[1:] if isinstance(a, tuple))


def plain(t):
    """abstract entry -> type (a ticket entry may carry a known amount as a third component)"""
    if t[0] == 'ticket':
        return ('ticket', plain(t[1]))
    return (t[0], *[plain(a) for a in t[1:]])


def rand_content(rng, t):
    if t == ('nat',):
        # (2^61 - 1 is the modulus of CPython's integer hash: 0 and 2^61 - 1, 1 and 2^61 are distinct contents with equal hashes)
        return ('nat', rng.choice([0, 1, 2, 7, 0, 1, 2 ** 61 - 1, 2 ** 61]))
    if t == ('string',):
        return ('str', rng.choice(['a', 'b', '', 'ab']))
    if t == ('unit',):
        return ('unit',)
    if t == ('bool',):
        return ('bool', rng.random() < 0.4)
    if t[0] == 'option':
        return ('none', t[1]) if rng.random() < 0.45 else ('some', rand_content(rng, t[1]))
    if t[0] == 'or':
        return ('left', rand_content(rng, t[1]), t[2]) if rng.random() < 0.5 else ('right', t[1], rand_content(rng, t[2]))
    return ('pair', rand_content(rng, t[1]), rand_content(rng, t[2]))


def rand_plain_value(rng, t):
    if t[0] == 'bool':
        return ('bool', rng.random() < 0.5)
    if t[0] == 'pair':
        return ('pair', rand_plain_value(rng, t[1]), rand_plain_value(rng, t[2]))
    if t[0] in ('nat', 'string', 'unit'):
        return rand_content(rng, t)
    if t[0] == 'or':
        return ('left', rand_plain_value(rng, t[1]), t[2]) if rng.random() < 0.5 else ('right', t[1], rand_plain_value(rng, t[2]))
    if t[0] == 'set':
        xs = sorted({rand_content(rng, t[1]) for _ in range(rng.choice([0, 1, 2, 3]))})
        k = rng.random()
        if len(xs) >= 2 and k < 0.15:
            xs = xs[::-1]                   # unsorted literal: must be refused
        elif xs and k < 0.25:
            xs = xs + xs[-1:]               # duplicate element: must be refused
        return ('set', t[1], xs)
    if t[0] == 'map':
        ks = sorted({rand_content(rng, t[1]) for _ in range(rng.choice([0, 1, 2, 3]))})
        k = rng.random()
        if len(ks) >= 2 and k < 0.15:
            ks = ks[::-1]
        elif ks and k < 0.25:
            ks = ks + ks[-1:]
        return ('map', t[1], t[2], [(a, rand_plain_value(rng, t[2])) for a in ks])
    if t[0] == 'option':
        return ('none', t[1]) if rng.random() < 0.4 else ('some', rand_plain_value(rng, t[1]))
    if t[0] == 'list':
        return ('list', t[1], [rand_plain_value(rng, t[1]) for _ in range(rng.choice([0, 1, 2, 3]))])
    raise ValueError(t)


FAIL = [('PUSH', ('string',), ('str', 'none')), ('FAILWITH',)]
NOISE = [('TICKET',), ('READ_TICKET',), ('SPLIT_TICKET',), ('JOIN_TICKETS',), ('PAIR',), ('UNPAIR',), ('CAR',), ('CDR',), ('SOME',),
         ('CONS',), ('DUP',), ('DUP',), ('DUP',), ('SWAP',), ('DROP',), ('GET',), ('GET_AND_UPDATE',), ('UPDATE',), ('MEM',),
         ('LEFT', ('nat',)), ('RIGHT', ('ticket', ('string',))), ('IF_LEFT', [], []), ('IF_LEFT', [('DROP',)], [('DROP',)]),
         ('EMPTY_SET', ('nat',)), ('EMPTY_SET', ('ticket', ('nat',))), ('PUSH', ('bool',), ('bool', True)), ('EXEC',), ('APPLY',),
         ('LAMBDA', ('nat',), ('nat',), []), ('LAMBDA', ('ticket', ('string',)), ('ticket', ('string',)), [])]
PUSHABLE = [('nat',), ('string',), ('unit',), ('bool',), ('pair', ('nat',), ('nat',)), ('option', ('nat',)), ('list', ('nat',)),
            ('list', ('pair', ('nat',), ('string',))), ('or', ('nat',), ('string',)), ('set', ('nat',)), ('set', ('string',)),
            ('map', ('nat',), ('string',)), ('map', ('string',), ('pair', ('nat',), ('nat',))), ('option', ('map', ('nat',), ('nat',))),
            ('pair', ('set', ('nat',)), ('or', ('unit',), ('nat',)))]
OTHER_SIDE = [('nat',), ('string',), ('unit',), ('ticket', ('string',)), ('ticket', ('nat',)), ('pair', ('nat',), ('ticket', ('string',)))]


class Gen:
    def __init__(self, rng, noise=0.08):
        self.rng = rng
        self.noise = noise

    def seq(self, S, n, depth=0):
        out = []
        S = list(S)
        for _ in range(n):
            ins, S = self.one(S, depth)
            out += ins
        return out, S

    def mint(self, S, amount=None, ct=None):
        rng = self.rng
        ct = ct or rng.choice(CONTENT_TYPES)
        a = rng.choice(AMOUNTS) if amount is None else amount
        ins = [('PUSH', ('nat',), ('nat', a)), ('PUSH', ct, rand_content(rng, ct)), ('TICKET',)]
        k = rng.random()
        if k < 0.75:
            return ins + [('IF_NONE', list(FAIL), [])], [('ticket', ct, a)] + S       # fails when a == 0
        return ins, [('option', ('ticket', ct, a if a > 0 else None))] + S

    def one(self, S, depth):
        rng = self.rng
        if S is None:
            S = []
        if rng.random() < self.noise:
            c = rng.choice(NOISE + [('DUPN', rng.randrange(0, 4)), ('DIG', rng.randrange(0, 4)), ('DUG', rng.randrange(0, 4)),
                                    ('PUSH', ('ticket', ('string',)), ('pair', ('addr', TICKETERS[0]), ('pair', ('str', 'a'), ('nat', 5)))),
                                    ('PUSH', ('option', ('ticket', ('nat',))), ('none', ('ticket', ('nat',)))),
                                    ('ITER', [('DROP',)]), ('MAP', [('DROP',)]), ('DIP', [('DROP',)]), ('ITER', []), ('MAP', [])])
            return [c], self.after_noise(c, S)
        top = S[0] if S else None
        cands = ['MINT'] * (5 if sum(1 for t in S if has_ticket(plain(t))) < 2 else 1) + (['LAM_MINT'] if rng.random() < 0.3 else [])
        if len(S) < 6:
            cands += ['PUSH']
        if S:
            cands += ['DROP', 'SOME', 'NILCONS', 'DUP', 'TO_MAP', 'TO_BIG_MAP', 'LEFT', 'RIGHT', 'WRAP']
            if rng.random() < 0.3:
                cands += ['LAM_EXEC', 'LAM_EXEC', 'LAM_APPLY']
            if top[0] == 'lambda' and top[1] == ('nat',):
                cands += ['EXEC_NAT'] * 4
            if top[0] == 'or':
                cands += ['IF_LEFT'] * 4
            if top[0] == 'set':
                cands += ['SET_UPD', 'SET_UPD', 'SET_MEM', 'ITER']
            if top[0] == 'ticket':
                cands += ['READ', 'READ', 'SPLIT', 'SPLIT', 'SPLIT', 'SPLIT_BAD', 'JOIN_FRESH', 'JOIN_FRESH', 'JOIN_OTHER']
            if top[0] == 'pair':
                cands += ['UNPAIR', 'CAR', 'CDR']
                if top[1][0] == 'ticket' and top[2][0] == 'ticket':
                    cands += ['JOIN'] * 4
            if top[0] == 'option':
                cands += ['IF_NONE'] * 3
            if top[0] == 'list':
                cands += ['ITER', 'ITER', 'MAP', 'MAP']
                if top[1][0] == 'ticket' and len(S) >= 2 and S[1][0] == 'ticket' and plain(S[1]) == plain(top[1]):
                    cands += ['ITER_JOIN'] * 4
            if top[0] in ('map', 'big_map'):
                cands += ['MAP_GET', 'MAP_GAU', 'MAP_GAU', 'MAP_REMOVE', 'MAP_PUT', 'ITER', 'MAP', 'MAP_MEM']
        if len(S) >= 2:
            cands += ['PAIR', 'PAIR', 'SWAP', 'DIG', 'DUG', 'DUPN', 'DIP']
            if S[1][0] == 'list' and plain(S[1][1]) == plain(S[0]):
                cands += ['CONS'] * 3
        c = rng.choice(cands)
        if c == 'MINT':
            return self.mint(S)
        if c == 'PUSH':
            t = rng.choice(PUSHABLE)
            if rng.random() < 0.1:
                return [('EMPTY_SET', ('nat',))], [('set', ('nat',))] + S
            if rng.random() < 0.04:          # a literal of a type that holds tickets is never pushable, even when empty
                t = rng.choice([('map', ('nat',), ('ticket', ('string',))), ('list', ('ticket', ('nat',))), ('option', ('ticket', ('nat',)))])
                v = ('map', t[1], t[2], []) if t[0] == 'map' else ('list', t[1], []) if t[0] == 'list' else ('none', t[1])
                return [('PUSH', t, v)], None
            return [('PUSH', t, rand_plain_value(rng, t))], [t] + S          # (an unsorted / duplicated literal fails)
        if c == 'LAM_MINT':
            n = rng.choice([0, 1, 2, 5])
            return [('LAMBDA', ('nat',), ('option', ('ticket', ('string',))), [('PUSH', ('string',), ('str', 'a')), ('TICKET',)]),
                    ('PUSH', ('nat',), ('nat', n)), ('EXEC',)], [('option', ('ticket', ('string',), n if n else None))] + S
        if c == 'LAM_EXEC':
            T = plain(top)
            bodies = [([], top), ([('SOME',)], ('option', top)), ([('DROP',), ('PUSH', ('nat',), ('nat', 1))], ('nat',)),
                      ([('PUSH', ('nat',), ('nat', 1)), ('PAIR',)], ('pair', ('nat',), top))]
            if top[0] == 'ticket':
                bodies += [([('READ_TICKET',), ('DROP',)], top), ([('DUP',), ('PAIR',)], None), ([('READ_TICKET',), ('CDR',), ('CDR',)], None),
                           ([('PUSH', ('pair', ('nat',), ('nat',)), ('pair', ('nat', 1), ('nat', 1))), ('SWAP',), ('SPLIT_TICKET',)],
                            ('option', ('pair', ('ticket', top[1], None), ('ticket', top[1], None))))]
            else:
                bodies += [([('DUP',), ('PAIR',)], None if has_ticket(T) else ('pair', top, top))]
            body, U = rng.choice(bodies)
            Ut = plain(U) if U is not None else ('pair', T, T) if body[:1] == [('DUP',)] else ('nat',)
            pre = [('LAMBDA', T, Ut, body)] + rng.choice([[], [], [('DUP',), ('DROP',)], [('DUP',), ('DIP', [('DROP',)])]])
            return pre + [('SWAP',), ('EXEC',)], (None if U is None else [forget(U)] + S[1:])
        if c == 'LAM_APPLY':
            # the top value is captured into the code of a lambda: for good when it holds a ticket (the PUSH that re-creates it is refused)
            T = plain(top)
            ins = [('LAMBDA', ('pair', T, ('nat',)), T, [('CAR',)]), ('SWAP',), ('APPLY',)]
            return ins, [('lambda', ('nat',), T)] + S[1:]
        if c == 'EXEC_NAT':
            k = rng.randrange(3)
            pre = [[], [('DUP',), ('PUSH', ('nat',), ('nat', 2)), ('EXEC',), ('DROP',)], [('DUP',), ('DROP',)]][k]
            if has_ticket(plain(top[2])):
                return pre + [('PUSH', ('nat',), ('nat', 1)), ('EXEC',)], None           # refused: a ticket type is not pushable
            return pre + [('PUSH', ('nat',), ('nat', 1)), ('EXEC',)], [top[2]] + S[1:]
        if c == 'LEFT':
            t = rng.choice(OTHER_SIDE)
            return [('LEFT', t)], [('or', top, t)] + S[1:]
        if c == 'RIGHT':
            t = rng.choice(OTHER_SIDE)
            return [('RIGHT', t)], [('or', t, top)] + S[1:]
        if c == 'WRAP':
            # tickets at the second / third type-argument position of containers
            k = rng.randrange(4)
            if k == 0:
                return [('PUSH', ('nat',), ('nat', 7)), ('PAIR',)], [('pair', ('nat',), top)] + S[1:]
            if k == 1:
                return [('PUSH', ('nat',), ('nat', 7)), ('PAIR',), ('SOME',)], [('option', ('pair', ('nat',), top))] + S[1:]
            if k == 2:
                return [('PUSH', ('string',), ('str', 'x')), ('PUSH', ('nat',), ('nat', 7)), ('PAIR',), ('PAIR',)], \
                    [('pair', ('pair', ('nat',), ('string',)), top)] + S[1:]
            return [('RIGHT', ('nat',)), ('NIL', ('or', ('nat',), plain(top))), ('SWAP',), ('CONS',)], [('list', ('or', ('nat',), top))] + S[1:]
        if c == 'IF_LEFT':
            l, r = top[1], top[2]
            k = rng.randrange(4)
            if k == 0:
                return [('IF_LEFT', [('DROP',)], [('DROP',)])], S[1:]
            if k == 1:
                return [('IF_LEFT', list(FAIL), [])], [r] + S[1:]
            if k == 2:
                return [('IF_LEFT', [], list(FAIL))], [l] + S[1:]
            if plain(l) == plain(r):
                return [('IF_LEFT', [], [])], [forget(l)] + S[1:]
            return [('IF_LEFT', [('SOME',)], [('DROP',), ('NONE', plain(l))])], [('option', forget(l))] + S[1:]
        if c == 'SET_UPD':
            return [('PUSH', ('bool',), ('bool', rng.random() < 0.7)), ('PUSH', top[1], rand_content(rng, top[1])), ('UPDATE',)], S
        if c == 'SET_MEM':
            return [('PUSH', top[1], rand_content(rng, top[1])), ('MEM',)], [('bool',)] + S[1:]
        if c == 'MAP_MEM':
            return [('PUSH', top[1], rand_content(rng, top[1])), ('MEM',)], [('bool',)] + S[1:]
        if c == 'DROP':
            return [('DROP',)], S[1:]
        if c == 'SOME':
            return [('SOME',)], [('option', top)] + S[1:]
        if c == 'NILCONS':
            return [('NIL', plain(top)), ('SWAP',), ('CONS',)], [('list', top)] + S[1:]
        if c == 'CONS':
            return [('CONS',)], S[1:]
        if c == 'DUP':
            if has_ticket(plain(top)):          # must be refused
                return [('DUP',)], S
            return [('DUP',)], [top] + S
        if c == 'DUPN':
            n = rng.randrange(1, len(S) + 1)
            if has_ticket(plain(S[n - 1])):
                return [('DUPN', n)], S
            return [('DUPN', n)], [S[n - 1]] + S
        if c == 'READ':
            ct = plain(top[1])
            return [('READ_TICKET',)], [('pair', ('address',), ('pair', ct, ('nat',))), top] + S[1:]
        if c in ('SPLIT', 'SPLIT_BAD'):
            A = top[2] if len(top) > 2 and top[2] is not None else None
            if A is not None and c == 'SPLIT' and A < 10 ** 6:
                a = rng.choice([0, 0, 1, 1, 2, A, A // 2, rng.randrange(0, A + 1)])
                a = min(a, A)
                b = A - a
            elif A is not None and c == 'SPLIT':
                a, b = rng.choice([(0, A), (1, A - 1), (A - 1, 1), (A // 2, A - A // 2)])
            else:
                a, b = rng.choice([0, 1, 2, 3]), rng.choice([0, 1, 2, 3])
            ok = A is not None and a + b == A and a > 0 and b > 0
            res = ('option', ('pair', ('ticket', top[1], a if ok else None), ('ticket', top[1], b if ok else None)))
            return [('PUSH', ('pair', ('nat',), ('nat',)), ('pair', ('nat', a), ('nat', b))), ('SWAP',), ('SPLIT_TICKET',)], [res] + S[1:]
        if c in ('JOIN_FRESH', 'JOIN_OTHER'):
            ct = plain(top[1]) if c == 'JOIN_FRESH' or rng.random() < 0.5 else rng.choice(CONTENT_TYPES)
            ins, S2 = self.mint(S, amount=rng.choice([1, 2, 3, 2 ** 64]), ct=ct)
            if S2[0][0] != 'ticket':
                return ins, S2
            if plain(S2[0]) != plain(top):
                return ins + [('PAIR',), ('JOIN_TICKETS',)], S      # ill-typed join: fails
            return ins + [('PAIR',), ('JOIN_TICKETS',)], [('option', ('ticket', top[1], None))] + S[1:]
        if c == 'JOIN':
            if plain(top[1]) != plain(top[2]):
                return [('JOIN_TICKETS',)], S
            return [('JOIN_TICKETS',)], [('option', ('ticket', top[1][1], None))] + S[1:]
        if c == 'ITER_JOIN':
            return [('ITER', [('PAIR',), ('JOIN_TICKETS',), ('IF_NONE', list(FAIL), [])])], [('ticket', S[1][1], None)] + S[2:]
        if c == 'UNPAIR':
            return [('UNPAIR',)], [top[1], top[2]] + S[1:]
        if c == 'CAR':
            return [('CAR',)], [top[1]] + S[1:]
        if c == 'CDR':
            return [('CDR',)], [top[2]] + S[1:]
        if c == 'PAIR':
            return [('PAIR',)], [('pair', S[0], S[1])] + S[2:]
        if c == 'SWAP':
            return [('SWAP',)], [S[1], S[0]] + S[2:]
        if c == 'DIG':
            n = rng.randrange(0, len(S))
            return [('DIG', n)], [S[n]] + S[:n] + S[n + 1:]
        if c == 'DUG':
            n = rng.randrange(0, len(S))
            return [('DUG', n)], S[1:n + 1] + [S[0]] + S[n + 1:]
        if c == 'DIP':
            n = rng.randrange(1, len(S)) if len(S) > 1 else 1
            body, R = self.seq(S[n:], rng.choice([1, 2]), depth + 1) if depth < 2 else ([], S[n:])
            if n == 1 and rng.random() < 0.6:
                return [('DIP', body)], (None if R is None else S[:1] + R)
            return [('DIPN', n, body)], (None if R is None else S[:n] + R)
        if c == 'IF_NONE':
            inner = top[1]
            k = rng.randrange(3)
            if k == 0:
                return [('IF_NONE', list(FAIL), [])], [inner] + S[1:]
            if k == 1 or depth >= 2:
                return [('IF_NONE', [], [('DROP',)])], S[1:]
            body, R = self.seq(S[1:], rng.choice([1, 2]), depth + 1)
            return [('IF_NONE', body, [('DROP',)] + body)], R
        if c == 'ITER':
            if top[0] == 'set':
                return [('ITER', [('DROP',)])], S[1:]
            if top[0] == 'list':
                if len(S) >= 2 and S[1] == ('list', top[1]) or (len(S) >= 2 and S[1][0] == 'list' and plain(S[1][1]) == plain(top[1])):
                    return [('ITER', [('CONS',)])], S[1:]
                return [('ITER', [('DROP',)])], S[1:]
            if len(S) >= 2 and S[1][0] == 'list' and plain(S[1][1]) == plain(top[2]):
                return [('ITER', [('CDR',), ('CONS',)])], S[1:]
            return [('ITER', rng.choice([[('DROP',)], [('CDR',), ('DROP',)], [('CAR',), ('DROP',)]]))], S[1:]
        if c == 'MAP':
            if top[0] == 'list':
                if top[1][0] == 'ticket':
                    body, rt = rng.choice([([('READ_TICKET',), ('DROP',)], top[1]), ([('SOME',)], ('option', top[1])),
                                           ([('READ_TICKET',), ('PAIR',)], ('pair', ('pair', ('address',), ('pair', plain(top[1][1]), ('nat',))), top[1]))])
                else:
                    body, rt = rng.choice([([], top[1]), ([('SOME',)], ('option', top[1]))])
                return [('MAP', body)], [('list', rt)] + S[1:]
            if top[0] == 'map':
                return [('MAP', [('CDR',)])], S
            return [('MAP', [('CDR',)])], S            # big_map: only the empty one survives
        if c in ('TO_MAP', 'TO_BIG_MAP'):
            p = 'EMPTY_MAP' if c == 'TO_MAP' else 'EMPTY_BIG_MAP'
            kt = rng.choice([('nat',), ('string',)])
            key = rand_content(rng, kt)
            return [('SOME',), (p, kt, plain(top)), ('SWAP',), ('PUSH', kt, key), ('UPDATE',)], [('map' if c == 'TO_MAP' else 'big_map', kt, top)] + S[1:]
        if c == 'MAP_GET':
            key = rand_content(rng, top[1])
            if has_ticket(plain(top[2])):
                return [('PUSH', top[1], key), ('GET',)], S[1:]          # must be refused (the map is consumed by the failed step)
            return [('PUSH', top[1], key), ('GET',)], [('option', top[2])] + S[1:]
        if c in ('MAP_GAU', 'MAP_REMOVE'):
            key = rand_content(rng, top[1])
            vt = plain(top[2])
            if c == 'MAP_REMOVE':
                return [('NONE', vt), ('PUSH', top[1], key), ('UPDATE',)], S
            return [('NONE', vt), ('PUSH', top[1], key), ('GET_AND_UPDATE',)], [('option', forget(top[2])), top] + S[1:]
        if c == 'MAP_PUT':
            # put the next stack item (when it has the value type) or a fresh ticket under a key
            key = rand_content(rng, top[1])
            vt = plain(top[2])
            if len(S) >= 2 and plain(S[1]) == vt:
                if rng.random() < 0.7:
                    return [('SWAP',), ('SOME',), ('PUSH', top[1], key), ('UPDATE',)], [top] + S[2:]
                return [('SWAP',), ('SOME',), ('PUSH', top[1], key), ('GET_AND_UPDATE',)], [('option', forget(top[2])), top] + S[2:]
            if vt[0] == 'ticket':
                ins, S2 = self.mint(S, amount=rng.choice([1, 2, 3]), ct=vt[1])
                if S2[0][0] == 'ticket':
                    return ins + [('SOME',), ('PUSH', top[1], key), ('UPDATE',)], S
                return ins, S2
            return [('DROP',)], S[1:]
        raise AssertionError(c)

    def after_noise(self, c, S):
        return None      # the abstract stack is unknown after an instruction picked regardless of the types


def forget(t):
    if t[0] == 'ticket':
        return ('ticket', t[1], None)
    return (t[0], *[forget(a) if isinstance(a, tuple) else a for a in t[1:]])


def gen_program(rng, n, noise):
    """one segment: instructions and the abstract stack at the end (None = unknown)"""
    g = Gen(rng, noise)
    out, S = [], []
    for _ in range(n):
        if S is None:
            S = []          # keep going with an unknown stack: only stack-independent candidates will make sense
        ins, S2 = g.one(S, 0)
        out += ins
        S = S2
    return out, S


# ---------------------------------------------------------------------------------------------- fixed corpus (run first)
def _mint(a, c='a'):
    return [('PUSH', ('nat',), ('nat', a)), ('PUSH', ('string',), ('str', c)), ('TICKET',), ('IF_NONE', list(FAIL), [])]


_T = ('ticket', ('string',))
_TO_BIG = [('SOME',), ('EMPTY_BIG_MAP', ('nat',), _T), ('SWAP',), ('PUSH', ('nat',), ('nat', 1)), ('UPDATE',)]
_TO_MAP = [('SOME',), ('EMPTY_MAP', ('nat',), _T), ('SWAP',), ('PUSH', ('nat',), ('nat', 1)), ('UPDATE',)]
A, B = TICKETERS
CORPUS = [
    # an ILL-TYPED store hides a ticket in a `map nat nat`, which DUP then copies (outside the guard of the conservation theorem)
    [(A, _mint(5) + [('SOME',), ('EMPTY_MAP', ('nat',), ('nat',)), ('SWAP',), ('PUSH', ('nat',), ('nat', 1)), ('UPDATE',), ('DUP',)])],
    [(A, _mint(5) + _TO_BIG + [('DUP',)])],
    [(A, _mint(5) + _TO_BIG + [('PUSH', ('nat',), ('nat', 0)), ('DUPN', 2)])],
    [(A, _mint(5) + _TO_BIG + [('PUSH', ('nat',), ('nat', 1)), ('GET',)])],
    [(A, _mint(5) + _TO_MAP + [('PUSH', ('nat',), ('nat', 1)), ('GET',)])],
    [(A, _mint(5) + _TO_MAP + [('DUP',)])],
    [(A, _mint(5) + _TO_BIG + [('NONE', _T), ('PUSH', ('nat',), ('nat', 1)), ('GET_AND_UPDATE',), ('IF_NONE', list(FAIL), []), ('READ_TICKET',)])],
    [(A, _mint(5) + [('PUSH', ('pair', ('nat',), ('nat',)), ('pair', ('nat', 0), ('nat', 5))), ('SWAP',), ('SPLIT_TICKET',)])],
    [(A, _mint(5) + [('PUSH', ('pair', ('nat',), ('nat',)), ('pair', ('nat', 5), ('nat', 0))), ('SWAP',), ('SPLIT_TICKET',)])],
    [(A, _mint(5) + [('PUSH', ('pair', ('nat',), ('nat',)), ('pair', ('nat', 2), ('nat', 2))), ('SWAP',), ('SPLIT_TICKET',)])],
    [(A, _mint(5) + [('PUSH', ('pair', ('nat',), ('nat',)), ('pair', ('nat', 2), ('nat', 3))), ('SWAP',), ('SPLIT_TICKET',),
                     ('IF_NONE', list(FAIL), []), ('JOIN_TICKETS',)])],
    [(A, _mint(5) + _mint(3) + [('PAIR',), ('JOIN_TICKETS',)])],
    [(A, _mint(5)), (B, _mint(3) + [('PAIR',), ('JOIN_TICKETS',)])],
    [(A, _mint(5) + _mint(3, 'b') + [('PAIR',), ('JOIN_TICKETS',)])],
    [(A, _mint(5) + [('PUSH', ('nat',), ('nat', 3)), ('PUSH', ('nat',), ('nat', 7)), ('TICKET',), ('IF_NONE', list(FAIL), []), ('PAIR',), ('JOIN_TICKETS',)])],
    [(A, _mint(0))],
    [(A, [('PUSH', ('nat',), ('nat', 0)), ('PUSH', ('string',), ('str', 'a')), ('TICKET',)])],
    [(A, _mint(5) + [('DUP',)])],
    [(A, _mint(5) + [('PUSH', ('nat',), ('nat', 1)), ('DUPN', 2)])],
    [(A, _mint(5) + [('PUSH', ('nat',), ('nat', 1)), ('DIP', [('DUP',)])])],
    [(A, _mint(5) + [('NIL', _T), ('SWAP',), ('CONS',), ('DUP',)])],
    [(A, _mint(5) + [('SOME',), ('DUP',)])],
    [(A, _mint(5) + [('PUSH', ('nat',), ('nat', 1)), ('PAIR',), ('DUP',)])],
    [(A, [('PUSH', _T, ('pair', ('addr', A), ('pair', ('str', 'a'), ('nat', 5))))])],
    [(A, [('NIL', _T), ('DUP',)])],
    [(A, [('NONE', _T), ('DUP',)])],
    [(A, _mint(2) + _mint(3) + [('NIL', _T), ('SWAP',), ('CONS',), ('SWAP',), ('CONS',), ('MAP', [('READ_TICKET',), ('DROP',)]), ('ITER', [('DROP',)])])],
    [(A, _mint(2) + _mint(3) + [('NIL', _T), ('SWAP',), ('CONS',), ('ITER', [('PAIR',), ('JOIN_TICKETS',), ('IF_NONE', list(FAIL), [])])])],
    [(A, _mint(5) + _TO_MAP + [('MAP', [('CDR',), ('READ_TICKET',), ('DROP',)]), ('ITER', [('CDR',), ('DROP',)])])],
    [(A, _mint(5) + [('PUSH', ('nat',), ('nat', 9)), ('PAIR',), ('ITER', [('DROP',)])])],
    # or-types: a ticket on either side makes the sum non-duplicable; IF_LEFT hands the ticket back
    [(A, _mint(5) + [('LEFT', ('nat',)), ('DUP',)])],
    [(A, _mint(5) + [('RIGHT', ('nat',)), ('DUP',)])],
    [(A, [('PUSH', ('nat',), ('nat', 1)), ('LEFT', _T), ('DUP',)])],
    [(A, _mint(5) + [('RIGHT', ('nat',)), ('IF_LEFT', list(FAIL), []), ('READ_TICKET',)])],
    [(A, _mint(5) + [('LEFT', _T), ('IF_LEFT', [], []), ('READ_TICKET',)])],
    [(A, _mint(5) + [('PUSH', ('nat',), ('nat', 7)), ('PAIR',), ('SOME',), ('DUP',)])],
    [(A, _mint(5) + [('PUSH', ('nat',), ('nat', 7)), ('PAIR',), ('SOME',), ('IF_NONE', list(FAIL), []), ('CDR',), ('READ_TICKET',)])],
    [(A, _mint(5) + _TO_MAP + [('PUSH', ('nat',), ('nat', 7)), ('PAIR',), ('DUP',)])],
    [(A, _mint(5) + _TO_MAP + [('PUSH', ('nat',), ('nat', 7)), ('PAIR',), ('CDR',), ('PUSH', ('nat',), ('nat', 1)), ('MEM',)])],
    # lambdas: code is duplicable; a lambda can take / return / mint tickets but never copy one; APPLY on a ticket loses it for good
    [(A, [('LAMBDA', _T, _T, []), ('DUP',)])],
    [(A, _mint(5) + [('LAMBDA', _T, _T, []), ('SWAP',), ('EXEC',), ('READ_TICKET',)])],
    [(A, _mint(5) + [('LAMBDA', _T, ('pair', _T, _T), [('DUP',), ('PAIR',)]), ('SWAP',), ('EXEC',)])],
    [(A, _mint(5) + [('LAMBDA', _T, ('nat',), [('DROP',), ('PUSH', ('nat',), ('nat', 1))]), ('SWAP',), ('EXEC',)])],
    [(A, _mint(5) + [('LAMBDA', _T, ('nat',), [('READ_TICKET',), ('CDR',), ('CDR',)]), ('SWAP',), ('EXEC',)])],
    [(A, _mint(5) + [('LAMBDA', ('nat',), ('nat',), []), ('SWAP',), ('EXEC',)])],
    [(A, _mint(5) + [('LAMBDA', ('pair', _T, ('nat',)), _T, [('CAR',)]), ('SWAP',), ('APPLY',), ('DUP',), ('PUSH', ('nat',), ('nat', 1)), ('EXEC',)])],
    [(A, _mint(5) + [('LAMBDA', ('pair', _T, ('nat',)), _T, [('CAR',)]), ('SWAP',), ('APPLY',), ('DUP',)])],
    [(A, [('PUSH', ('nat',), ('nat', 7)), ('LAMBDA', ('pair', ('nat',), ('nat',)), ('nat',), [('CAR',)]), ('SWAP',), ('APPLY',), ('DUP',),
          ('PUSH', ('nat',), ('nat', 1)), ('EXEC',), ('SWAP',), ('PUSH', ('nat',), ('nat', 2)), ('EXEC',)])],
    [(A, [('LAMBDA', ('nat',), ('option', _T), [('PUSH', ('string',), ('str', 'a')), ('TICKET',)]), ('DUP',), ('PUSH', ('nat',), ('nat', 4)), ('EXEC',),
          ('SWAP',), ('PUSH', ('nat',), ('nat', 0)), ('EXEC',)])],
    [(A, [('LAMBDA', ('nat',), ('nat',), [('DROP',)]), ('PUSH', ('nat',), ('nat', 4)), ('EXEC',)])],
    [(A, [('LAMBDA', ('nat',), ('nat',), [('PUSH', ('nat',), ('nat', 1))]), ('PUSH', ('nat',), ('nat', 4)), ('EXEC',)])],
    [(A, _mint(5) + [('LAMBDA', _T, ('option', _T), [('SOME',)]), ('SOME',), ('DUP',)])],
    # sets and map literals (ticket-free), next to tickets
    [(A, _mint(5) + [('EMPTY_SET', ('nat',)), ('PUSH', ('bool',), ('bool', True)), ('PUSH', ('nat',), ('nat', 3)), ('UPDATE',),
                     ('PUSH', ('bool',), ('bool', True)), ('PUSH', ('nat',), ('nat', 1)), ('UPDATE',), ('DUP',), ('PUSH', ('nat',), ('nat', 3)), ('MEM',)])],
    [(A, [('EMPTY_SET', _T)])],
    [(A, [('PUSH', ('set', ('nat',)), ('set', ('nat',), [('nat', 2), ('nat', 1)]))])],
    [(A, [('PUSH', ('set', ('nat',)), ('set', ('nat',), [('nat', 1), ('nat', 2)])), ('ITER', [('DROP',)])])],
    [(A, [('PUSH', ('map', ('nat',), ('string',)), ('map', ('nat',), ('string',), [(('nat', 1), ('str', 'a')), (('nat', 2), ('str', 'b'))])),
          ('DUP',), ('PUSH', ('nat',), ('nat', 2)), ('GET',)])],
    [(A, [('PUSH', ('map', ('nat',), ('string',)), ('map', ('nat',), ('string',), [(('nat', 2), ('str', 'a')), (('nat', 1), ('str', 'b'))]))])],
    [(A, [('PUSH', ('map', ('nat',), ('string',)), ('map', ('nat',), ('string',), [(('nat', 1), ('str', 'a')), (('nat', 1), ('str', 'b'))]))])],
    [(A, [('PUSH', ('map', ('nat',), _T), ('map', ('nat',), _T, []))])],
    [(A, _mint(5) + [('PUSH', ('map', ('nat',), ('string',)), ('map', ('nat',), ('string',), [(('nat', 1), ('str', 'a'))])), ('PAIR',), ('DUP',)])],
]
