"""Type-directed generator of Michelson types and values for C11 / C04, the neutral structured value form, its
conversion to real pytezos objects (built with the class constructors, not through `from_micheline_value`), and the
token encoding read by lean/Driver/C11.lean.

Structured values (`sv`) are tuples:
  ('unit',) ('bool', b) ('int', n) ('ts', n) ('fr', n) ('str', s) ('bytes', b) ('dom', kind, tag, payload, ep)
  ('none',) ('some', v) ('left', v) ('right', v) ('pair', a, b) ('list', [v]) ('set', [v]) ('map', [(k, v)])
  ('bigmap', ptr|None, [(k, v)]) ('lambda', [micheline]) ('ticket', (tag, payload, ep), item, amount) ('sapling', ptr|None)
Domain values are kept structured (kind, prefix index, payload, entrypoint); base58 text is produced / consumed with
the real library at the boundary only (C09 / C10 own those codecs)."""

DOM_PREFIXES = {
    'address': ['tz1', 'tz2', 'tz3', 'tz4', 'KT1', 'sr1'],
    'contract': ['tz1', 'tz2', 'tz3', 'tz4', 'KT1', 'sr1'],
    'key_hash': ['tz1', 'tz2', 'tz3', 'tz4'],
    'key': ['edpk', 'sppk', 'p2pk', 'BLpk'],
    'signature': ['edsig', 'spsig', 'p2sig', 'sig', 'BLsig'],
    'chain_id': ['Net'],
    'txr': ['txr1'],
}
PAYLOAD_LEN = {'tz1': 20, 'tz2': 20, 'tz3': 20, 'tz4': 20, 'KT1': 20, 'sr1': 20, 'txr1': 20, 'edpk': 32, 'sppk': 33, 'p2pk': 33,
               'BLpk': 48, 'edsig': 64, 'spsig': 64, 'p2sig': 64, 'sig': 64, 'BLsig': 96, 'Net': 4}
TYPE_TO_KIND = {'address': 'address', 'contract': 'contract', 'key_hash': 'key_hash', 'key': 'key', 'signature': 'signature',
                'chain_id': 'chain_id', 'tx_rollup_l2_address': 'txr'}

FR_MODULUS = 0x73EDA753299D7D483339D80809A1D80553BDA402FFFE5BFEFFFFFFFF00000001

SIMPLE_LEAVES = ['unit', 'bool', 'int', 'nat', 'mutez', 'timestamp', 'string', 'bytes']
DOMAIN_LEAVES = ['address', 'key_hash', 'key', 'signature', 'chain_id']
EXTRA_LEAVES = ['bls12_381_fr', 'bls12_381_g1', 'bls12_381_g2', 'chest', 'chest_key', 'tx_rollup_l2_address']
ORDERABLE_LEAVES = ['int', 'nat', 'mutez', 'timestamp', 'string', 'bytes', 'bool']

TS_BOUNDARIES = [-62135596800, -62135596801, -62135596800 + 1, -30610224001, -30610224000, -30610224000 + 86400,
                 253402300799, 253402300800, 253402300799 - 86400, 0, -1, 1, 2 ** 31, 2 ** 63, 2 ** 63 - 1, -2 ** 63, 2 ** 64,
                 951782400, 68169600 - 1, -2208988800, 4102444800, 32503680000, 10 ** 15, -10 ** 15]

LAMBDA_POOL = [
    [],
    [{'prim': 'DROP'}],
    [{'prim': 'PUSH', 'args': [{'prim': 'nat'}, {'int': '1'}]}, {'prim': 'ADD'}],
    [{'prim': 'DIP', 'args': [[{'prim': 'SWAP'}]]}, {'prim': 'DUP'}],
    [{'prim': 'IF', 'args': [[{'prim': 'UNIT'}], [{'prim': 'UNIT'}, {'prim': 'FAILWITH'}]]}],
    [{'prim': 'PUSH', 'args': [{'prim': 'string'}, {'string': 'a b'}]}, {'prim': 'PUSH', 'args': [{'prim': 'bytes'}, {'bytes': '00ff'}]}, {'prim': 'PAIR'}],
    [{'prim': 'CAR', 'annots': ['%a']}, {'prim': 'NIL', 'args': [{'prim': 'operation'}]}, {'prim': 'PAIR', 'annots': ['%x', '%y']}],
    [[{'prim': 'DUP'}, {'prim': 'DROP'}], {'prim': 'PUSH', 'args': [{'prim': 'pair', 'args': [{'prim': 'int'}, {'prim': 'int'}]}, {'prim': 'Pair', 'args': [{'int': '-1'}, {'int': '170141183460469231731687303715884105728'}]}]}],
]


# ---------------------------------------------------------------------------------------------- types
def annots(rng, allow_field=True, p=0.3):
    out = []
    if rng.random() < p:
        k = rng.randrange(6)
        name = rng.choice(['a', 'b', 'x', 'owner', 'nat_1', 'store'])
        if k == 0 and allow_field:
            out = ['%' + name]
        elif k == 1:
            out = [':' + name]
        elif k == 2 and allow_field:
            out = [':' + name, '%' + rng.choice(['f', 'g'])]
        elif k == 3 and allow_field:
            out = ['%']                      # empty field name: falsy in `field_name or type_name`
        elif k == 4:
            out = [':']
        elif allow_field:
            out = ['%' + name]
    return out


def mk(prim, args=None, ann=None):
    t = {'prim': prim}
    if args:
        t['args'] = args
    if ann:
        t['annots'] = ann
    return t


def gen_comparable(rng, depth, orderable_only=False, pairs_ok=True):
    k = rng.randrange(10)
    if depth <= 0 or k < 5:
        pool = ORDERABLE_LEAVES if orderable_only else ORDERABLE_LEAVES + DOMAIN_LEAVES + ['unit']
        return mk(rng.choice(pool), ann=annots(rng, allow_field=False, p=0.1))
    if k < 7 and pairs_ok:
        return mk('pair', [with_ann(rng, gen_comparable(rng, depth - 1, orderable_only, pairs_ok)),
                           with_ann(rng, gen_comparable(rng, depth - 1, orderable_only, pairs_ok))], annots(rng, False, 0.1))
    if k < 8:
        return mk('option', [gen_comparable(rng, depth - 1, orderable_only, pairs_ok)], annots(rng, False, 0.1))
    return mk('or', [with_ann(rng, gen_comparable(rng, depth - 1, orderable_only, pairs_ok)),
                     with_ann(rng, gen_comparable(rng, depth - 1, orderable_only, pairs_ok))], annots(rng, False, 0.1))


def with_ann(rng, t, p=0.3):
    """field / type annotation on a pair or or component (allowed there)"""
    if 'annots' not in t:
        a = annots(rng, True, p)
        if a:
            t = dict(t, annots=a)
    return t


def nofield(t):
    """arguments of option / list / set / map / big_map / lambda / contract cannot carry a field annotation"""
    if any(a.startswith('%') for a in t.get('annots', [])):
        t = dict(t, annots=[a for a in t['annots'] if not a.startswith('%')])
        if not t['annots']:
            del t['annots']
    return t


def gen_type(rng, depth, packable=False, in_big_map=False, pairs_ok=True):
    """storable or passable type (packable=True: also no big_map / ticket / sapling_state)"""
    t = _gen_type(rng, depth, packable, in_big_map, pairs_ok)
    if t['prim'] in ('option', 'list', 'set', 'map', 'big_map', 'lambda', 'contract', 'ticket'):
        t = dict(t, args=[nofield(a) for a in t['args']])
    return t


def _gen_type(rng, depth, packable=False, in_big_map=False, pairs_ok=True):
    if depth <= 0:
        k = rng.randrange(10)
        pool = SIMPLE_LEAVES if k < 6 else DOMAIN_LEAVES if k < 9 else EXTRA_LEAVES
        return mk(rng.choice(pool))
    k = rng.randrange(22)
    if k < 4:
        return gen_type(rng, 0)
    if k < 8:     # pairs: binary with annotated components, or n-ary comb syntax
        if rng.random() < 0.4:
            n = rng.choice([3, 3, 4, 4, 5, 6, 7, 9])
            return mk('pair', [with_ann(rng, gen_type(rng, depth - 1 if i < 2 else 0, packable, in_big_map, pairs_ok)) for i in range(n)], annots(rng, True, 0.3))
        return mk('pair', [with_ann(rng, gen_type(rng, depth - 1, packable, in_big_map, pairs_ok)),
                           with_ann(rng, gen_type(rng, depth - 1, packable, in_big_map, pairs_ok), 0.5)])
    if k < 10:
        return mk('or', [with_ann(rng, gen_type(rng, depth - 1, packable, in_big_map, pairs_ok)), with_ann(rng, gen_type(rng, depth - 1, packable, in_big_map, pairs_ok))])
    if k < 12:
        return mk('option', [gen_type(rng, depth - 1, packable, in_big_map, pairs_ok)], annots(rng, False, 0.15))
    if k < 14:
        return mk('list', [gen_type(rng, depth - 1, packable, in_big_map, pairs_ok)], annots(rng, False, 0.15))
    if k < 15:
        return mk('set', [gen_comparable(rng, depth - 1, pairs_ok=pairs_ok)])
    if k < 17:
        return mk('map', [gen_comparable(rng, depth - 1, pairs_ok=pairs_ok), gen_type(rng, depth - 1, packable, in_big_map, pairs_ok)])
    if k < 18:
        return mk('lambda', [gen_type(rng, 0), gen_type(rng, 0)])
    if k < 19:
        return mk('contract', [gen_type(rng, 0)])
    if packable:
        return gen_type(rng, depth - 1, packable, in_big_map, pairs_ok)
    if k < 20 and not in_big_map:
        return mk('big_map', [gen_comparable(rng, depth - 1, pairs_ok=pairs_ok), gen_type(rng, depth - 1, True, True, pairs_ok)])
    if k < 21:
        return mk('ticket', [gen_comparable(rng, min(depth - 1, 1), pairs_ok=pairs_ok)])
    if not in_big_map:
        return mk('sapling_state', [{'int': str(rng.choice([0, 8, 16]))}])
    return gen_type(rng, 0)


def orderable(t, pairs_ok):
    """can this harness sort values of the (comparable) type independently of the library?"""
    p = t['prim']
    if p in ORDERABLE_LEAVES:
        return True
    if p == 'option':
        return orderable(t['args'][0], pairs_ok)
    if p == 'or':
        return all(orderable(a, pairs_ok) for a in t['args'])
    if p == 'pair':
        return pairs_ok and all(orderable(a, pairs_ok) for a in t['args'])
    return False


def sort_key(v):
    k = v[0]
    if k in ('int', 'ts'):
        return (v[1],)
    if k == 'bool':
        return (int(v[1]),)
    if k == 'str':
        return (v[1].encode(),)
    if k == 'bytes':
        return (v[1],)
    if k == 'none':
        return (0,)
    if k == 'some':
        return (1, sort_key(v[1]))
    if k == 'left':
        return (0, sort_key(v[1]))
    if k == 'right':
        return (1, sort_key(v[1]))
    if k == 'pair':
        return (sort_key(v[1]), sort_key(v[2]))
    raise ValueError(k)


# ---------------------------------------------------------------------------------------------- values
def binarize(t):
    """`pair a b c` -> `pair a (pair b c)` (inner nodes unannotated), as PairType.create_type does"""
    if t['prim'] == 'pair' and len(t['args']) > 2:
        inner = binarize({'prim': 'pair', 'args': t['args'][1:]})
        t = dict(t, args=[t['args'][0], inner])
    return t


def gen_dom(rng, kind, force=None):
    prefixes = DOM_PREFIXES[kind]
    tag = rng.randrange(len(prefixes))
    if kind == 'signature' and rng.random() < 0.5:
        tag = 3
    n = PAYLOAD_LEN[prefixes[tag]]
    payload = bytearray(rng.bytes_(n))
    r = rng.random() if force is None else force
    if r < 0.35:
        payload[0] = rng.choice([0, 1, 2, 3])
    if 0.25 < r < 0.5:
        payload[-1] = 0
    if 0.45 < r < 0.5:
        payload[1] = rng.choice([0, 1, 2, 3])
    ep = b''
    if kind in ('address', 'contract') and rng.random() < 0.4:
        ln = rng.choice([1, 1, 2, 5, 7, 8, 31])
        ep = ''.join(rng.choice('abcdefXYZ019_.') for _ in range(ln)).encode()
        if ep == b'default':
            ep = b'defaul'
        if rng.random() < 0.15:     # names around the reserved word `default` (only the exact name is dropped)
            ep = rng.choice([b'default_admin', b'defaultOwner', b'default0', b'set_default', b'xdefault', b'defaultdefault', b'Default'])
        if rng.random() < 0.08:     # '%' inside the entrypoint: text form `addr%a%b`, split at the first '%' only
            i = rng.randrange(len(ep))
            ep = ep[:i] + b'%' + ep[i + 1:]
    return ('dom', kind, tag, bytes(payload), ep)


# magnitudes at which the zarith encoding grows by a byte (6 bits in the first byte, 7 in each later one), either sign, and their
# neighbours; the int64 / mutez limits
INT_BOUNDARIES = sorted({s * (m + d) for k in range(0, 7) for m in [2 ** (6 + 7 * k)] for d in (-1, 0, 1) for s in (1, -1)}
                        | {0, 1, -1, 127, 128, -127, -128, 255, 256, -255, -256, 2 ** 31, -2 ** 31, 2 ** 62, 2 ** 63 - 1, 2 ** 63, -2 ** 63, 2 ** 64})


def gen_int(rng):
    if rng.random() < 0.2:
        return rng.choice(INT_BOUNDARIES)
    return rng.big_int(rng.choice([8, 64, 64, 300, 4096]))


def gen_value(rng, t, pairs_ok=True, size=3, unfaithful=0.0):
    t = binarize(t)
    p = t['prim']
    a = t.get('args', [])
    if p == 'unit':
        return ('unit',)
    if p == 'bool':
        return ('bool', rng.random() < 0.5)
    if p == 'int':
        return ('int', gen_int(rng))
    if p == 'nat':
        return ('int', abs(gen_int(rng)))
    if p == 'mutez':
        return ('int', rng.choice([0, 1, 2 ** 63 - 1, rng.getrandbits(rng.randrange(1, 64))]))
    if p == 'timestamp':
        k = rng.randrange(4)
        if k == 0:
            return ('ts', rng.choice(TS_BOUNDARIES))
        if k == 1:
            return ('ts', rng.randrange(-62135596800 - 10 ** 9, 253402300800 + 10 ** 9))
        if k == 2:
            return ('ts', rng.randrange(0, 2 ** 32))
        return ('ts', gen_int(rng))
    if p == 'string':
        return ('str', ''.join(rng.choice('ab Z09"\\\n{}()#;-%@~') for _ in range(rng.choice([0, 1, 3, 10]))))
    if p in ('bytes', 'chest', 'chest_key'):
        return ('bytes', rng.bytes_(rng.choice([0, 1, 2, 20, 33])))
    if p == 'bls12_381_g1':
        return ('bytes', rng.bytes_(96))
    if p == 'bls12_381_g2':
        return ('bytes', rng.bytes_(192))
    if p == 'bls12_381_fr':
        return ('fr', rng.choice([0, 1, FR_MODULUS - 1, rng.getrandbits(255) % FR_MODULUS, rng.getrandbits(64)]))
    if p in TYPE_TO_KIND:
        return gen_dom(rng, TYPE_TO_KIND[p])
    if p == 'option':
        return ('none',) if rng.random() < 0.3 else ('some', gen_value(rng, a[0], pairs_ok, size, unfaithful))
    if p == 'or':
        return ('left', gen_value(rng, a[0], pairs_ok, size, unfaithful)) if rng.random() < 0.5 else ('right', gen_value(rng, a[1], pairs_ok, size, unfaithful))
    if p == 'pair':
        return ('pair', gen_value(rng, a[0], pairs_ok, size, unfaithful), gen_value(rng, a[1], pairs_ok, size, unfaithful))
    if p == 'list':
        return ('list', [gen_value(rng, a[0], pairs_ok, size - 1, unfaithful) for _ in range(rng.randrange(0, max(1, size) + 1))])
    if p in ('set', 'map', 'big_map'):
        n = rng.randrange(0, max(1, size) + 1) if orderable(a[0], pairs_ok) else rng.randrange(0, 2)
        keys = {}
        for _ in range(n):
            kv = gen_value(rng, a[0], pairs_ok, 1)
            keys[repr(sort_key(kv)) if n > 1 else 'only'] = kv
        ks = sorted(keys.values(), key=sort_key) if len(keys) > 1 else list(keys.values())
        if p == 'set':
            return ('set', ks)
        items = [(k, gen_value(rng, a[1], pairs_ok, size - 1, unfaithful)) for k in ks]
        if p == 'map':
            return ('map', items)
        r = rng.random()
        if r < unfaithful:
            return ('bigmap', rng.randrange(0, 1000), items)      # id and diff items: the id-rendering drops the items
        if r < 0.5 + unfaithful / 2:
            return ('bigmap', rng.choice([0, 1, 17, 2 ** 40]), [])
        return ('bigmap', None, items)
    if p == 'lambda':
        return ('lambda', rng.choice(LAMBDA_POOL))
    if p == 'ticket':
        d = gen_dom(rng, 'address')
        return ('ticket', (d[2], d[3], d[4]), gen_value(rng, a[0], pairs_ok, 1), abs(gen_int(rng)))
    if p == 'sapling_state':
        return ('sapling', None if rng.random() < 0.3 else rng.randrange(0, 100))
    raise ValueError(p)


# ---------------------------------------------------------------------------------------------- real objects
def dom_text(kind, tag, payload, ep):
    from pytezos.crypto.encoding import base58_encode
    s = base58_encode(payload, DOM_PREFIXES[kind][tag].encode()).decode()
    if ep:
        s += '%' + ep.decode()
    return s


def dom_untext(kind, s):
    """real base58 text -> (tag, payload, ep) or None when it is not a well-formed value of the kind"""
    import base58
    from pytezos.crypto.encoding import base58_encodings
    addr, _, ep = s.partition('%')
    for tag, pref in enumerate(DOM_PREFIXES[kind]):
        if addr.startswith(pref):
            row = next((r for r in base58_encodings if r[0] == pref.encode() and r[3] == PAYLOAD_LEN[pref]), None)
            try:
                raw = base58.b58decode_check(addr)
            except Exception:
                return None
            if row is None or len(addr) != row[1] or not raw.startswith(row[2]) or len(raw) != len(row[2]) + row[3]:
                return None
            if '%' in s and kind not in ('address', 'contract', 'txr'):
                return None
            return tag, raw[len(row[2]):], ep.encode()
    return None


def build(cls, sv):
    """real pytezos value of type class `cls` from a structured value, through the constructors"""
    from pytezos.michelson.micheline import Micheline
    from pytezos.michelson.types.base import Undefined
    k = sv[0]
    if k == 'unit':
        return cls()
    if k in ('bool', 'int', 'ts', 'fr', 'bytes'):
        return cls(sv[1])
    if k == 'str':
        return cls(sv[1])
    if k == 'dom':
        return cls(dom_text(*sv[1:]))
    if k == 'none':
        return cls(None)
    if k == 'some':
        return cls(build(cls.args[0], sv[1]))
    if k == 'left':
        return cls((build(cls.args[0], sv[1]), Undefined))
    if k == 'right':
        return cls((Undefined, build(cls.args[1], sv[1])))
    if k == 'pair':
        return cls((build(cls.args[0], sv[1]), build(cls.args[1], sv[2])))
    if k in ('list', 'set'):
        return cls([build(cls.args[0], x) for x in sv[1]])
    if k == 'map':
        return cls([(build(cls.args[0], a), build(cls.args[1], b)) for a, b in sv[1]])
    if k == 'bigmap':
        return cls([(build(cls.args[0], a), build(cls.args[1], b)) for a, b in sv[2]], ptr=sv[1])
    if k == 'lambda':
        return cls(Micheline.match(sv[1]))
    if k == 'ticket':
        return cls(dom_text('address', *sv[1]), build(cls.args[0], sv[2]), sv[3])
    if k == 'sapling':
        return cls(sv[1])
    raise ValueError(k)


def type_class(t):
    from pytezos.michelson.types.base import MichelsonType
    return MichelsonType.match(t)


# ---------------------------------------------------------------------------------------------- tokens
def _hex(b):
    return b.hex() if b else '-'


def _named(t):
    """truthiness of `field_name or type_name` of the class made from type expression t"""
    f = [x[1:] for x in t.get('annots', []) if x.startswith('%')]
    y = [x[1:] for x in t.get('annots', []) if x.startswith(':')]
    return bool((f[0] if f else None) or (y[0] if y else None))


def sv_tokens(t, sv):
    """tokens of the structured value at type expression t (pair flags from the annotations)"""
    from harness import mich
    t = binarize(t)
    a = t.get('args', [])
    k = sv[0]
    if k == 'unit':
        return ['u']
    if k == 'bool':
        return ['t' if sv[1] else 'f']
    if k == 'int':
        return [f'i{sv[1]}']
    if k == 'ts':
        return [f'm{sv[1]}']
    if k == 'fr':
        return [f'r{sv[1]}']
    if k == 'str':
        return ['s' + _hex(sv[1].encode())]
    if k == 'bytes':
        return ['b' + _hex(sv[1])]
    if k == 'dom':
        return [f'd{sv[1]}:{sv[2]}:{_hex(sv[3])}:{_hex(sv[4])}']
    if k == 'none':
        return ['n']
    if k == 'some':
        return ['o'] + sv_tokens(a[0], sv[1])
    if k == 'left':
        return ['L'] + sv_tokens(a[0], sv[1])
    if k == 'right':
        return ['R'] + sv_tokens(a[1], sv[1])
    if k == 'pair':
        return ['p1' if _named(t) else 'p0'] + sv_tokens(a[0], sv[1]) + sv_tokens(a[1], sv[2])
    if k == 'list':
        return [f'l{len(sv[1])}'] + [x for v in sv[1] for x in sv_tokens(a[0], v)]
    if k == 'set':
        return [f'e{len(sv[1])}'] + [x for v in sv[1] for x in sv_tokens(a[0], v)]
    if k == 'map':
        return [f'M{len(sv[1])}'] + [x for kk, vv in sv[1] for x in sv_tokens(a[0], kk) + sv_tokens(a[1], vv)]
    if k == 'bigmap':
        return [f'G{"-" if sv[1] is None else sv[1]}:{len(sv[2])}'] + [x for kk, vv in sv[2] for x in sv_tokens(a[0], kk) + sv_tokens(a[1], vv)]
    if k == 'lambda':
        return [f'c{len(sv[1])}'] + [x for m in sv[1] for x in mich.to_tokens(m)]
    if k == 'ticket':
        tg, pl, ep = sv[1]
        return [f'k{tg}:{_hex(pl)}:{_hex(ep)}:{sv[3]}'] + sv_tokens(a[0], sv[2])
    if k == 'sapling':
        return [f'a{"-" if sv[1] is None else sv[1]}']
    raise ValueError(k)


def obj_tokens(v):
    """tokens of a real pytezos value (what `from_micheline_value` returned), read off the object"""
    from harness import mich
    from pytezos.michelson import types as T
    from pytezos.michelson.types.base import MichelsonType
    from pytezos.michelson.types.bls import BLS12_381_FrType
    from pytezos.michelson.types.domain import LambdaType, TXRAddress
    from pytezos.michelson.types.sapling import SaplingStateType
    from pytezos.michelson.types.ticket import TicketType

    def dom(kind, s):
        r = dom_untext(kind, s)
        if r is None:
            return [f'd{kind}:?:{s}']        # not a well-formed value of the kind: never equal to a model output
        return [f'd{kind}:{r[0]}:{_hex(r[1])}:{_hex(r[2])}']

    if isinstance(v, T.UnitType):
        return ['u']
    if isinstance(v, T.BoolType):
        return ['t' if v.value else 'f']
    if isinstance(v, BLS12_381_FrType):
        return [f'r{v.value}']
    if isinstance(v, T.TimestampType):
        return [f'm{v.value}']
    if isinstance(v, T.IntType):
        return [f'i{v.value}']
    if isinstance(v, T.ContractType):
        return dom('contract', v.value)
    if isinstance(v, T.AddressType):
        return dom('address', v.value)
    if isinstance(v, TXRAddress):
        return dom('txr', v.value)
    if isinstance(v, T.KeyHashType):
        return dom('key_hash', v.value)
    if isinstance(v, T.KeyType):
        return dom('key', v.value)
    if isinstance(v, T.SignatureType):
        return dom('signature', v.value)
    if isinstance(v, T.ChainIdType):
        return dom('chain_id', v.value)
    if isinstance(v, T.StringType):
        return ['s' + _hex(v.value.encode())]
    if isinstance(v, T.BytesType):
        return ['b' + _hex(v.value)]
    if isinstance(v, T.OptionType):
        return ['n'] if v.item is None else ['o'] + obj_tokens(v.item)
    if isinstance(v, T.OrType):
        return (['L'] + obj_tokens(v.items[0])) if isinstance(v.items[0], MichelsonType) else (['R'] + obj_tokens(v.items[1]))
    if isinstance(v, T.PairType):
        return ['p1' if (v.field_name or v.type_name) else 'p0'] + obj_tokens(v.items[0]) + obj_tokens(v.items[1])
    if isinstance(v, T.ListType):
        return [f'l{len(v.items)}'] + [x for i in v.items for x in obj_tokens(i)]
    if isinstance(v, T.SetType):
        return [f'e{len(v.items)}'] + [x for i in v.items for x in obj_tokens(i)]
    if isinstance(v, T.BigMapType):
        return [f'G{"-" if v.ptr is None else v.ptr}:{len(v.items)}'] + [x for a, b in v.items for x in obj_tokens(a) + obj_tokens(b)]
    if isinstance(v, T.MapType):
        return [f'M{len(v.items)}'] + [x for a, b in v.items for x in obj_tokens(a) + obj_tokens(b)]
    if isinstance(v, LambdaType):
        code = mich.normalize(v.value.as_micheline_expr())
        return [f'c{len(code)}'] + [x for m in code for x in mich.to_tokens(m)]
    if isinstance(v, TicketType):
        r = dom_untext('address', v.ticketer)
        head = f'k?:{v.ticketer}' if r is None else f'k{r[0]}:{_hex(r[1])}:{_hex(r[2])}:{v.amount}'
        return [head] + obj_tokens(v.item)
    if isinstance(v, SaplingStateType):
        return [f'a{"-" if v.ptr is None else v.ptr}']
    raise ValueError(type(v).__name__)


# ---------------------------------------------------------------------------------------------- placeholders
ALL_PREFIXES = sorted({p for ps in DOM_PREFIXES.values() for p in ps}, key=len, reverse=True)


def placeholder(prefix, payload, ep):
    return f'#{prefix}:{payload.hex()}:{ep.hex()}'


def _untext_any(s):
    """(prefix, payload, ep) when s is well-formed base58 text of any domain kind (with optional %entrypoint)"""
    for kind, prefixes in DOM_PREFIXES.items():
        r = dom_untext(kind, s)
        if r is not None:
            return prefixes[r[0]], r[1], r[2]
    return None


def to_placeholders(m, in_lambda=False):
    """real Micheline -> the same with every string that is well-formed base58 text of a domain kind replaced by the
    structured placeholder `#prefix:payload:entrypoint` the Lean driver uses (the generators never produce such
    strings for `string`-typed leaves)"""
    if isinstance(m, list):
        return [to_placeholders(x) for x in m]
    if 'string' in m:
        r = _untext_any(m['string'])
        return {'string': placeholder(*r)} if r is not None else m
    if 'prim' in m and m.get('args'):
        return dict(m, args=[to_placeholders(x) for x in m['args']])
    return m


def from_placeholders(m):
    """model Micheline -> real Micheline (placeholder strings back to base58 text)"""
    from pytezos.crypto.encoding import base58_encode
    if isinstance(m, list):
        return [from_placeholders(x) for x in m]
    if 'string' in m and m['string'].startswith('#'):
        parts = m['string'][1:].split(':')
        if len(parts) == 3 and parts[0] in ALL_PREFIXES:
            try:
                s = base58_encode(bytes.fromhex(parts[1]), parts[0].encode()).decode()
                ep = bytes.fromhex(parts[2])
                return {'string': s + ('%' + ep.decode() if ep else '')}
            except Exception:
                return m
        return m
    if 'prim' in m and m.get('args'):
        return dict(m, args=[from_placeholders(x) for x in m['args']])
    return m


# ------------------------------------------------------------------------------------------------ clock stream (C11)
RFC_LO, RFC_HI = -62135596800, 253402300799
# year boundaries asked for by the property (first / last supported year, first leap year, first century, first
# 400-year leap century, the old glibc `%Y` padding limit, the Gregorian reform, epoch, 2^31, the next non-leap
# century) plus ordinary leap / non-leap years and neighbours of centuries
CLOCK_YEARS = [1, 4, 100, 400, 1000, 1582, 1600, 1900, 1970, 2000, 2038, 2100, 9999,
               2, 99, 101, 399, 401, 999, 1599, 1601, 1899, 1901, 1969, 1972, 1999, 2001, 2020, 2021, 2099, 2101, 2400, 9996, 9998]


def days_of(y, m, d):
    """days since 1970-01-01 of a date in years 1..9999 (the harness's own statement: `datetime.date` ordinals)"""
    import datetime
    return datetime.date(y, m, d).toordinal() - 719163


def is_leap(y):
    return (y % 4 == 0 and y % 100 != 0) or y % 400 == 0


def month_len(y, m):
    return 29 if (m == 2 and is_leap(y)) else [31, 28, 31, 30, 31, 30, 31, 31, 30, 31, 30, 31][m - 1]


def civil_of_days(z):
    """(y, m, d) of a day number in ANY year, independent of the model's algorithm: the Gregorian calendar repeats every
    400 years = 146097 days, so the day is shifted into 1601..2000 and looked up with `datetime.date`"""
    import datetime
    k, r = divmod(z - days_of(1601, 1, 1), 146097)
    d = datetime.date.fromordinal(r + days_of(1601, 1, 1) + 719163)
    return d.year + 400 * k, d.month, d.day


def days_of_any(y, m, d):
    k, yy = divmod(y - 1601, 400)
    return days_of(yy + 1601, m, d) + 146097 * k


def canon_ts(t):
    """the canonical text of an instant in the supported range, stated without pytezos"""
    days, secs = divmod(t, 86400)
    y, m, d = civil_of_days(days)
    return '%04d-%02d-%02dT%02d:%02d:%02dZ' % (y, m, d, secs // 3600, secs % 3600 // 60, secs % 60)


def clock_instants(rng, n_random, n_midnights):
    """[(label, t)] in the ORDER in which the real functions are to be called (one process: a defect that depends on
    the call history — a per-day cache, say — shows on the second instant of a pair)"""
    out = []

    def add(label, t):
        out.append((label, t))

    for y in CLOCK_YEARS:
        for m in range(1, 13):
            first = days_of(y, m, 1) * 86400
            nxt = first + month_len(y, m) * 86400
            for dt in (-1, 0, 1):                                    # …T23:59:59 of the previous day, midnight, …T00:00:01
                if RFC_LO <= first + dt <= RFC_HI:
                    add(f'month-start:{y:04d}', first + dt)
            for dt in (-86400, -86399, -2, -1):                      # last day of the month 00:00:00 / 00:00:01, 23:59:58 / 23:59:59
                if RFC_LO <= nxt + dt <= RFC_HI:
                    add(f'month-end:{y:04d}', nxt + dt)
        feb28 = days_of(y, 2, 28) * 86400
        for dt in (-1, 0, 43200, 86399, 86400, 86401, 2 * 86400 - 1, 2 * 86400):   # Feb 28, Feb 29 | Mar 1, Mar 1 | Mar 2
            add(f'feb:{"leap" if is_leap(y) else "common"}:{y:04d}', feb28 + dt)
        for dt in (0, 1, 86399):
            add(f'year-start:{y:04d}', days_of(y, 1, 1) * 86400 + dt)
            add(f'year-end:{y:04d}', days_of(y, 12, 31) * 86400 + 86399 - dt)
    for d in range(4, 16):                                           # the proleptic calendar has no gap in October 1582
        add('gregorian-reform', days_of(1582, 10, d) * 86400)
    for t in (0, -1, 1, -2, 2, -86400, -86401, -86399, 86399, 86400, 86401, -43200, 43200, 59, 60, 61, 3599, 3600, 3601,
              -59, -60, -61, -3599, -3600, -3601, 2 ** 31 - 1, 2 ** 31, 2 ** 31 + 1, -2 ** 31, -2 ** 31 - 1, 2 ** 32 - 1, 2 ** 32,
              RFC_LO, RFC_LO + 1, RFC_LO + 86399, RFC_LO + 86400, RFC_HI, RFC_HI - 1, RFC_HI - 86399, RFC_HI - 86400):
        add('epoch-and-powers', t)
    # midnights anywhere in the range, the second before and after, in both call orders
    for i in range(n_midnights):
        k = rng.randrange(RFC_LO // 86400 + 1, RFC_HI // 86400) if i % 3 else rng.randrange(RFC_LO // 86400 + 1, 0)
        order = [(0, -1, 1), (-1, 0, 1), (1, -1, 0)][i % 3]
        for dt in order:
            add('midnight:' + ('before-1970' if k < 0 else 'after-1970'), k * 86400 + dt)
    for i in range(n_random):
        if i % 4 == 0:
            add('random:negative', rng.randrange(RFC_LO, 0))
        elif i % 4 == 1:
            add('random:1970-2106', rng.randrange(0, 2 ** 32))
        else:
            add('random:range', rng.randrange(RFC_LO, RFC_HI + 1))
    for t in (RFC_LO - 1, RFC_LO - 2, RFC_LO - 86400, RFC_LO - 366 * 86400, RFC_LO - 366 * 86400 - 1, RFC_HI + 1, RFC_HI + 2,
              RFC_HI + 86400, 10 ** 12, -10 ** 12, 10 ** 15, -10 ** 15, 2 ** 63 - 1, 2 ** 63, -2 ** 63, 2 ** 64, 10 ** 30, -10 ** 30):
        add('outside:' + ('before-year-1' if t < 0 else 'after-year-9999'), t)
    for _ in range(max(20, n_random // 100)):
        t = rng.choice([RFC_LO - 1 - rng.randrange(10 ** 10), RFC_HI + 1 + rng.randrange(10 ** 10)])
        add('outside:' + ('before-year-1' if t < 0 else 'after-year-9999'), t)
    return out


# Python adds the fraction as a binary float (`timestamp += float("0" + fraction)`): fractions within 2^-15 of a whole
# second can land on the neighbouring integer.  The model reproduces binary64 rounding, so every kind is generated.
def any_fraction(rng):
    k = rng.randrange(10)
    if k == 0:
        return '0' * rng.randrange(1, 12)
    if k == 1:                                                       # just above a whole second
        return '0' * rng.randrange(3, 25) + rng.choice('123456789') + ''.join(rng.choice('0123456789') for _ in range(rng.randrange(0, 4)))
    if k == 2:                                                       # just below the next second
        return '9' * rng.randrange(3, 25) + ''.join(rng.choice('0123456789') for _ in range(rng.randrange(0, 4)))
    if k == 3:                                                       # around one half (ties of `int`, not of the rounding)
        return rng.choice(['5', '50', '4' + '9' * rng.randrange(1, 20), '5' + '0' * rng.randrange(1, 20) + '1'])
    if k == 4:                                                       # very long: underflow of the tail, 400 digits
        return ''.join(rng.choice('0123456789') for _ in range(rng.choice([40, 100, 400])))
    if k == 5:
        return '0' * rng.choice([320, 330, 400]) + '1'               # subnormal / underflow to 0.0
    n = rng.choice([1, 2, 3, 4, 6, 9, 12, 17])
    return ''.join(rng.choice('0123456789') for _ in range(n))


def clock_spellings(rng, t, rich):
    """[(label, string)] around the canonical text of instant t: what pytezos accepts on input and near misses"""
    s = canon_ts(t)
    days, _ = divmod(t, 86400)
    y, m, d = civil_of_days(days)
    out = [('canonical', s)]
    if not rich:
        return out
    body = s[:-1]
    out += [('lowercase-t', s.replace('T', 't')), ('lowercase-z', body + 'z'), ('space-for-T', s.replace('T', ' ')),
            ('no-zone', body), ('trailing-newline', s + '\n'), ('trailing-space', s + ' '), ('leading-space', ' ' + s),
            ('two-newlines', s + '\n\n'), ('leading-newline', '\n' + s), ('trailing-Z', s + 'Z'),
            ('year-5-digits', '0' + s), ('year-3-digits', s[1:]), ('year-0000', '0000' + s[4:]), ('signed-year', '+' + s[1:]),
            ('fraction-dot-only', body + '.Z'), ('fraction-comma', body + ',5Z')]
    fr = any_fraction(rng)
    out += [('fraction', body + '.' + fr + 'Z'), ('fraction-newline', body + '.' + fr + 'Z\n')]
    sg, oh, om = rng.choice('+-'), rng.randrange(0, 24), rng.randrange(0, 60)
    out += [('offset', body + '%s%02d:%02d' % (sg, oh, om)), ('offset-fraction', body + '.' + any_fraction(rng) + '%s%02d:%02d' % (sg, oh, om)),
            ('offset-zero', body + rng.choice(['+00:00', '-00:00'])), ('offset-23:59', body + rng.choice('+-') + '23:59'),
            ('offset-24:00', body + '+24:00'), ('offset-00:60', body + '-00:60'), ('offset-no-colon', body + '+0100'),
            ('offset-short', body + '+01'), ('offset-newline', body + '-05:30\n'), ('offset-then-Z', body + '+01:00Z')]

    def put(pos, width, val):
        return s[:pos] + ('%0*d' % (width, val)) + s[pos + width:]
    out += [('day-after-month-end', put(8, 2, month_len(y, m) + 1)), ('day-00', put(8, 2, 0)), ('day-31', put(8, 2, 31)),
            ('day-30', put(8, 2, 30)), ('month-00', put(5, 2, 0)), ('month-13', put(5, 2, 13)), ('hour-24', put(11, 2, 24)),
            ('minute-60', put(14, 2, 60)), ('second-60', put(17, 2, 60)), ('feb-29', put(8, 2, 29)[:5] + '02' + put(8, 2, 29)[7:]),
            ('feb-30', put(8, 2, 30)[:5] + '02' + put(8, 2, 30)[7:]), ('feb-28', put(8, 2, 28)[:5] + '02' + put(8, 2, 28)[7:])]
    for _ in range(4):
        i = rng.randrange(len(s))
        c = rng.choice('0123456789-:TZtz+. 9')
        out.append(('mutant-char', s[:i] + c + s[i + 1:]))
    i = rng.randrange(len(s))
    out.append(('mutant-drop', s[:i] + s[i + 1:]))
    out.append(('mutant-insert', s[:i] + rng.choice('0123456789-:TZ.') + s[i:]))
    return out
