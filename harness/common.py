"""Shared machinery of every check: regeneration of the Lean tables from /repo, lake build and
axiom audit (the proof obligations), the line-protocol driver, case bookkeeping, the verdict
(VIOLATION / KNOWN-FINDING protocol) and the evidence file.

A property module (harness/props/cXX.py) exposes

    PROP = 'Cxx'
    def run(ctx): ...            # generates cases, calls ctx.case(...) / ctx.mismatch(...)

`ctx.model(lines)` pipes protocol lines through `lean --run Driver/Cxx.lean`; when the Lean side does
not build it returns None and the module only evaluates the property oracle on the implementation
(this is the failing-input search the brief asks for when a proof obligation breaks).
"""
import fcntl
import hashlib
import json
import os
import random
import re
import subprocess
import sys
import time
import traceback

ROOT = os.path.dirname(os.path.dirname(os.path.abspath(__file__)))
LEAN = os.path.join(ROOT, 'lean')
REPO = os.environ.get('VERIF_REPO', '/repo')
WORK = os.path.join(ROOT, '.work')
# evidence/<id>.json describes runs against /repo itself; a mutation experiment against a scratch
# worktree (VERIF_REPO=<dir>) writes its record under .work/ so it never replaces the committed one
# (VERIF_EVIDENCE_SCRATCH=1: sweeps over many seeds keep the committed record untouched as well)
EVIDENCE = (os.path.join(ROOT, 'evidence')
            if os.path.realpath(REPO) == os.path.realpath('/repo') and not os.environ.get('VERIF_EVIDENCE_SCRATCH')
            else os.path.join(WORK, 'evidence-scratch'))
ALLOWED_AXIOMS = {'propext', 'Classical.choice', 'Quot.sound'}
FORBIDDEN = re.compile(r'\bsorry\b|\badmit\b|^\s*axiom\s|native_decide|bv_decide|implemented_by|\bunsafe\s|maxHeartbeats\s+0\b')

TRUSTED_BASE = [
    'Lean 4.33.0 kernel; axioms restricted to propext, Classical.choice, Quot.sound (audited by #print axioms on every run)',
    'translator/extract.py (ast-based regeneration of Generated/*.lean from /repo/src)',
    'hand-written Lean Impl mirror, tied to the code only by the differential correspondence run',
    'hand-written Spec definitions (transcription of the Tezos/Michelson reference)',
]


def use_repo():
    """Make `import pytezos` resolve to the tree under test (the editable install points at /repo/src;
    VERIF_REPO lets mutation experiments run against a scratch worktree)."""
    src = os.path.join(REPO, 'src')
    if src not in sys.path:
        sys.path.insert(0, src)
    os.environ.setdefault('PYTEZOS_VERIF', '1')


class Rng(random.Random):
    """one PRNG state per run; case i of seed s can be re-derived with Rng.for_case(s, i)"""

    @staticmethod
    def for_case(seed, index, salt=''):
        h = hashlib.sha256(f'{seed}:{index}:{salt}'.encode()).digest()
        return Rng(int.from_bytes(h[:8], 'big'))

    def big_int(self, bits=256, signed=True):
        kind = self.randrange(8)
        if kind == 0:
            v = self.choice([0, 1, 2, 63, 64, 65, 127, 128, 255, 256, 8191, 8192, 8193, 2**20 - 1, 2**20, 2**31, 2**62, 2**63 - 1, 2**63, 2**64])
        elif kind == 1:
            k = self.randrange(1, max(2, bits // 8))
            v = self.choice([2 ** (8 * k) - 1, 2 ** (8 * k), 2 ** (8 * k - 1), 2 ** (7 * k), 2 ** (7 * k) - 1])
        else:
            v = self.getrandbits(self.randrange(1, bits + 1))
        if signed and self.random() < 0.5:
            v = -v
        return v

    def bytes_(self, n):
        return bytes(self.getrandbits(8) for _ in range(n))


def _sh(cmd, cwd=None, timeout=3000, input=None):
    p = subprocess.run(cmd, cwd=cwd, capture_output=True, text=True, timeout=timeout, input=input)
    return p.returncode, p.stdout + p.stderr


class BuildLock:
    def __enter__(self):
        os.makedirs(WORK, exist_ok=True)
        self.f = open(os.path.join(WORK, 'lake.lock'), 'w')
        fcntl.flock(self.f, fcntl.LOCK_EX)

    def __exit__(self, *a):
        fcntl.flock(self.f, fcntl.LOCK_UN)
        self.f.close()


def write_if_changed(path, text):
    try:
        with open(path) as f:
            if f.read() == text:
                return False
    except FileNotFoundError:
        pass
    os.makedirs(os.path.dirname(path), exist_ok=True)
    with open(path, 'w') as f:
        f.write(text)
    return True


def theorem_names(prop):
    """names of the property theorems = every `theorem` declared in Props/Cxx.lean"""
    path = os.path.join(LEAN, 'PytezosModel', 'Props', f'{prop}.lean')
    src = open(path).read()
    src_nc = re.sub(r'/-.*?-/', '', src, flags=re.S)
    src_nc = re.sub(r'--.*', '', src_nc)
    ns = None
    m = re.search(r'^namespace\s+(\S+)', src_nc, flags=re.M)
    if m:
        ns = m.group(1)
    names = re.findall(r'^\s*(?:protected\s+|private\s+)?theorem\s+([^\s:({\[]+)', src_nc, flags=re.M)
    return [f'{ns}.{n}' if ns else n for n in names]


def import_closure(roots):
    """project-local modules (files under lean/) reachable through `import` lines from the given module names"""
    seen, todo = set(), list(roots)
    while todo:
        m = todo.pop()
        if m in seen:
            continue
        path = os.path.join(LEAN, *m.split('.')) + '.lean'
        if not os.path.exists(path):
            continue
        seen.add(m)
        for ln in open(path):
            mm = re.match(r'\s*(?:public\s+)?import\s+(\S+)', ln)
            if mm:
                todo.append(mm.group(1))
    return sorted(seen)


def scan_forbidden(prop=None):
    """forbidden constructs in the Lean sources the property's theorems and driver depend on (all of lean/ if prop is None)"""
    bad = []
    if prop is None:
        files = [os.path.join(b, fn) for b, _, fs in os.walk(LEAN) if '.lake' not in b for fn in fs if fn.endswith('.lean')]
    else:
        files = [os.path.join(LEAN, *m.split('.')) + '.lean' for m in import_closure([f'PytezosModel.Props.{prop}', f'Driver.{prop}'])]
    for p in files:
        src = open(p).read()
        src = re.sub(r'/-.*?-/', lambda m: '\n' * m.group(0).count('\n'), src, flags=re.S)
        for i, line in enumerate(src.split('\n'), 1):
            line = re.sub(r'--.*', '', line)
            line = re.sub(r'"(?:[^"\\]|\\.)*"', '""', line)
            if FORBIDDEN.search(line):
                bad.append(f'{os.path.relpath(p, LEAN)}:{i}: {line.strip()}')
    return bad


class Ctx:
    def __init__(self, prop, tier, seed):
        self.prop, self.tier, self.seed = prop, tier, seed
        self.rng = Rng(seed * 1000003 + int(prop[1:]))
        self.t0 = time.time()
        self.evaluations = 0
        self.distinct = set()
        self.samples = []
        self.hist = {}
        self.violations = []      # property fails on the implementation (concrete input)
        self.mismatches = []      # model and implementation differ
        self.obligations = []     # (name, ok, detail)
        self.notes = []
        self.lean_ok = False
        self.traces = 0
        self.assumptions = []
        self.extra = {}
        self.max_samples = 6

    # ---- proof side -------------------------------------------------------------------------
    def obligation(self, name, ok, detail=''):
        self.obligations.append((name, bool(ok), detail))

    def prepare_lean(self, gen_status, extra_targets=()):
        """regenerate -> build -> audit.  Sets self.lean_ok (driver usable) and records obligations."""
        prop = self.prop
        for name, (ok, detail) in gen_status.items():
            self.obligation(f'translator:{name}', ok, detail)
        thms = theorem_names(prop)
        audit_src = f'import PytezosModel.Props.{prop}\n' + ''.join(f'#print axioms {t}\n' for t in thms)
        with BuildLock():
            write_if_changed(os.path.join(LEAN, 'PytezosModel', 'Audit', f'{prop}.lean'), audit_src)
            targets = [f'Driver.{prop}', f'PytezosModel.Props.{prop}', *extra_targets]
            rc_d, log_d = _sh(['lake', 'build', targets[0]], cwd=LEAN)
            self.exe = None
            exe_name = f'drv_{prop.lower()}'
            if rc_d == 0 and f'name = "{exe_name}"' in open(os.path.join(LEAN, 'lakefile.toml')).read():
                rc_e, _ = _sh(['lake', 'build', exe_name], cwd=LEAN)
                if rc_e == 0:
                    self.exe = os.path.join(LEAN, '.lake', 'build', 'bin', exe_name)
            rc_p, log_p = _sh(['lake', 'build', *targets[1:]], cwd=LEAN)
        self.lean_ok = rc_d == 0
        if rc_d != 0:
            self.obligation('build:driver', False, log_d[-3000:])
        if rc_p != 0:
            failed = sorted(set(re.findall(r'error: (\S+\.lean:\d+:\d+): (.*)', log_p)))
            self.obligation('build:props', False, log_p[-4000:])
            for t in thms:
                self.obligation(f'theorem:{t}', False, 'Props module does not build: ' + '; '.join(f'{a} {b}' for a, b in failed[:4]))
        else:
            rc, out = _sh(['lake', 'env', 'lean', f'PytezosModel/Audit/{prop}.lean'], cwd=LEAN)
            seen = {}
            for m in re.finditer(r"'([^']+)' depends on axioms: \[([^\]]*)\]", out):
                seen[m.group(1)] = {a.strip() for a in m.group(2).replace('\n', ' ').split(',') if a.strip()}
            for m in re.finditer(r"'([^']+)' does not depend on any axioms", out):
                seen[m.group(1)] = set()
            for t in thms:
                if t not in seen:
                    self.obligation(f'theorem:{t}', False, 'not reported by #print axioms: ' + out[-500:])
                else:
                    extra = seen[t] - ALLOWED_AXIOMS
                    self.obligation(f'theorem:{t}', not extra, f'axioms={sorted(seen[t])}')
        bad = scan_forbidden(prop)
        self.obligation('source-scan:no sorry/axiom/native_decide', not bad, '; '.join(bad[:5]))
        for name, ok, detail in anchor_obligations(prop):
            self.obligation(name, ok, detail)
        if self.tier == 'thorough' and rc_p == 0 and os.environ.get('VERIF_LEANCHECKER', '1') == '1':
            rc, out = _sh(['lake', 'env', 'leanchecker', f'PytezosModel.Props.{prop}'], cwd=LEAN, timeout=3000)
            self.obligation('leanchecker:Props', rc == 0, out[-500:])
        return self.lean_ok

    def model(self, lines, driver=None):
        """run protocol lines through the Lean driver; None when the model side is unavailable"""
        if not self.lean_ok:
            return None
        if not lines:
            return []
        for ln in lines:
            assert '\n' not in ln
        rc, out = 1, ''
        if getattr(self, 'exe', None) and (driver or self.prop) == self.prop:
            cmd = [self.exe]
        else:
            cmd = ['lake', 'env', 'lean', '--run', f'Driver/{driver or self.prop}.lean']
        p = subprocess.run(cmd, cwd=LEAN, input='\n'.join(lines) + '\n', capture_output=True, text=True, timeout=3000)
        outs = p.stdout.split('\n')
        if outs and outs[-1] == '':
            outs.pop()
        if p.returncode != 0 or len(outs) != len(lines):
            self.obligation('driver:run', False, f'rc={p.returncode} got {len(outs)} lines for {len(lines)}: {p.stderr[-800:]}')
            self.lean_ok = False
            return None
        self.traces += len(lines)
        return outs

    # ---- case bookkeeping -------------------------------------------------------------------
    def count(self, bucket, key):
        d = self.hist.setdefault(bucket, {})
        d[str(key)] = d.get(str(key), 0) + 1

    def case(self, desc, nontrivial=True):
        """register one explored case; desc must be JSON-serialisable and canonical"""
        self.evaluations += 1
        if nontrivial:
            self.distinct.add(hashlib.sha1(json.dumps(desc, sort_keys=True, default=str).encode()).digest()[:10])
        if len(self.samples) < self.max_samples and (self.evaluations % 97 == 1 or self.evaluations <= 2):
            self.samples.append(desc)

    def violation(self, key, what, replay):
        """the property fails on the real code for a concrete input. key identifies the failing
        input / call site for the known-findings file."""
        self.violations.append({'key': key, 'what': what, 'replay': replay})

    def mismatch(self, stream, desc, impl, model):
        self.mismatches.append({'stream': stream, 'case': desc, 'impl': impl, 'model': model})

    def compare(self, stream, descs, impl_outs, model_outs):
        if model_outs is None:
            return
        for d, a, b in zip(descs, impl_outs, model_outs):
            if a != b:
                self.mismatch(stream, d, a, b)

    # ---- verdict ----------------------------------------------------------------------------
    def finish(self):
        prop = self.prop
        known = load_known(prop)
        lines = []
        rc = 0
        os.makedirs(os.path.join(ROOT, 'replays'), exist_ok=True)
        unlisted = []
        seen_known = {}
        firsts = {}
        for v in self.violations:
            k = match_known(known, v['key'])
            if k is not None:
                seen_known.setdefault(k['key'], (k, v))
            elif v['key'] not in firsts:
                firsts[v['key']] = v
                v['count'] = 1
                unlisted.append(v)
            else:
                firsts[v['key']]['count'] += 1
        for k, v in seen_known.values():
            lines.append(f"KNOWN-FINDING: property={prop} {k['what']}")
        broken = [(n, d) for n, ok, d in self.obligations if not ok]
        replay_path = os.path.join('replays', f'{prop}-{self.tier}-{self.seed}.json')
        if unlisted:
            rc = 1
            json.dump({'property': prop, 'seed': self.seed, 'tier': self.tier, 'kind': 'failing-input',
                       'violations': unlisted[:60], 'broken_obligations': broken[:10], 'mismatches': self.mismatches[:10]},
                      open(os.path.join(ROOT, replay_path), 'w'), indent=1, default=str)
            lines.append(f'VIOLATION property={prop} replay={replay_path}')
        elif broken or self.mismatches:
            rc = 1
            json.dump({'property': prop, 'seed': self.seed, 'tier': self.tier, 'kind': 'no-failing-input-found',
                       'no_longer_checks': [n for n, _ in broken] + sorted({'correspondence:' + m['stream'] for m in self.mismatches}),
                       'broken_obligations': broken[:10], 'mismatches': self.mismatches[:10],
                       'searched': {'evaluations': self.evaluations, 'distinct': len(self.distinct)}},
                      open(os.path.join(ROOT, replay_path), 'w'), indent=1, default=str)
            lines.append(f'VIOLATION property={prop} replay={replay_path} no-failing-input-found')
        # keys the evidence schema types: a module's extra of another type is kept under <key>_note
        typed = {'exhaustive': bool, 'states': int, 'transitions': int, 'programs': int, 'disagreements_checked': int,
                 'explanation': str, 'evaluations': int, 'distinct_nontrivial': int, 'obligations': int, 'discharged': int,
                 'traces_validated_against_impl': int, 'checker_cmd': str, 'rule': str}
        for k, t in typed.items():
            if k in self.extra and k != 'rule' and not (type(self.extra[k]) is t):
                self.extra[k + '_note'] = self.extra.pop(k)
        for k in ('evaluations', 'distinct_nontrivial', 'obligations', 'discharged', 'checker_cmd', 'trusted_base', 'samples'):
            if k in self.extra:      # measured by this class, never overridden by a module
                self.extra[k + '_note'] = self.extra.pop(k)
        n_obl = len(self.obligations)
        n_ok = sum(1 for _, ok, _ in self.obligations if ok)
        ev = {
            'property_id': prop, 'tier': self.tier, 'seed': self.seed, 'level': 'proof',
            'coverage': {
                'obligations': n_obl, 'discharged': n_ok,
                'obligation_list': [{'name': n, 'ok': ok, 'detail': d[:300]} for n, ok, d in self.obligations],
                'checker_cmd': f'cd lean && lake build PytezosModel.Props.{prop} && lake env lean PytezosModel/Audit/{prop}.lean',
                'trusted_base': TRUSTED_BASE,
                'evaluations': self.evaluations, 'distinct_nontrivial': len(self.distinct),
                'traces_validated_against_impl': self.traces,
                'rule': self.extra.pop('rule', 'see harness/props/%s.py' % prop.lower()),
                'samples': self.samples or ['(no cases generated)'],
                'input_distribution': self.hist,
                'correspondence_mismatches': len(self.mismatches),
                'known_findings_seen': [k['key'] for k, _ in seen_known.values()],
                **self.extra,
            },
            'assumptions': self.assumptions,
            'wall_s': round(time.time() - self.t0, 2),
            'violations': len(unlisted) + (1 if (not unlisted and (broken or self.mismatches)) else 0),
        }
        os.makedirs(EVIDENCE, exist_ok=True)
        tmp = os.path.join(EVIDENCE, f'.{prop}.json.{os.getpid()}')
        with open(tmp, 'w') as f:
            json.dump(ev, f, indent=1, default=str)
        os.replace(tmp, os.path.join(EVIDENCE, f'{prop}.json'))
        for ln in lines:
            print(ln)
        for n, d in broken[:8]:
            print(f'  broken obligation: {n}: {d[:400]}', file=sys.stderr)
        for m in self.mismatches[:5]:
            print(f'  mismatch[{m["stream"]}]: case={json.dumps(m["case"], default=str)[:300]} impl={str(m["impl"])[:200]} model={str(m["model"])[:200]}', file=sys.stderr)
        for v in unlisted[:5]:
            print(f'  failing input: {v["key"]}: {v["what"][:300]}', file=sys.stderr)
        print(f'{prop} {self.tier} seed={self.seed}: obligations {n_ok}/{n_obl}, cases {self.evaluations} '
              f'({len(self.distinct)} distinct), model-traces {self.traces}, mismatches {len(self.mismatches)}, '
              f'violations {len(unlisted)}, known {len(seen_known)}, {ev["wall_s"]}s -> exit {rc}')
        return rc


def anchor_obligations(prop):
    """the functions the property is anchored in (properties.jsonl `anchors.mechanism`, located in the pinned tree and
    followed by qualified name; anchors/anchors.json, written by tools/mk_anchors.py) still have the bodies the hand-written
    mirror and the harness were made from.  A changed, moved or deleted anchored body is an open obligation
    `anchor:<file>:<qualname>`: the tie between model and code is no longer established for it, and the run goes on to
    search for a failing input.  [(name, ok, detail)]"""
    import ast as _ast
    path = os.path.join(ROOT, 'anchors', 'anchors.json')
    if not os.path.exists(path):
        return []
    try:
        sys.path.insert(0, os.path.join(ROOT, 'tools'))
        import mk_anchors
    finally:
        sys.path.pop(0)
    out, cache = [], {}
    for e in json.load(open(path))['anchors'].get(prop, []):
        f = os.path.join(REPO, e['file'])
        if f not in cache:
            try:
                cache[f] = dict((q, mk_anchors.digest(n)) for q, n in mk_anchors.items(_ast.parse(open(f).read())))
            except (OSError, SyntaxError) as ex:
                cache[f] = {'<error>': str(ex)}
        cur = cache[f]
        name = f"anchor:{e['file'].replace('src/pytezos/', '')}:{e['name']}"
        if e['name'] not in cur:
            out.append((name, False, f"anchored definition not found in {e['file']} ({cur.get('<error>', 'renamed or removed')}); mechanism: {e['mechanism']}"))
        else:
            ok = cur[e['name']] == e['digest']
            out.append((name, ok, '' if ok else f"body differs from the one the mirror was made from (digest {cur[e['name']]} != {e['digest']}); mechanism: {e['mechanism']}"))
    return out


def load_known(prop):
    out = []
    p = os.path.join(ROOT, 'known_findings.jsonl')
    if os.path.exists(p):
        for ln in open(p):
            ln = ln.strip()
            if not ln or ln.startswith('#'):
                continue
            d = json.loads(ln)
            if d.get('property') == prop and d.get('status') == 'open':
                out.append(d)
    return out


def match_known(known, key):
    for k in known:
        if k['key'] == key:
            return k
    return None
