"""C12 helpers: type / value trees, their Micheline and token forms, type-directed generators, the independent
statement of the layout (field names) and of the excluded classes.

type  ::= ('s', ann, scalar) | ('p', ann, l, r) | ('o', ann, l, r) | ('O', ann, t) | ('l', ann, t) | ('S', ann, t)
        | ('m', ann, k, v) | ('b', ann, k, v) | ('c', ann, param) | ('k', ann, t) (ticket) | ('f', ann, p, r) (lambda)
                                                                    ann = (field | None, type | None)
scalars: the eight simple ones, the base58 leaves (address key_hash key signature chain_id: value ('s', text)),
bls12_381_fr (('I', n)), bls12_381_g1 / g2 (('x', bytes)), never (no value); a contract value is ('s', text),
a ticket ('K', ticketer, item, amount), a lambda ('f', canonical JSON text of the body's Micheline)
value ::= ('U',) | ('T',) | ('F',) | ('I', n) | ('s', str) | ('x', bytes) | ('P', a, b) | ('L', v) | ('R', v)
        | ('N',) | ('J', v) | ('l', [v]) | ('S', [v]) | ('m', [(k, v)]) | ('b', [(k, v)]) | ('B', id)"""
import decimal
import functools
import json

SIMPLE = ['unit', 'bool', 'nat', 'int', 'mutez', 'timestamp', 'string', 'bytes']
B58 = ['address', 'key_hash', 'key', 'signature', 'chain_id']
BLS = ['bls12_381_fr', 'bls12_381_g1', 'bls12_381_g2']
SCALARS = SIMPLE + B58 + BLS + ['never']
COMPARABLE = SIMPLE + B58
INT_LEAVES = ('nat', 'int', 'mutez', 'timestamp', 'bls12_381_fr')
FR_MODULUS = 0x73EDA753299D7D483339D80809A1D80553BDA402FFFE5BFEFFFFFFFF00000001
PRIM = {'s': None, 'p': 'pair', 'o': 'or', 'O': 'option', 'l': 'list', 'S': 'set', 'm': 'map', 'b': 'big_map', 'c': 'contract', 'k': 'ticket', 'f': 'lambda'}
NOANN = (None, None)


def prim(t):
    return t[2] if t[0] == 's' else PRIM[t[0]]


def args(t):
    return [] if t[0] == 's' else list(t[2:])


def with_ann(t, ann):
    return (t[0], ann) + t[2:]


# ---------------------------------------------------------------------------------------------- Micheline
def ty_expr(t):
    e = {'prim': prim(t)}
    if args(t):
        e['args'] = [ty_expr(a) for a in args(t)]
    f, ty = t[1]
    annots = ([':' + ty] if ty is not None else []) + (['%' + f] if f is not None else [])
    if annots:
        e['annots'] = annots
    return e


def val_expr(t, v):
    k = t[0]
    if k == 's':
        sc = t[2]
        if sc == 'unit':
            return {'prim': 'Unit'}
        if sc == 'bool':
            return {'prim': 'True' if v[0] == 'T' else 'False'}
        if sc in INT_LEAVES:
            return {'int': str(v[1])}
        if sc == 'string' or sc in B58:
            return {'string': v[1]}
        return {'bytes': v[1].hex()}
    if k == 'c':
        return {'string': v[1]}
    if k == 'k':
        return {'prim': 'Pair', 'args': [{'string': v[1]}, {'prim': 'Pair', 'args': [val_expr(t[2], v[2]), {'int': str(v[3])}]}]}
    if k == 'f':
        return json.loads(v[1])
    if k == 'p':
        return {'prim': 'Pair', 'args': [val_expr(t[2], v[1]), val_expr(t[3], v[2])]}
    if k == 'o':
        return {'prim': 'Left', 'args': [val_expr(t[2], v[1])]} if v[0] == 'L' else {'prim': 'Right', 'args': [val_expr(t[3], v[1])]}
    if k == 'O':
        return {'prim': 'None'} if v[0] == 'N' else {'prim': 'Some', 'args': [val_expr(t[2], v[1])]}
    if k in 'lS':
        return [val_expr(t[2], x) for x in v[1]]
    if v[0] == 'B':
        return {'int': str(v[1])}
    return [{'prim': 'Elt', 'args': [val_expr(t[2], a), val_expr(t[3], b)]} for a, b in v[1]]


def val_of_expr(t, e, inst=None):
    """legacy_optimized Micheline -> value tree (type-directed).  The optimized form of a base58 leaf is its forged bytes
    (and a signature loses its prefix there), so those leaves — and bls12_381_fr — are read from the instance itself,
    which is walked in parallel when given (`.items` / `.item` / `.value`)"""
    k = t[0]
    if k == 's':
        sc = t[2]
        if sc == 'unit':
            return ('U',)
        if sc == 'bool':
            return ('T',) if e['prim'] == 'True' else ('F',)
        if sc in B58:
            return ('s', _text(inst.value))
        if sc == 'bls12_381_fr':
            return ('I', inst.value)
        if sc in INT_LEAVES:
            return ('I', int(e['int']))
        if sc == 'string':
            return ('s', e['string'])
        return ('x', bytes.fromhex(e['bytes']))
    if k == 'c':
        return ('s', _text(inst.value))
    if k == 'k':
        return ('K', _text(inst.ticketer), val_of_expr(t[2], e['args'][1]['args'][0], inst.item), inst.amount)
    if k == 'f':
        return ('f', code_text(e))
    sub = (lambda i: None) if inst is None else (lambda i: inst.items[i])
    if k == 'p':
        assert e['prim'] == 'Pair' and len(e['args']) == 2, e
        return ('P', val_of_expr(t[2], e['args'][0], sub(0)), val_of_expr(t[3], e['args'][1], sub(1)))
    if k == 'o':
        return ('L', val_of_expr(t[2], e['args'][0], sub(0))) if e['prim'] == 'Left' else ('R', val_of_expr(t[3], e['args'][0], sub(1)))
    if k == 'O':
        return ('N',) if e['prim'] == 'None' else ('J', val_of_expr(t[2], e['args'][0], None if inst is None else inst.item))
    if k == 'l':
        return ('l', [val_of_expr(t[2], x, sub(i)) for i, x in enumerate(e)])
    if k == 'S':
        return ('S', [val_of_expr(t[2], x, sub(i)) for i, x in enumerate(e)])
    if isinstance(e, dict):
        return ('B', int(e['int']))
    return ('m' if k == 'm' else 'b', [(val_of_expr(t[2], x['args'][0], None if inst is None else inst.items[i][0]),
                                        val_of_expr(t[3], x['args'][1], None if inst is None else inst.items[i][1])) for i, x in enumerate(e)])


def code_text(e):
    """canonical JSON text of a Micheline expression"""
    return json.dumps(e, sort_keys=True, separators=(',', ':'))


def _text(x):
    return x if isinstance(x, str) else '!not-a-str:' + repr(x)


def has_instance_leaf(t):
    return any((x[0] == 's' and (x[2] in B58 or x[2] == 'bls12_381_fr')) or x[0] in 'ck' for x in subterms(t))


# ---------------------------------------------------------------------------------------------- tokens
def _opt(a):
    return '-' if a is None else '+' + a.encode().hex()


def ty_toks(t):
    a = _opt(t[1][0]) + ',' + _opt(t[1][1])
    if t[0] == 's':
        return ['s', a, t[2]]
    out = [t[0], a]
    for x in args(t):
        out += ty_toks(x)
    return out


def _hx(b):
    return b.hex() if b else '-'


def val_toks(v):
    k = v[0]
    if k in 'UTFN':
        return [k]
    if k == 'I':
        return [f'I{v[1]}']
    if k == 'B':
        return [f'B{v[1]}']
    if k == 's':
        return ['s' + _hx(v[1].encode())]
    if k == 'x':
        return ['x' + _hx(v[1])]
    if k == 'P':
        return ['P'] + val_toks(v[1]) + val_toks(v[2])
    if k == 'K':
        return ['K' + _hx(v[1].encode())] + val_toks(v[2]) + [f'I{v[3]}']
    if k == 'f':
        return ['f' + _hx(v[1].encode())]
    if k in 'LRJ':
        return [k] + val_toks(v[1])
    if k in 'lS':
        out = [f'{k}{len(v[1])}']
        for x in v[1]:
            out += val_toks(x)
        return out
    out = [f'{k}{len(v[1])}']
    for a, b in v[1]:
        out += val_toks(a) + val_toks(b)
    return out


def py_toks(o):
    """real Python object -> tokens (untyped; a dict is a dict)"""
    from pytezos.michelson.types.core import unit
    if o is None:
        return ['n']
    if isinstance(o, unit):
        return ['u']
    if isinstance(o, bool):
        return ['T' if o else 'F']
    if isinstance(o, int):
        return [f'I{o}']
    if isinstance(o, str):
        return ['s' + _hx(o.encode())]
    if isinstance(o, bytes):
        return ['x' + _hx(o)]
    if isinstance(o, decimal.Decimal):
        sign, digits, exp = o.as_tuple()
        if exp in ('n', 'N'):
            return ['Dnan']
        if exp == 'F':
            return ['Dinf']
        return ['D%s%de%d' % ('-' if sign else '+', int(''.join(map(str, digits)) or '0'), exp)]
    if isinstance(o, (tuple, list)):
        out = [('t' if isinstance(o, tuple) else 'l') + str(len(o))]
        for x in o:
            out += py_toks(x)
        return out
    if isinstance(o, dict):
        out = [f'd{len(o)}']
        for k, v in o.items():
            out += py_toks(k) + py_toks(v)
        return out
    raise ValueError(f'unexpected python object {o!r}')


# ---------------------------------------------------------------------------------------------- rendering
def ty_str(t, top=True):
    f, ty = t[1]
    ann = (f' :{ty}' if ty is not None else '') + (f' %{f}' if f is not None else '')
    s = prim(t) + ann + ''.join(' ' + ty_str(a, False) for a in args(t))
    return s if top or (not args(t) and not ann) else f'({s})'


def val_str(v, top=True):
    k = v[0]
    if k == 'U':
        return 'Unit'
    if k in 'TF':
        return 'True' if k == 'T' else 'False'
    if k in 'IB':
        return str(v[1])
    if k == 's':
        return '"%s"' % v[1]
    if k == 'x':
        return '0x' + v[1].hex()
    if k == 'N':
        return 'None'
    if k == 'K':
        r = f'Pair "{v[1]}" {val_str(v[2], False)} {v[3]}'
        return r if top else f'({r})'
    if k == 'f':
        return 'lambda' + v[1]
    if k in 'lS':
        return '{' + '; '.join(val_str(x) for x in v[1]) + '}'
    if k in 'mb':
        return '{' + '; '.join(f'Elt {val_str(a, False)} {val_str(b, False)}' for a, b in v[1]) + '}'
    s = {'P': 'Pair', 'L': 'Left', 'R': 'Right', 'J': 'Some'}[k] + ''.join(' ' + val_str(x, False) for x in v[1:])
    return s if top else f'({s})'


# ---------------------------------------------------------------------------------------------- the layout, stated independently
def truthy(a):
    return bool(a)


def is_flat_pair(t):
    return t[0] == 'p' and not (truthy(t[1][0]) or truthy(t[1][1]))


def pair_leaves(t):
    """[(path, leaf type)] of a pair node: unnamed inner pairs are flattened, named ones stop"""
    out = []
    for i, a in ((0, t[2]), (1, t[3])):
        if is_flat_pair(a):
            out += [(str(i) + p, x) for p, x in pair_leaves(a)]
        else:
            out.append((str(i), a))
    return out


def or_leaves(t):
    out = []
    for i, a in ((0, t[2]), (1, t[3])):
        if a[0] == 'o':
            out += [(str(i) + p, x) for p, x in or_leaves(a)]
        else:
            out.append((str(i), a))
    return out


def first_pass_names(leaves):
    """the names before fixes/C12-1 (pinned tree): declared %field, else :type name, first occurrence wins; otherwise
    `<prim>_<index>` whatever the declared names are.  -> (names, generated?, any declared)"""
    seen, out, gen = set(), [], []
    for i, (_, a) in enumerate(leaves):
        key = a[1][0] if a[1][0] is not None else a[1][1]
        if key is not None and key not in seen:
            seen.add(key)
            out.append(key)
            gen.append(False)
        else:
            out.append(f'{prim(a)}_{i}')
            gen.append(True)
    return out, gen, bool(seen)


def spec_names(leaves):
    """documented naming: a declared %field (else :type) name is kept at its first occurrence; every other leaf gets
    `<prim>_<index>`, lengthened by as many `_` as it takes to differ from all declared names of the node and from the
    names generated for earlier leaves (stated on its own: shortest free candidate, not the loop of the source)"""
    cand, gen, named = first_pass_names(leaves)
    used = {n for n, g in zip(cand, gen) if not g}
    out = []
    for n, g in zip(cand, gen):
        if g:
            n = next(n + '_' * k for k in range(len(used) + 1) if n + '_' * k not in used)
            used.add(n)
        out.append(n)
    return out, named


def node_leaves(t):
    return pair_leaves(t) if t[0] == 'p' else or_leaves(t)


def former_collisions(t):
    """the pinned tree's name collisions of a pair / union node: [(kind, where)] with kind 'pair' | 'or' and where =
    'declared-before' | 'declared-after' (position of the declared name relative to the leaf whose generated name it equals)"""
    cand, gen, named = first_pass_names(node_leaves(t))
    if t[0] == 'p' and not named:
        return []
    out = []
    for i, (n, g) in enumerate(zip(cand, gen)):
        if g:
            for j, (m, h) in enumerate(zip(cand, gen)):
                if not h and m == n:
                    out.append(('pair' if t[0] == 'p' else 'or', 'declared-before' if j < i else 'declared-after'))
    return out


def node_names(t):
    """None: tuple layout; else the list of field names of a pair / union node"""
    if t[0] == 'p':
        names, named = spec_names(pair_leaves(t))
        return names if named else None
    names, _ = spec_names(or_leaves(t))
    return names


def is_enum(t):
    return t[0] == 'o' and all(x[0] == 's' and x[2] == 'unit' for _, x in or_leaves(t))


def py_has_unit(t):
    if t[0] == 's':
        return t[2] == 'unit'
    if t[0] == 'p':
        return py_has_unit(t[2]) or py_has_unit(t[3])
    if t[0] == 'o':
        return not is_enum(t) and (py_has_unit(t[2]) or py_has_unit(t[3]))
    if t[0] == 'O':
        return py_has_unit(t[2])
    return False


def has_pair(t):
    if t[0] == 'p':
        return True
    if t[0] == 'o':
        return has_pair(t[2]) or has_pair(t[3])
    if t[0] == 'O':
        return has_pair(t[2])
    return False


def excluded(t, cmp=False, unit_hashable=True, pair_lt_lex=True):
    """list of (class, node) reasons why values of t need not convert back (independent statement of PyInvertible);
    field names are no reason: they have to be unique for every type"""
    out = []
    k = t[0]
    if cmp and (k in 'ckf' or (k == 's' and t[2] in BLS)):
        out.append(('not-comparable', t))       # `assert not comparable` in to_python_object
    if k == 'k':
        out += excluded(t[2], True, unit_hashable, pair_lt_lex)      # the contents are shown in the key rendering
    if k == 'p':
        for _, a in pair_leaves(t):
            out += excluded(a, cmp, unit_hashable, pair_lt_lex)
    elif k == 'o':
        for _, a in or_leaves(t):
            out += excluded(a, cmp, unit_hashable, pair_lt_lex)
    elif k == 'O':
        if t[2][0] == 'O':
            out.append(('option-of-option', t))
        out += excluded(t[2], cmp, unit_hashable, pair_lt_lex)
    elif k == 'l':
        if cmp:
            out.append(('not-comparable', t))
        out += excluded(t[2], False, unit_hashable, pair_lt_lex)
    elif k == 'S':
        if cmp:
            out.append(('not-comparable', t))
        if not unit_hashable and py_has_unit(t[2]):
            out.append(('unhashable-unit', t))
        if not pair_lt_lex and has_pair(t[2]):
            out.append(('set-of-pairs-order', t))
        out += excluded(t[2], True, unit_hashable, pair_lt_lex)
    elif k in 'mb':
        if cmp:
            out.append(('not-comparable', t))
        if not unit_hashable and py_has_unit(t[2]):
            out.append(('unhashable-unit', t))
        out += excluded(t[2], True, unit_hashable, pair_lt_lex)
        out += excluded(t[3], False, unit_hashable, pair_lt_lex)
    return out


# ---------------------------------------------------------------------------------------------- ordering of keys (Tezos)
def cmp_val(t, a, b):
    k = t[0]
    if k == 's':
        sc = t[2]
        if sc == 'unit':
            return 0
        if sc == 'bool':
            x, y = a[0] == 'T', b[0] == 'T'
        elif sc == 'address':
            x, y = addr_key(a[1]), addr_key(b[1])
        elif sc == 'key':
            x, y = key_key(a[1]), key_key(b[1])
        elif sc == 'signature':
            x, y = pools()['raw'][a[1]], pools()['raw'][b[1]]
        else:
            x, y = a[1], b[1]
        return (x > y) - (x < y)
    if k == 'p':
        return cmp_val(t[2], a[1], b[1]) or cmp_val(t[3], a[2], b[2])
    if k == 'o':
        if a[0] != b[0]:
            return -1 if a[0] == 'L' else 1
        return cmp_val(t[2] if a[0] == 'L' else t[3], a[1], b[1])
    if k == 'O':
        if a[0] == 'N' or b[0] == 'N':
            return (a[0] != 'N') - (b[0] != 'N')
        return cmp_val(t[2], a[1], b[1])
    raise ValueError(t)


def addr_key(s):
    """the order of addresses as documented in AddressType.__lt__: implicit < originated < smart rollup, then the address
    text, then the entrypoint (none = default)"""
    a, _, e = s.partition('%')
    return ({'KT1': 1, 'sr1': 2}.get(a[:3], 0), a, e or 'default')


def key_key(s):
    return (['edpk', 'sppk', 'p2pk', 'BLpk'].index(s[:4]), pools()['raw'][s])


@functools.lru_cache(None)
def pools():
    """valid base58 texts by leaf kind, made with the library's own encoder from fixed payloads (all-zero, all-0xff, mixed),
    and their decoded bytes"""
    from pytezos.crypto.encoding import base58_encode
    pay = lambda n: [bytes(n), b'\xff' * n, bytes((7 * i + 1) % 256 for i in range(n)), bytes((251 - 3 * i) % 256 for i in range(n))]
    mk = lambda pre, n: [base58_encode(x, pre).decode() for x in pay(n)]
    raw = {}
    out = {'raw': raw}
    out['key_hash'] = [x for pre in (b'tz1', b'tz2', b'tz3', b'tz4') for x in mk(pre, 20)[:3]]
    plain = [x for pre in (b'tz1', b'tz2', b'tz3', b'tz4', b'KT1', b'sr1') for x in mk(pre, 20)[:3]]
    kt = [x for x in plain if x.startswith('KT1')]
    out['address'] = plain + [kt[0] + '%foo', kt[0] + '%a', kt[1] + '%' + 'e' * 31, kt[0] + '%Default', plain[-1] + '%x']
    out['contract'] = out['address']
    out['key'] = mk(b'edpk', 32) + mk(b'sppk', 33)[:3] + mk(b'p2pk', 33)[:3] + mk(b'BLpk', 48)[:2]
    out['signature'] = mk(b'edsig', 64)[:2] + mk(b'spsig', 64)[2:3] + mk(b'p2sig', 64)[3:] + mk(b'sig', 64)[1:3] + mk(b'BLsig', 96)[:2]
    out['chain_id'] = mk(b'Net', 4) + ['NetXdQprcVkpaWU']
    import base58
    for k in ('key', 'signature'):
        for x in out[k]:
            pre = next(p_ for p_ in ('edsig', 'spsig', 'p2sig', 'BLsig', 'sig', 'edpk', 'sppk', 'p2pk', 'BLpk') if x.startswith(p_))
            n = {'edsig': 64, 'spsig': 64, 'p2sig': 64, 'sig': 64, 'BLsig': 96, 'edpk': 32, 'sppk': 33, 'p2pk': 33, 'BLpk': 48}[pre]
            raw[x] = base58.b58decode_check(x)[-n:]
    return out


CODE_SOURCES = ['{}', '{ DUP }', '{ DUP ; ADD }', '{ PUSH nat 1 ; ADD }', '{ DROP ; PUSH string "a b" }', '{ DIP { DROP } ; SWAP }',
                '{ IF_LEFT { DROP ; UNIT } { DROP ; UNIT } }', '{ PUSH (pair nat string) (Pair 1 "x") ; CAR }', '{ PUSH bytes 0x00ff ; DROP }',
                '{ DUP @x ; CAR %a ; DROP }', '{ LAMBDA nat nat { DUP ; MUL } ; SWAP ; EXEC }', '{ PUSH int -5 ; NEG ; DROP 1 ; UNPAIR 3 }',
                '{ ITER { DROP } ; NIL operation ; PAIR }', '{ PUSH (list nat) { 1 ; 2 ; 3 } ; DROP }', '{ { DUP } ; { } }',
                '{ PUSH string "line\\nbreak \\"q\\"" ; DROP }', '{ CAST (or (nat %l) (string %r)) ; DIG 2 ; DUG 2 }']


@functools.lru_cache(None)
def code_pool():
    """lambda bodies as the class holds them: parsed from source text and re-rendered by `Micheline.match(..).as_micheline_expr()`"""
    from pytezos.michelson.micheline import Micheline
    from pytezos.michelson.parse import michelson_to_micheline
    return [code_text(Micheline.match(michelson_to_micheline(src)).as_micheline_expr()) for src in CODE_SOURCES]


def inhabited(t):
    k = t[0]
    if k == 'k':
        return inhabited(t[2])
    if k == 's':
        return t[2] != 'never'
    if k == 'p':
        return inhabited(t[2]) and inhabited(t[3])
    if k == 'o':
        return inhabited(t[2]) or inhabited(t[3])
    return True


def sort_unique(t, xs, key=lambda x: x):
    xs = sorted(xs, key=functools.cmp_to_key(lambda a, b: cmp_val(t, key(a), key(b))))
    out = []
    for x in xs:
        if not out or cmp_val(t, key(out[-1]), key(x)) != 0:
            out.append(x)
    return out


# ---------------------------------------------------------------------------------------------- generators
NAME_POOL = ['a', 'b', 'c', 'a', 'x', 'owner', 'nat_0', 'nat_1', 'pair_0', 'pair_1', 'or_1', 'unit_0', 'unit_1', 'string_1',
             'option_0', 'int_2', 'map_1', 'big_map_0', 'list_1', 'set_0', 'bytes_1', 'bool_0', 'mutez_1', 'timestamp_0', '',
             # the annotation grammar `[@:%][_0-9a-zA-Z][_0-9a-zA-Z\.%@]*` allows `.`, `%`, `@` after the first character: `%a%` is the name `a%`
             'a%', 'a%%', 'x.y', 'a@', 'a%b', '_a', 'nat_1%']


def rand_ann(rng, p_field, p_type, allow_field=True):
    f = rng.choice(NAME_POOL) if allow_field and rng.random() < p_field else None
    ty = rng.choice(NAME_POOL) if rng.random() < p_type else None
    return (f, ty)


def rand_comparable(rng, depth, p_field=0.3):
    k = rng.randrange(10) if depth > 0 else 0
    if k <= 4:
        return ('s', NOANN, rng.choice(COMPARABLE if rng.random() < 0.7 else B58))
    if k <= 6:
        return ('p', NOANN, with_ann(rand_comparable(rng, depth - 1), rand_ann(rng, p_field, 0.1)),
                with_ann(rand_comparable(rng, depth - 1), rand_ann(rng, p_field, 0.1)))
    if k <= 8:
        return ('o', NOANN, with_ann(rand_comparable(rng, depth - 1), rand_ann(rng, p_field, 0.1)),
                with_ann(rand_comparable(rng, depth - 1), rand_ann(rng, p_field, 0.1)))
    return ('O', NOANN, rand_comparable(rng, depth - 1))


def rand_type(rng, depth, p_field=0.5, p_type=0.15, storage=True):
    """a type without annotation on its own node (the parent decides)"""
    k = rng.randrange(16) if depth > 0 else rng.randrange(4)
    if k < 4:
        r = rng.random()
        if r < 0.04:
            return ('f', NOANN, ('s', NOANN, rng.choice(['nat', 'unit', 'string'])), ('s', NOANN, rng.choice(['nat', 'unit'])))
        if r < 0.1 and depth > 0:
            return ('k', NOANN, with_ann(rand_comparable(rng, depth - 1), rand_ann(rng, 0.15, 0.1)))
        if r < 0.13:
            return ('k', NOANN, ('s', NOANN, rng.choice(COMPARABLE)))
        if r < 0.2:
            return ('c', NOANN, rng.choice([('s', NOANN, 'unit'), ('s', NOANN, 'nat'), ('p', NOANN, ('s', ('to', None), 'address'), ('s', NOANN, 'nat'))]))
        return ('s', NOANN, rng.choice(SIMPLE if r < 0.5 else SCALARS))
    if k < 8:
        pf = rng.choice([0.0, p_field, p_field, 1.0])
        l = with_ann(rand_type(rng, depth - 1, p_field, p_type, storage), rand_ann(rng, pf, p_type))
        r = with_ann(rand_type(rng, depth - 1, p_field, p_type, storage), rand_ann(rng, pf, p_type))
        return ('p', NOANN, l, r)
    if k < 11:
        pf = rng.choice([0.0, p_field, 1.0])
        if rng.random() < 0.3:   # enum
            mk = lambda d: ('s', rand_ann(rng, pf, p_type), 'unit') if d == 0 or rng.random() < 0.5 else ('o', rand_ann(rng, 0.2, 0.1), mk(d - 1), mk(d - 1))
            return ('o', NOANN, mk(depth - 1), mk(depth - 1))
        l = with_ann(rand_type(rng, depth - 1, p_field, p_type, storage), rand_ann(rng, pf, p_type))
        r = with_ann(rand_type(rng, depth - 1, p_field, p_type, storage), rand_ann(rng, pf, p_type))
        return ('o', NOANN, l, r)
    if k == 11:
        return ('O', NOANN, with_ann(rand_type(rng, depth - 1, p_field, p_type, storage), rand_ann(rng, 0, p_type, False)))
    if k == 12:
        return ('l', NOANN, with_ann(rand_type(rng, depth - 1, p_field, p_type, False), rand_ann(rng, 0, p_type, False)))
    if k == 13:
        return ('S', NOANN, with_ann(rand_comparable(rng, depth - 1), rand_ann(rng, 0, p_type, False)))
    kt = with_ann(rand_comparable(rng, depth - 1), rand_ann(rng, 0, p_type, False))
    vt = with_ann(rand_type(rng, depth - 1, p_field, p_type, False), rand_ann(rng, 0, p_type, False))
    if k == 14 or not storage:
        return ('m', NOANN, kt, vt)
    return ('b', NOANN, kt, vt)


def layout_nodes(t, path=(), parent=None):
    """(path, node) of the pair / union nodes of t that compute a layout of their own: a pair that is not flattened into
    a pair above it, a union that is not a branch of a union"""
    if (t[0] == 'p' and not (parent == 'p' and is_flat_pair(t))) or (t[0] == 'o' and parent != 'o'):
        yield path, t
    for i, a in enumerate(args(t)):
        yield from layout_nodes(a, path + (i,), t[0])


def lookalike(rng, t):
    """make a pair / union node of t (the root or, half of the time, a node inside it) a former collision shape: one
    leaf gets as declared name the name another leaf (earlier or later in the layout) would be generated — `prim_j`;
    sometimes as a :type name, sometimes with a third leaf declaring `prim_j_` (the first way out of the collision)"""
    nodes = [(path, n) for path, n in layout_nodes(t) if len(node_leaves(n)) >= 2]
    if not nodes:
        return t
    where, node = nodes[0] if (nodes[0][0] == () and rng.random() < 0.5) else rng.choice(nodes)
    leaves = node_leaves(node)
    plain = [x for x in range(len(leaves)) if leaves[x][1][0] != 'p']     # an unnamed pair is not a leaf
    if not plain:
        return t
    j = rng.choice(plain)                                   # the leaf whose name is generated
    i = rng.choice([x for x in range(len(leaves)) if x != j])   # the leaf that declares that name: i < j before, i > j after
    target = f'{prim(leaves[j][1])}_{j}'
    style = rng.randrange(10)

    def set_name(n, p, name, as_type=False):
        if not p:
            return with_ann(n, (None, name) if as_type else (name, n[1][1]))
        ch = list(n[2:])
        ch[int(p[0])] = set_name(ch[int(p[0])], p[1:], name, as_type)
        return (n[0], n[1]) + tuple(ch)

    node2 = with_ann_at(node, leaves[j][0], NOANN)
    node2 = set_name(node2, leaves[i][0], target, as_type=(style == 0))
    if style in (1, 2) and len(leaves) >= 3:
        k = rng.choice([x for x in range(len(leaves)) if x not in (i, j)])
        node2 = set_name(node2, leaves[k][0], target + '_')
    if [p_ for p_, _ in node_leaves(node2)] != [p_ for p_, _ in leaves]:
        return t                                             # the leaf set changed
    return replace_at(t, where, node2)


def with_ann_at(n, p, ann):
    if not p:
        return with_ann(n, ann)
    ch = list(n[2:])
    ch[int(p[0])] = with_ann_at(ch[int(p[0])], p[1:], ann)
    return (n[0], n[1]) + tuple(ch)


def subterm_paths(t, path=()):
    yield path, t
    for i, a in enumerate(args(t)):
        yield from subterm_paths(a, path + (i,))


def replace_at(t, path, new):
    if not path:
        return new
    ch = list(t[2:])
    ch[path[0]] = replace_at(ch[path[0]], path[1:], new)
    return (t[0], t[1]) + tuple(ch)


def rand_value(rng, t, size=3):
    k = t[0]
    if k == 's':
        sc = t[2]
        if sc == 'unit':
            return ('U',)
        if sc == 'bool':
            return (rng.choice('TF'),)
        if sc == 'nat':
            return ('I', rng.choice([0, 1, 2, 7, 255, 2 ** 64 + 3, rng.randrange(1000)]))
        if sc == 'int':
            return ('I', rng.choice([0, -1, 1, 5, -2 ** 70, rng.randrange(-500, 500)]))
        if sc == 'mutez':
            return ('I', rng.choice([0, 1, 2 ** 63 - 1, rng.randrange(10 ** 9)]))
        if sc == 'timestamp':
            return ('I', rng.choice([0, -1, 1700000000, rng.randrange(2 * 10 ** 9)]))
        if sc == 'string':
            return ('s', rng.choice(['', 'a', 'abc', 'Unit', 'None', '0', 'tz1', 'hello world', 'a_1', 'a\nb', ' ~']))
        if sc in B58:
            return ('s', rng.choice(pools()[sc]))
        if sc == 'bls12_381_fr':
            return ('I', rng.choice([0, 1, FR_MODULUS - 1, 2 ** 255 % FR_MODULUS, rng.randrange(FR_MODULUS), rng.randrange(1000)]))
        if sc == 'bls12_381_g1':
            return ('x', rng.choice([bytes(96), b'\x17' * 96, bytes(range(96)), b'', b'\x01']))      # no length check on this path
        if sc == 'bls12_381_g2':
            return ('x', rng.choice([bytes(192), bytes(i % 251 for i in range(192)), b'\xff']))
        if sc == 'never':
            raise ValueError('never has no value')
        return ('x', rng.choice([b'', b'\x00', b'\x01\x02', b'\xff' * 3, b'ab', b'\x05\x00\x2a', b'\x05\x01\x00\x00\x00\x01a']))
    if k == 'c':
        return ('s', rng.choice(pools()['contract']))
    if k == 'k':
        return ('K', rng.choice(pools()['address']), rand_value(rng, t[2], size), rng.choice([0, 1, 2 ** 64, rng.randrange(1000)]))
    if k == 'f':
        return ('f', rng.choice(code_pool()))
    if k == 'p':
        return ('P', rand_value(rng, t[2], size), rand_value(rng, t[3], size))
    if k == 'o':
        side = rng.random() < 0.5
        if not inhabited(t[2]) or not inhabited(t[3]):
            side = inhabited(t[2])
        return ('L', rand_value(rng, t[2], size)) if side else ('R', rand_value(rng, t[3], size))
    if k == 'O':
        return ('N',) if rng.random() < 0.4 or not inhabited(t[2]) else ('J', rand_value(rng, t[2], size))
    n = rng.choice([0, 1, 2, size])
    if not all(inhabited(a) for a in t[2:]):
        n = 0
    if k == 'l':
        return ('l', [rand_value(rng, t[2], size - 1) for _ in range(n)])
    if k == 'S':
        return ('S', sort_unique(t[2], [rand_value(rng, t[2], size - 1) for _ in range(n)]))
    if k == 'b' and rng.random() < 0.35:
        return ('B', rng.choice([0, 1, 17, 123456]))
    items = [(rand_value(rng, t[2], size - 1), rand_value(rng, t[3], size - 1)) for _ in range(n)]
    return (k, sort_unique(t[2], items, key=lambda e: e[0]))


def depth(t):
    return 0 if t[0] == 's' else 1 + max(depth(a) for a in args(t))


def subterms(t):
    yield t
    for a in args(t):
        yield from subterms(a)
