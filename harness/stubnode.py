"""A simulated Tezos node for the client-logic properties (C24 fees, C25 counters; usable by C23).

`StubNode` subclasses the real `RpcNode` and overrides only `request` (the single place where pytezos touches
the network), so the real `ShellQuery` / `RpcQuery` plumbing, URL building, JSON decoding and the
`RpcError.from_response` mapping are exercised unmodified:

    node  = StubNode()
    shell = ShellQuery(node)
    client = PyTezosClient().using(shell=shell, key=key)

RPC surface (exactly what `OperationGroup.fill/autofill/sign/inject` touch):
  GET  /version, /chains/main/chain_id
  GET  /chains/main/blocks/<id>/{hash,header,metadata,context/constants,context/contracts/<pkh>[/counter|/balance]}
  GET  /chains/main/mempool/pending_operations
  POST /chains/main/blocks/<id>/helpers/scripts/run_operation      (consumptions chosen by `node.simulate`)
  POST /injection/operation                                         (accept / refuse; the account state evolves)

Ground truth kept by the node: per account `counter` (last counter used on chain), the mempool (list of
accepted operations with their parsed contents), the head level.  `bake()` includes the mempool in a block:
every account's counter advances by the number of its pending contents.

Nothing here imports pytezos' forging / base58 / fee code: the binary operation is parsed by an independent
reader, so the node's view (size in bytes, counters, fees, gas limits) does not depend on the code under test.
The node rules are my transcription of Octez:
  * counter: the contents of a manager operation must carry counter+1, counter+2, ... where counter is the
    account's counter after the operations already accepted in the mempool (`check_counter` on injection;
    `run_operation` runs on the head context, i.e. ignores the mempool — `sim_checks_counter`);
  * fee (prevalidator default filter): fee*1000 >= minimal_fees*1000 + minimal_nanotez_per_byte*size
    + minimal_nanotez_per_gas_unit*gas with 100 mutez / 1000 nanotez / 100 nanotez, size = length of the signed
    operation (branch + contents + signature), gas = sum of the gas limits.
"""
import hashlib

B58 = '123456789ABCDEFGHJKLMNPQRSTUVWXYZabcdefghijkmnopqrstuvwxyz'

MINIMAL_FEES_MUTEZ = 100
MINIMAL_NANOTEZ_PER_BYTE = 1000
MINIMAL_NANOTEZ_PER_GAS_UNIT = 100

PKH_PREFIX = {  # base58 prefix bytes and the tag used in the binary `source` field
    'tz1': (bytes([6, 161, 159]), 0),
    'tz2': (bytes([6, 161, 161]), 1),
    'tz3': (bytes([6, 161, 164]), 2),
    'tz4': (bytes([6, 161, 166]), 3),
}
TAG_PKH = {tag: (name, pref) for name, (pref, tag) in PKH_PREFIX.items()}
KIND_OF_TAG = {107: 'reveal', 108: 'transaction', 109: 'origination', 110: 'delegation', 111: 'register_global_constant',
               158: 'transfer_ticket', 201: 'smart_rollup_add_messages', 206: 'smart_rollup_execute_outbox_message'}
PK_LEN = {0: 32, 1: 33, 2: 33, 3: 48}


def b58check_encode(payload: bytes) -> str:
    data = payload + hashlib.sha256(hashlib.sha256(payload).digest()).digest()[:4]
    n = int.from_bytes(data, 'big')
    out = ''
    while n:
        n, r = divmod(n, 58)
        out = B58[r] + out
    return '1' * (len(data) - len(data.lstrip(b'\0'))) + out


def b58check_decode(s: str) -> bytes:
    n = 0
    for ch in s:
        n = n * 58 + B58.index(ch)
    pad = len(s) - len(s.lstrip('1'))
    data = b'\0' * pad + n.to_bytes((n.bit_length() + 7) // 8, 'big')
    payload, cks = data[:-4], data[-4:]
    if hashlib.sha256(hashlib.sha256(payload).digest()).digest()[:4] != cks:
        raise ValueError('bad checksum')
    return payload


def pkh_to_raw(pkh: str) -> bytes:
    """'tz1...' -> 21 bytes (tag + 20-byte hash) as found in a manager operation's `source`"""
    pref, tag = PKH_PREFIX[pkh[:3]]
    payload = b58check_decode(pkh)
    assert payload[:3] == pref and len(payload) == 23, pkh
    return bytes([tag]) + payload[3:]


def raw_to_pkh(raw: bytes) -> str:
    name, pref = TAG_PKH[raw[0]]
    return b58check_encode(pref + raw[1:])


def block_hash(level: int) -> str:
    return b58check_encode(bytes([1, 52]) + hashlib.sha256(b'block%d' % level).digest())


def op_hash(payload: bytes) -> str:
    return b58check_encode(bytes([5, 116]) + hashlib.blake2b(payload, digest_size=32).digest())


CHAIN_ID = b58check_encode(bytes([87, 82, 0]) + b'\x7a\x06\xa7\x70')
PROTOCOL = b58check_encode(bytes([2, 170]) + hashlib.sha256(b'stub protocol').digest())


class ParseError(Exception):
    pass


def nat_len(n: int) -> int:
    k = 1
    while n >= 128:
        n >>= 7
        k += 1
    return k


class _Reader:
    def __init__(self, data: bytes, pos: int, end: int):
        self.d, self.i, self.end = data, pos, end

    def take(self, n):
        if n < 0 or self.i + n > self.end:
            raise ParseError('truncated')
        out = self.d[self.i:self.i + n]
        self.i += n
        return out

    def byte(self):
        return self.take(1)[0]

    def nat(self):
        v, shift, start = 0, 0, self.i
        while True:
            x = self.byte()
            v |= (x & 0x7F) << shift
            shift += 7
            if x < 0x80:
                if x == 0 and self.i - start > 1:
                    raise ParseError('non-minimal nat')
                return v, self.i - start

    def flag(self):
        x = self.byte()
        if x not in (0, 255):
            raise ParseError('bad bool')
        return x == 255

    def dyn(self):
        return self.take(int.from_bytes(self.take(4), 'big'))


def parse_manager_content(r: _Reader) -> dict:
    """one manager operation content; only the common header is decoded, the kind-specific tail is skipped"""
    start = r.i
    tag = r.byte()
    if tag not in KIND_OF_TAG:
        raise ParseError(f'unknown operation tag {tag}')
    src = r.take(21)
    if src[0] not in TAG_PKH:
        raise ParseError('bad source tag')
    fee, fee_len = r.nat()
    counter, counter_len = r.nat()
    gas, gas_len = r.nat()
    storage, storage_len = r.nat()
    if tag == 107:
        t = r.byte()
        if t not in PK_LEN:
            raise ParseError('bad public key tag')
        r.take(PK_LEN[t])
        if r.flag():
            r.dyn()
    elif tag == 108:
        r.nat()
        r.take(22)
        if r.flag():
            if r.byte() == 255:
                r.take(r.byte())
            r.dyn()
    elif tag == 109:
        r.nat()
        if r.flag():
            r.take(21)
        r.dyn()
        r.dyn()
    elif tag == 110:
        if r.flag():
            r.take(21)
    elif tag == 111:
        r.dyn()
    elif tag == 158:
        r.dyn()
        r.dyn()
        r.take(22)
        r.nat()
        r.take(22)
        r.dyn()
    elif tag == 201:
        r.dyn()
    elif tag == 206:
        r.take(20)
        r.take(32)
        r.dyn()
    return {'kind': KIND_OF_TAG[tag], 'source_raw': bytes(src), 'fee': fee, 'counter': counter, 'gas_limit': gas,
            'storage_limit': storage, 'size': r.i - start,
            'field_lens': {'fee': fee_len, 'counter': counter_len, 'gas_limit': gas_len, 'storage_limit': storage_len}}


def parse_signed_operation(payload: bytes) -> dict:
    """branch (32) ++ manager contents ++ signature (64 bytes, 96 for a tz4 source)"""
    if len(payload) < 32 + 23:
        raise ParseError('too short')
    if payload[32] not in KIND_OF_TAG:
        raise ParseError('not a manager operation')
    sig_len = 96 if payload[33] == 3 else 64
    end = len(payload) - sig_len
    if end <= 32:
        raise ParseError('no room for the signature')
    r = _Reader(payload, 32, end)
    contents = []
    while r.i < end:
        contents.append(parse_manager_content(r))
    if len({c['source_raw'] for c in contents}) != 1:
        raise ParseError('several sources in one batch')
    return {'branch': payload[:32], 'contents': contents, 'sig_len': sig_len, 'size': len(payload),
            'gas': sum(c['gas_limit'] for c in contents), 'fee': sum(c['fee'] for c in contents)}


def min_fee_nanotez(size: int, gas: int) -> int:
    return MINIMAL_FEES_MUTEZ * 1000 + MINIMAL_NANOTEZ_PER_BYTE * size + MINIMAL_NANOTEZ_PER_GAS_UNIT * gas


def fee_accepted(fee_mutez: int, size: int, gas: int) -> bool:
    """the node's default mempool filter"""
    return fee_mutez * 1000 >= min_fee_nanotez(size, gas)


def min_fee_mutez(size: int, gas: int) -> int:
    return -(-min_fee_nanotez(size, gas) // 1000)


class _Response:
    def __init__(self, status, body):
        self.status_code = status
        self._body = body
        self.headers = {'content-type': 'application/json'}
        import json as _json
        self.text = _json.dumps(body)

    def json(self):
        return self._body


def _node_base():
    from pytezos.rpc.node import RpcNode
    return RpcNode


def _error(eid, kind='temporary', **kw):
    return [{'kind': kind, 'id': f'proto.alpha.{eid}', **kw}]


def make_stub_node(**kwargs):
    """build a StubNode (class created lazily so that importing this module never imports pytezos)"""
    RpcNode = _node_base()
    from pytezos.rpc.node import RpcError

    class StubNode(RpcNode):
        def __init__(self, hard_gas=1040000, hard_storage=60000, level=1000, sandboxed=False,
                     check_fee=False, check_counter=True, sim_checks_counter=True):
            super().__init__('http://stub.invalid')
            self.constants = {
                'hard_gas_limit_per_operation': str(hard_gas),
                'hard_gas_limit_per_block': str(max(hard_gas, 1386666)),
                'hard_storage_limit_per_operation': str(hard_storage),
                'cost_per_byte': '250',
                'origination_size': 257,
                'minimal_block_delay': '8',
                'delay_increment_per_round': '4',
            }
            self.level = level
            self.sandboxed = sandboxed
            self.accounts = {}        # pkh -> {'counter': int, 'balance': int, 'raw': bytes}
            self.mempool = []         # accepted operations: {'hash','branch','contents':[json...],'parsed':..., 'where': 'applied'|'unprocessed'}
            self.posted = []          # every payload that reached /injection/operation (ground truth for the oracles)
            self.log = []             # (method, path)
            self.check_fee = check_fee
            self.check_counter = check_counter
            self.sim_checks_counter = sim_checks_counter
            self.refuse_next_injection = False    # transport-level / node-side refusal chosen by the scenario
            self.simulate = lambda i, content: {'milligas': 1000000}
            self.unprocessed_toggle = False

        # ---- ground truth -----------------------------------------------------------------------
        def add_account(self, pkh, counter=0, balance=10 ** 12):
            self.accounts[pkh] = {'counter': counter, 'balance': balance, 'raw': pkh_to_raw(pkh)}

        def pending_count(self, pkh):
            return sum(1 for op in self.mempool for c in op['contents'] if c['source'] == pkh)

        def add_pending(self, pkh, n_contents, where='applied'):
            """an operation of `pkh` already sitting in the mempool (injected by somebody else)"""
            acc = self.accounts[pkh]
            first = acc['counter'] + self.pending_count(pkh) + 1
            # every manager kind takes a counter, the ones added by later protocols included
            kinds = ['transaction', 'register_global_constant', 'delegation', 'transfer_ticket', 'reveal', 'smart_rollup_add_messages', 'origination',
                     'smart_rollup_execute_outbox_message']
            extra = {'transaction': {'amount': '1', 'destination': pkh}, 'register_global_constant': {'value': {'prim': 'Unit'}}, 'delegation': {},
                     'transfer_ticket': {'ticket_contents': {'string': 'T'}, 'ticket_ty': {'prim': 'string'}, 'ticket_ticketer': pkh, 'ticket_amount': '1',
                                         'destination': pkh, 'entrypoint': 'default'},
                     'reveal': {'public_key': 'edpkuBknW28nW72KG6RoHtYW7p12T6GKc7nAbwYX5m8Wd9sDVC9yav'}, 'smart_rollup_add_messages': {'message': ['00']},
                     'origination': {'balance': '0', 'script': {'code': [], 'storage': {'prim': 'Unit'}}},
                     'smart_rollup_execute_outbox_message': {'rollup': 'sr163Lv22CdE8QagCwf48PWDTquk6isQwv57', 'cemented_commitment': 'src12UJzB8mg7yU6nWPzicH7ofJbFjyJEbHvwtZdfRXi8DQHNp1LY8', 'output_proof': '00'}}
            k0 = len(self.mempool)
            contents = [{'kind': kinds[(k0 + i) % len(kinds)], 'source': pkh, 'fee': '1000', 'counter': str(first + i), 'gas_limit': '2000',
                         'storage_limit': '0', **extra[kinds[(k0 + i) % len(kinds)]]} for i in range(n_contents)]
            self.mempool.append({'hash': op_hash(b'foreign%d' % len(self.mempool)), 'branch': block_hash(self.level),
                                 'contents': contents, 'where': where})

        def add_rejected(self, pkh, n_contents, section='refused', shape='object'):
            """an operation of `pkh` the mempool has REJECTED (listed under refused / branch_refused / branch_delayed / outdated, in the
            legacy `[hash, body]` shape or as an object): it will never be applied and takes no counter"""
            acc = self.accounts[pkh]
            first = acc['counter'] + self.pending_count(pkh) + 1
            contents = [{'kind': 'transaction', 'source': pkh, 'fee': '0', 'counter': str(first + i), 'gas_limit': '2000',
                         'storage_limit': '0', 'amount': '1', 'destination': pkh} for i in range(n_contents)]
            if not hasattr(self, 'rejected'):
                self.rejected = []
            self.rejected.append((section, shape, {'hash': op_hash(b'rejected%d' % len(self.rejected)), 'branch': block_hash(self.level), 'contents': contents}))

        def bake(self):
            for op in self.mempool:
                for c in op['contents']:
                    if c['source'] in self.accounts:
                        self.accounts[c['source']]['counter'] += 1
            self.mempool = []
            self.level += 1

        # ---- HTTP -------------------------------------------------------------------------------
        def request(self, method, path, **kwargs):
            self.log.append((method, path))
            status, body = self._route(method, '/' + path.strip('/'), kwargs.get('params') or {}, kwargs.get('json'))
            res = _Response(status, body)
            if status == 404:
                raise RpcError(f'Not found: {path}')
            if status != 200:
                raise RpcError.from_response(res)
            return res

        def _block_level(self, block_id):
            if block_id == 'head':
                return self.level
            if block_id == 'genesis':
                return 0
            if block_id.startswith('head~'):
                return max(0, self.level - int(block_id[5:]))
            if block_id.isdigit():
                return int(block_id)
            for lvl in range(self.level, max(-1, self.level - 200), -1):
                if block_hash(lvl) == block_id:
                    return lvl
            return None

        def _route(self, method, path, params, json):
            seg = path.strip('/').split('/')
            if method == 'GET' and seg == ['version']:
                return 200, {'version': {'major': 0, 'minor': 0, 'additional_info': 'dev'},
                             'network_version': {'chain_name': 'SANDBOXED_TEZOS' if self.sandboxed else 'TEZOS_STUBNET',
                                                 'distributed_db_version': 2, 'p2p_version': 1}}
            if method == 'POST' and seg == ['injection', 'operation']:
                return self._inject(json)
            if seg[:2] != ['chains', 'main']:
                return 404, None
            rest = seg[2:]
            if method == 'GET' and rest == ['chain_id']:
                return 200, CHAIN_ID
            if method == 'GET' and rest == ['mempool', 'pending_operations']:
                return 200, self._pending_operations()
            if len(rest) >= 2 and rest[0] == 'blocks':
                lvl = self._block_level(rest[1])
                if lvl is None:
                    return 404, None
                tail = rest[2:]
                if method == 'GET' and tail == ['hash']:
                    return 200, block_hash(lvl)
                if method == 'GET' and tail == ['header']:
                    return 200, {'protocol': PROTOCOL, 'chain_id': CHAIN_ID, 'hash': block_hash(lvl), 'level': lvl,
                                 'predecessor': block_hash(max(0, lvl - 1)), 'timestamp': '2026-01-01T00:00:00Z'}
                if method == 'GET' and tail == ['metadata']:
                    return 200, {'protocol': PROTOCOL, 'next_protocol': PROTOCOL,
                                 'level_info': {'level': lvl, 'cycle': lvl // 128, 'cycle_position': lvl % 128,
                                                'voting_period': lvl // 640, 'voting_period_position': lvl % 640}}
                if method == 'GET' and tail == ['context', 'constants']:
                    return 200, dict(self.constants)
                if method == 'GET' and len(tail) >= 3 and tail[:2] == ['context', 'contracts']:
                    acc = self.accounts.get(tail[2])
                    if acc is None:
                        return 200, {'balance': '0', 'counter': '0'} if len(tail) == 3 else '0'
                    if len(tail) == 3:
                        return 200, {'balance': str(acc['balance']), 'counter': str(acc['counter'])}
                    if tail[3:] == ['counter']:
                        return 200, str(acc['counter'])
                    if tail[3:] == ['balance']:
                        return 200, str(acc['balance'])
                    return 404, None
                if method == 'POST' and tail == ['helpers', 'scripts', 'run_operation']:
                    return self._run_operation(json)
            return 404, None

        def _pending_operations(self):
            applied, unprocessed = [], []
            for op in self.mempool:
                body = {'hash': op['hash'], 'branch': op['branch'], 'contents': op['contents'], 'signature': 'sig'}
                if op.get('where') == 'unprocessed':
                    unprocessed.append([op['hash'], {k: v for k, v in body.items() if k != 'hash'}])
                else:
                    applied.append(body)
            out = {'applied': applied, 'refused': [], 'outdated': [], 'branch_refused': [], 'branch_delayed': [], 'unprocessed': unprocessed}
            for section, shape, op in getattr(self, 'rejected', []):
                err = [{'kind': 'permanent', 'id': 'proto.alpha.prefilter.fees_too_low'}]
                body = {'branch': op['branch'], 'contents': op['contents'], 'signature': 'sig', 'error': err}
                out[section].append([op['hash'], body] if shape == 'pair' else {'hash': op['hash'], **body})
            return out

        def _run_operation(self, body):
            op = body['operation']
            contents = op['contents']
            if self.sim_checks_counter and contents:
                src = contents[0].get('source')
                acc = self.accounts.get(src, {'counter': 0})
                for i, c in enumerate(contents):
                    got, want = int(c['counter']), acc['counter'] + 1 + i
                    if got != want:
                        eid = 'contract.counter_in_the_past' if got < want else 'contract.counter_in_the_future'
                        return 500, _error(eid, kind='branch' if got < want else 'temporary',
                                           contract=src, expected=str(want), found=str(got))
            out = []
            for i, c in enumerate(contents):
                sim = self.simulate(i, c)
                result = {'status': sim.get('status', 'applied'), 'consumed_milligas': str(sim.get('milligas', 0))}
                if sim.get('status', 'applied') != 'applied':
                    result['errors'] = _error('michelson_v1.script_rejected')
                if 'storage_diff' in sim:
                    result['paid_storage_size_diff'] = str(sim['storage_diff'])
                if sim.get('allocated'):
                    result['allocated_destination_contract'] = True
                if sim.get('originated'):
                    result['originated_contracts'] = ['KT1' + 'x' * 33]
                meta = {'balance_updates': [], 'operation_result': result}
                internal = []
                for j, isim in enumerate(sim.get('internal', [])):
                    ires = {'status': 'applied', 'consumed_milligas': str(isim.get('milligas', 0))}
                    if 'storage_diff' in isim:
                        ires['paid_storage_size_diff'] = str(isim['storage_diff'])
                    if isim.get('allocated'):
                        ires['allocated_destination_contract'] = True
                    internal.append({'kind': 'transaction', 'source': 'KT1' + 'y' * 33, 'nonce': j, 'amount': '0',
                                     'destination': c.get('source'), 'result': ires})
                if internal:
                    meta['internal_operation_results'] = internal
                out.append({**c, 'metadata': meta})
            return 200, {'contents': out, 'signature': op.get('signature')}

        def _inject(self, hex_payload):
            rec = {'hex': hex_payload, 'accepted': False, 'parsed': None, 'error': None,
                   'node_counter': None, 'node_pending': None}
            self.posted.append(rec)
            try:
                payload = bytes.fromhex(hex_payload)
                parsed = parse_signed_operation(payload)
            except (ParseError, ValueError, TypeError) as e:
                rec['error'] = f'parse: {e}'
                return 500, [{'kind': 'permanent', 'id': 'node.operation.parse_error'}]
            rec['parsed'] = parsed
            pkh = raw_to_pkh(parsed['contents'][0]['source_raw'])
            acc = self.accounts.get(pkh)
            counter = acc['counter'] if acc else 0
            pending = self.pending_count(pkh)
            rec['source'], rec['node_counter'], rec['node_pending'] = pkh, counter, pending
            if self.refuse_next_injection:
                self.refuse_next_injection = False
                rec['error'] = 'refused-by-scenario'
                return 500, [{'kind': 'temporary', 'id': 'node.prevalidation.operation_refused_by_scenario'}]
            if self.check_counter:
                for i, c in enumerate(parsed['contents']):
                    want = counter + pending + 1 + i
                    if c['counter'] != want:
                        eid = 'contract.counter_in_the_past' if c['counter'] < want else 'contract.counter_in_the_future'
                        rec['error'] = eid
                        return 500, _error(eid, kind='branch' if c['counter'] < want else 'temporary',
                                           contract=pkh, expected=str(want), found=str(c['counter']))
            if self.check_fee and not fee_accepted(parsed['fee'], parsed['size'], parsed['gas']):
                rec['error'] = 'fees_too_low'
                return 500, [{'kind': 'permanent', 'id': 'node.prevalidation.fees_too_low'}]
            h = op_hash(payload)
            where = 'applied'
            if self.unprocessed_toggle:
                where = 'unprocessed' if len(self.mempool) % 2 else 'applied'
            self.mempool.append({'hash': h, 'branch': b58check_encode(bytes([1, 52]) + parsed['branch']), 'where': where,
                                 'contents': [{'kind': c['kind'], 'source': pkh, 'fee': str(c['fee']), 'counter': str(c['counter']),
                                               'gas_limit': str(c['gas_limit']), 'storage_limit': str(c['storage_limit'])}
                                              for c in parsed['contents']]})
            rec['accepted'] = True
            return 200, h

    return StubNode(**kwargs)


def make_client(node, key):
    """real PyTezosClient wired to the stub through the real ShellQuery"""
    from pytezos.client import PyTezosClient
    from pytezos.context.impl import ExecutionContext
    from pytezos.rpc.shell import ShellQuery
    cli = PyTezosClient(context=ExecutionContext(shell=ShellQuery(node), key=key))
    return cli


_KEY_CACHE = {}


def test_key(curve: str, index: int = 0):
    """deterministic keys: curve in ed|sp|p2|BL"""
    from pytezos.crypto.key import Key
    k = (curve, index)
    if k not in _KEY_CACHE:
        seed = hashlib.sha256(f'stubnode-key-{curve}-{index}'.encode()).digest()
        if curve == 'BL':
            seed = (int.from_bytes(seed, 'little') % (2 ** 250) + 1).to_bytes(32, 'little')
        _KEY_CACHE[k] = Key.from_secret_exponent(seed, curve=curve.encode())
    return _KEY_CACHE[k]
