"""C08 — key import / export / address derivation / mnemonic validation.

Read from the source: the key and key-hash rows of `base58_encodings`; the constants of
`Key.from_encoded_key` (curve list, accepted lengths, KDF parameters, nonce, salt split), the curve -> tzN
dictionary and digest size of `public_key_hash`, `VALID_MNEMONIC_LENGTHS`; and, as fixed shapes compared
statement by statement (never interpreted), the bodies of `from_secret_exponent`, `from_encoded_key`,
`secret_key`, `public_key`, `validate_mnemonic`, `from_mnemonic` and HASH_KEY."""
import ast
import re

from translator.c07 import CURVES, b58_rows, body_of, curve_chain, key_method, lb, opt, rows_def
from translator.extract import find_assign, find_class, find_func, generator, lean_list, parse

KDF_RE = re.compile(r"hashlib\.pbkdf2_hmac\(hash_name='sha512', password=passphrase, salt=salt, iterations=(\d+), dklen=(\d+)\)")
NONCE_RE = re.compile(r"nonce=b'\\x00' \* (\d+)")


def bytes_list(node):
    if isinstance(node, (ast.List, ast.Tuple)) and all(isinstance(e, ast.Constant) and isinstance(e.value, bytes) for e in node.elts):
        return [e.value for e in node.elts]
    return None


def int_list(node):
    if isinstance(node, (ast.List, ast.Tuple)) and all(isinstance(e, ast.Constant) and isinstance(e.value, int) for e in node.elts):
        return [e.value for e in node.elts]
    return None


def gen_import(status, out):
    body = body_of(key_method('from_encoded_key'))
    texts = [ast.unparse(s) for s in body]
    # 12 statements: indices 0..11; the `if encrypted:` block is index 10
    texts_ok = False
    curves = lengths = kdf = nonce = salt = None
    if len(texts) == 12:
        enc = body[10]
        c = body[2]
        if isinstance(c, ast.If) and isinstance(c.test, ast.Compare) and len(c.test.ops) == 1 and isinstance(c.test.ops[0], ast.NotIn) \
                and ast.unparse(c.test.left) == 'curve' and ast.unparse(c.body[0]).startswith('raise ValueError('):
            curves = bytes_list(c.test.comparators[0])
        ln = body[3]
        if isinstance(ln, ast.If) and isinstance(ln.test, ast.UnaryOp) and isinstance(ln.test.op, ast.Not) \
                and isinstance(ln.test.operand, ast.Compare) and isinstance(ln.test.operand.ops[0], ast.In) \
                and ast.unparse(ln.test.operand.left) == 'len(encoded_key)' and ast.unparse(ln.body[0]).startswith('raise ValueError('):
            lengths = int_list(ln.test.operand.comparators[0])
        if isinstance(enc, ast.If) and ast.unparse(enc.test) == 'encrypted' and len(enc.body) == 5 and not enc.orelse:
            et = [ast.unparse(s) for s in enc.body]
            m = KDF_RE.fullmatch(et[2].removeprefix('encryption_key = '))
            n = NONCE_RE.search(et[3])
            sm = re.fullmatch(r'salt, encrypted_sk = \(encoded_key\[:(\d+)\], encoded_key\[(\d+):\]\)', et[1])
            if (m and n and sm and sm.group(1) == sm.group(2) and et[0] == 'passphrase = get_passphrase(passphrase)' and et[4] == 'del passphrase'
                    and et[3] == f"encoded_key = pysodium.crypto_secretbox_open(c=encrypted_sk, nonce=b'\\x00' * {n.group(1)}, k=encryption_key)"):
                kdf = (int(m.group(1)), int(m.group(2)))
                nonce = int(n.group(1))
                salt = int(sm.group(1))
        fixed = {0: 'encoded_key: bytes = scrub_input(key)', 1: 'curve = encoded_key[:2]',
                 4: "encrypted = encoded_key[2:3] == b'e'",
                 5: 'public_or_secret = encoded_key[3:5] if encrypted else encoded_key[2:4]',
                 6: "if public_or_secret not in [b'pk', b'sk']:\n    raise Exception('Invalid prefix for a key encoding.')",
                 7: 'encoded_key = base58_decode(encoded_key)', 8: "is_secret = public_or_secret == b'sk'",
                 9: 'if not is_secret:\n    return cls.from_public_point(encoded_key, curve)',
                 11: 'return cls.from_secret_exponent(encoded_key, curve)'}
        texts_ok = all(texts[i] == t for i, t in fixed.items())
    good = texts_ok and None not in (curves, lengths, kdf, nonce, salt)
    status['Key.from_encoded_key shape'] = (good, f'curves {[c.decode() for c in curves]}, lengths {lengths}, pbkdf2-sha512 {kdf}, nonce {nonce} zero bytes, salt {salt}'
                                            if good else 'unrecognised body')
    out.append('/-- `from_encoded_key`: accepted two-character curve tags (source order) -/')
    out.append('def importCurves : Option (List (List Nat)) := ' + opt(curves if good else None, lambda cs: lean_list(lb(c) for c in cs)))
    out.append('/-- `from_encoded_key`: accepted lengths of the encoded key -/')
    out.append('def importLengths : Option (List Nat) := ' + opt(lengths if good else None, lambda ls: lean_list(map(str, ls))))
    out.append('/-- PBKDF2-HMAC-SHA512 (iterations, dklen), secretbox nonce length (all zero bytes), salt length split off the payload -/')
    out.append('def importKdf : Option (Nat × Nat × Nat × Nat) := ' + opt((kdf + (nonce, salt)) if good else None, lambda t: ', '.join(map(str, t))))
    return good


def gen_export(status, out):
    body = body_of(key_method('secret_key'))
    texts = [ast.unparse(s) for s in body]
    kdf = nonce = salt = None
    ok = False
    if len(texts) == 4 and isinstance(body[2], ast.If) and ast.unparse(body[2].test) == 'passphrase':
        enc = [ast.unparse(s) for s in body[2].body]
        els = [ast.unparse(s) for s in body[2].orelse]
        if len(enc) == 8:
            m = KDF_RE.fullmatch(enc[4].removeprefix('encryption_key = '))
            n = NONCE_RE.search(enc[5])
            sm = re.fullmatch(r'salt = pysodium\.randombytes\((\d+)\)', enc[3])
            if m and n and sm:
                kdf, nonce, salt = (int(m.group(1)), int(m.group(2))), int(n.group(1)), int(sm.group(1))
                ok = (texts[0] == "if not self.secret_exponent:\n    raise ValueError('Secret key is undefined')"
                      and texts[1] == ("if self.curve == b'ed' and ed25519_seed:\n    key = pysodium.crypto_sign_sk_to_seed(self.secret_exponent)\n"
                                       "else:\n    key = self.secret_exponent")
                      and enc[0] == 'if not ed25519_seed:\n    raise NotImplementedError'
                      and enc[1] == 'if isinstance(passphrase, str):\n    passphrase = passphrase.encode()'
                      and enc[2].startswith('assert isinstance(passphrase, bytes)')
                      and enc[5] == f"encrypted_sk = pysodium.crypto_secretbox(msg=key, nonce=b'\\x00' * {nonce}, k=encryption_key)"
                      and enc[6] == 'key = salt + encrypted_sk' and enc[7] == "prefix = self.curve + b'esk'"
                      and els == ["prefix = self.curve + b'sk'"]
                      and texts[3] == 'return base58_encode(key, prefix).decode()')
    status['Key.secret_key shape'] = (ok, f'seed for ed25519, pbkdf2-sha512 {kdf}, nonce {nonce} zero bytes, random salt {salt}, salt ++ box' if ok else 'unrecognised body')
    out.append('/-- `secret_key`: (iterations, dklen, nonce length, salt length) of the encrypted export -/')
    out.append('def exportKdf : Option (Nat × Nat × Nat × Nat) := ' + opt((kdf + (nonce, salt)) if ok else None, lambda t: ', '.join(map(str, t))))
    return ok


def gen_pkh(status, out):
    body = body_of(key_method('public_key_hash'))
    texts = [ast.unparse(s) for s in body]
    table = size = None
    if len(body) == 3 and texts[2] == 'return base58_encode(pkh, prefix).decode()':
        m = re.fullmatch(r'pkh = blake2b\(self\.public_point, digest_size=(\d+)\)\.digest\(\)', texts[0])
        a = body[1]
        if m and isinstance(a, ast.Assign) and ast.unparse(a.targets[0]) == 'prefix' and isinstance(a.value, ast.Subscript) \
                and ast.unparse(a.value.slice) == 'self.curve' and isinstance(a.value.value, ast.Dict):
            d = a.value.value
            if all(isinstance(k, ast.Constant) and isinstance(k.value, bytes) and isinstance(v, ast.Constant) and isinstance(v.value, bytes)
                   for k, v in zip(d.keys, d.values)) and len({k.value for k in d.keys}) == len(d.keys):
                table = [(k.value, v.value) for k, v in zip(d.keys, d.values)]
                size = int(m.group(1))
    ok = table is not None
    status['Key.public_key_hash shape'] = (ok, f'blake2b digest_size={size}, ' + ', '.join(f'{k.decode()}->{v.decode()}' for k, v in table) if ok else 'unrecognised body')
    out.append('/-- `public_key_hash`: curve tag -> human prefix of the hash -/')
    out.append('def pkhPrefix : Option (List (List Nat × List Nat)) := ' + opt(table, lambda t: lean_list(f'({lb(k)}, {lb(v)})' for k, v in t)))
    out.append('/-- `public_key_hash`: Blake2b digest size -/')
    out.append('def pkhDigestSize : Option Nat := ' + opt(size, str))
    body = body_of(key_method('public_key'))
    ok2 = [ast.unparse(s) for s in body] == ["return base58_encode(self.public_point, self.curve + b'pk').decode()"]
    status['Key.public_key shape'] = (ok2, "base58_encode(public_point, curve + b'pk')" if ok2 else 'unrecognised body')
    out.append(f"/-- `public_key` is `base58_encode(self.public_point, self.curve + b'pk')` -/\ndef publicKeyRecognised : Bool := {str(ok2).lower()}")


FSE = {
    b'ed': ("if len(secret_exponent) == 64:\n    public_point = pysodium.crypto_sign_sk_to_pk(sk=secret_exponent)\nelse:\n"
            "    public_point, secret_exponent = pysodium.crypto_sign_seed_keypair(seed=secret_exponent)",),
    b'sp': ("sk = coincurve.PrivateKey(secret_exponent)", "public_point = sk.public_key.format()"),
    b'p2': ("pk = fastecdsa.keys.get_public_key(bytes_to_int(secret_exponent), curve=fastecdsa.curve.P256)",
            "public_point = fastecdsa.encoding.sec1.SEC1Encoder.encode_public_key(pk)"),
    b'BL': ("sk_int = int.from_bytes(secret_exponent, byteorder='little')", "public_point = G2.SkToPk(sk_int)"),
}
FM = {
    b'ed': ("_, secret_exponent = pysodium.crypto_sign_seed_keypair(seed=seed[:32])",),
    b'sp': ("secret_exponent = seed[:32]",), b'p2': ("secret_exponent = seed[:32]",), b'BL': ("secret_exponent = seed[:32]",),
}


def gen_derive(status, out):
    body = body_of(key_method('from_secret_exponent'))
    ok = False
    if len(body) == 2 and ast.unparse(body[1]) == 'return cls(public_point, secret_exponent, curve=curve, activation_code=activation_code)':
        chain = curve_chain(body[0])
        ok = chain is not None and [c for c, _ in chain] == CURVES and all(tuple(s) == FSE[c] for c, s in chain)
    status['Key.from_secret_exponent shape'] = (ok, 'ed: 64-byte key | seed keypair; sp, p2, BL: public point of the exponent' if ok else 'unrecognised body')
    out.append(f'/-- `from_secret_exponent` is the known four-curve dispatch -/\ndef fromSecretExponentRecognised : Bool := {str(ok).lower()}')

    body = body_of(key_method('from_mnemonic'))
    texts = [ast.unparse(s) for s in body]
    ok = False
    if len(body) == 5:
        chain = curve_chain(body[3])
        ok = (texts[0] == "if isinstance(mnemonic, list):\n    mnemonic = ' '.join(mnemonic)"
              and texts[1] == 'if validate:\n    validate_mnemonic(mnemonic, language=language)'
              and texts[2] == 'seed = Mnemonic.to_seed(mnemonic, passphrase=email + passphrase)'
              and chain is not None and [c for c, _ in chain] == CURVES and all(tuple(s) == FM[c] for c, s in chain)
              and texts[4] == 'return cls.from_secret_exponent(secret_exponent, curve=curve, activation_code=activation_code)')
    status['Key.from_mnemonic shape'] = (ok, 'validate, Mnemonic.to_seed(mnemonic, email + passphrase), first 32 bytes' if ok else 'unrecognised body')
    out.append(f'/-- `from_mnemonic` is: optional validation, `Mnemonic.to_seed(mnemonic, email + passphrase)[:32]`, `from_secret_exponent` -/\ndef fromMnemonicRecognised : Bool := {str(ok).lower()}')


VALIDATE = [
    'm = Mnemonic(language)',
    "mnemonic_words = m.normalize_string(mnemonic).split(' ')",
    None,
    "idx = map(lambda x: bin(m.wordlist.index(x))[2:].zfill(11), mnemonic_words)",
    "b = ''.join(idx)",
    'l = len(b)',
    'd = b[:l // 33 * 32]',
    'h = b[-l // 33:]',
    "nd = binascii.unhexlify(hex(int(d, 2))[2:].rstrip('L').zfill(l // 33 * 8))",
    "nh = bin(int(hashlib.sha256(nd).hexdigest(), 16))[2:].zfill(256)[:l // 33]",
    "if h != nh:\n    raise ValueError('Mnemonic checksum verification failed')",
]


def gen_mnemonic(status, out):
    tree = parse('crypto/key.py')
    lens = int_list(find_assign(tree, 'VALID_MNEMONIC_LENGTHS'))
    fn = find_func(tree, 'validate_mnemonic')
    body = body_of(fn) if fn is not None else []
    texts = [ast.unparse(s) for s in body]
    ok = len(texts) == len(VALIDATE) and all(w is None or w == t for w, t in zip(VALIDATE, texts))
    if ok:
        c = body[2]
        ok = (isinstance(c, ast.If) and ast.unparse(c.test) == 'len(mnemonic_words) not in VALID_MNEMONIC_LENGTHS'
              and len(c.body) == 1 and ast.unparse(c.body[0]).startswith('raise ValueError(') and not c.orelse)
    ok = ok and lens is not None
    status['validate_mnemonic shape'] = (ok, f'lengths {lens}; 11-bit indices, l//33*32 data bits, sha256 of the zero-padded bytes, first l//33 bits' if ok else 'unrecognised body')
    out.append('/-- `VALID_MNEMONIC_LENGTHS` -/')
    out.append('def mnemonicLengths : Option (List Nat) := ' + opt(lens if ok else None, lambda ls: lean_list(map(str, ls))))
    out.append(f'/-- `validate_mnemonic` is the known bit-string / zfill / unhexlify routine -/\ndef validateMnemonicRecognised : Bool := {str(bool(ok)).lower()}')


def gen_hash_key(status, out):
    ins = parse('michelson/instructions/crypto.py')
    fn = find_func(find_class(ins, 'HashKeyInstruction'), 'execute')
    texts = [ast.unparse(s) for s in fn.body] if fn is not None else []
    want = ['a = cast(KeyType, stack.pop1())', 'a.assert_type_equal(KeyType)', 'key = Key.from_encoded_key(str(a))',
            'res = KeyHashType.from_value(key.public_key_hash())', 'stack.push(res)',
            'stdout.append(format_stdout(cls.prim, [a], [res]))', 'return cls(stack_items_added=1)']
    ok = texts == want
    status['HASH_KEY shape'] = (ok, 'Key.from_encoded_key(str(a)).public_key_hash()' if ok else 'unrecognised body')
    out.append(f'/-- HASH_KEY is `Key.from_encoded_key(str(a)).public_key_hash()` -/\ndef hashKeyRecognised : Bool := {str(ok).lower()}')


KEY_PREFIX = re.compile(rb'(ed|sp|p2|BL)e?(sk|pk)')


@generator('C08')
def gen(status):
    out = []
    rows = b58_rows()
    status['base58_encodings literal'] = (rows is not None, f'{len(rows)} rows' if rows else 'not a literal list of 5-tuples')
    rows = rows or []
    out.append(rows_def('keyRows', [r for r in rows if KEY_PREFIX.fullmatch(r[0])],
                        'key kinds of `base58_encodings` (human prefix `xx[e](sk|pk)`): (human prefix, encoded length, binary prefix, payload length)'))
    out.append(rows_def('pkhRows', [r for r in rows if re.fullmatch(rb'tz\d', r[0])], 'public key hash kinds (`tzN`)'))
    gen_import(status, out)
    gen_export(status, out)
    gen_pkh(status, out)
    gen_derive(status, out)
    gen_mnemonic(status, out)
    gen_hash_key(status, out)
    return '\n'.join(out) + '\n'
