"""C14 — the set / map code: `SetType.contains/add/remove/from_items/check_constraints`, `MapType.get/contains/update/
from_items/check_constraints` (types/set.py, types/map.py), how UPDATE / GET / GET_AND_UPDATE / MEM (instructions/struct.py)
call them, and what MAP / ITER (instructions/control.py) do with a map: the key that is paired with the new value, the
`from_items` call, the iteration order.

Each method body is normalised (`ast.unparse`, spaces removed, docstrings / stdout lines dropped) and matched against the
shape the Lean mirror (`Impl.Coll`) was written from; an unrecognised body gives `none` + a failed status.  The defective
pinned shape of MAP (`elt[0]`, which flattens a pair key) is recognised and named."""
import ast

from translator.extract import find_class, find_func, generator, parse, strip_docstring


def _n(node):
    return ast.unparse(node).replace(' ', '').replace('"', "'")


def _is_stdout(s):
    return isinstance(s, ast.Expr) and isinstance(s.value, ast.Call) and _n(s.value.func) == 'stdout.append'


def _body(fn):
    return ';'.join(_n(s) for s in strip_docstring(fn.body) if not _is_stdout(s))


def _src(body):
    """expected shape given as Python source of a function body -> the same normal form as `_norm_body`"""
    import textwrap
    fn = ast.parse('def f():\n' + textwrap.indent(textwrap.dedent(body).strip('\n'), '    ')).body[0]
    return ';'.join(_n(s) for s in fn.body)


SHAPES = {
    'SetType.contains': {
        "self.args[0].assert_type_equal(type(item));returniteminself.items": 'itemInItems',
    },
    'SetType.add': {
        "ifself.contains(item):\nreturncopy(self)\nelse:\nitems=[item]+self.items\nreturntype(self)(sorted(items))": 'sortedPrepend',
    },
    'SetType.remove': {
        "ifself.contains(item):\nitems=list(filter(lambdax:x!=item,self.items))\nreturntype(self)(items)\nelse:\nreturncopy(self)": 'filterNe',
    },
    'SetType.check_constraints': {
        "assertlen(set(items))==len(items),f'duplicateelementsfound';assertitems==sorted(items),f'setelementsarenotsorted'": 'dupThenSorted',
    },
    'SetType.from_micheline_value': {
        "assertisinstance(val_expr,list),f'expectedlist,got{type(val_expr).__name__}';items=list(map(cls.args[0].from_micheline_value,val_expr));"
        "cls.check_constraints(items);returncls(items)": 'checkThenKeep',
    },
    'MapType.get': {_src('''
        self.args[0].assert_type_equal(type(key))
        if dup:
            assert self.args[1].is_duplicable(), f'use GET_AND_UPDATE instead'
        return next((v for k, v in self.items if k == key), None)
'''): 'firstKeyEq'},
    'MapType.contains': {
        "returnself.get(key,dup=False)isnotNone": 'getIsNotNone',
    },
    'MapType.update': {_src('''
        prev_val = self.get(key, dup=False)
        if prev_val is not None:
            if val is not None:
                items = [(k, v if k != key else val) for k, v in self.items]
            else:  # remove
                items = [(k, v) for k, v in self.items if k != key]
        else:
            if val is not None:
                items = sorted(self.items + [(key, val)], key=lambda x: x[0])
            else:  # do nothing
                items = self.items
        return prev_val, type(self)(items)
'''): 'replaceFilterSortedAppend'},
    'MapType.check_constraints': {
        "keys=list(map(lambdax:x[0],items));assertlen(set(keys))==len(keys),f'duplicatekeysfound';"
        "assertkeys==sorted(keys),f'keysareunsorted'": 'dupThenSorted',
    },
    'MapType.parse_micheline_value': None,     # filled below (shape check is partial: ends with check_constraints(items); return items)
    'MapType.from_items': {_src('''
        assert len(items) > 0, 'cannot instantiate from empty list'
        key_type, val_type = items[0][0].get_anon_type(), items[0][1].get_anon_type()
        for key, val in items[1:]:
            key_type.assert_type_equal(type(key))
            val_type.assert_type_equal(type(val))
        cls = MapType.create_type(args=[key_type, val_type])
        cls.check_constraints(items)  # type: ignore
        return cls(items=items)  # type: ignore
'''): 'typeCheckThenConstraints'},
    'UPDATE': {_src('''
        key, val, src = cast(
            Tuple[
                MichelsonType,
                Union[OptionType, BoolType],
                Union[MapType, BigMapType, SetType],
            ],
            stack.pop3(),
        )
        val.assert_type_in(OptionType, BoolType)
        if isinstance(val, BoolType):
            src.assert_type_in(SetType)
            dst = src.add(key) if bool(val) else src.remove(key)  # type: ignore
        else:
            src.assert_type_in(MapType, BigMapType)
            _, dst = src.update(key, None if val.is_none() else val.get_some())  # type: ignore
        stack.push(dst)
        return cls(stack_items_added=1)
'''): 'addRemoveOrUpdate'},
    'GET_AND_UPDATE': {_src('''
        key, val, src = cast(Tuple[MichelsonType, OptionType, Union[MapType, BigMapType]], stack.pop3())
        src.assert_type_in(MapType, BigMapType)
        prev_val, dst = src.update(key, None if val.is_none() else val.get_some())
        res = OptionType.none(src.args[1]) if prev_val is None else OptionType.from_some(prev_val)
        stack.push(dst)
        stack.push(res)
        return cls(stack_items_added=2)
'''): 'updateThenPrev'},
    'GET': {_src('''
        key, src = cast(Tuple[MichelsonType, Union[MapType, BigMapType]], stack.pop2())
        src.assert_type_in(MapType, BigMapType)
        val = src.get(key, dup=True)
        if val is None:
            res = OptionType.none(src.args[1])
        else:
            res = OptionType.from_some(val)
        stack.push(res)
        return cls(stack_items_added=1)
'''): 'getToOption'},
    'MEM': {_src('''
        key, src = cast(Tuple[MichelsonType, Union[SetType, MapType, BigMapType]], stack.pop2())
        src.assert_type_in(MapType, BigMapType, SetType)
        res = BoolType.from_value(src.contains(key))
        stack.push(res)
        return cls(stack_items_added=1)
'''): 'contains'},
    'SIZE': {
        "src=cast(Union[StringType,BytesType,ListType,SetType,MapType],stack.pop1());src.assert_type_in(StringType,BytesType,ListType,SetType,MapType);"
        "res=NatType.from_value(len(src));stack.push(res);returncls(stack_items_added=1)": 'len',
    },
}

MAP_BODY = ("stack_items_added=0;src=cast(Union[ListType,MapType],stack.pop1());executions=[];items=[];popped=[src];"
            "foreltinsrc:\nifisinstance(src,MapType):\nelt=PairType.from_comb(list(elt))\nstack.push(elt)\nstack_items_added+=1\n"
            "execution=cls.args[0].execute(stack,stdout,context=context)\nexecutions.append(execution)\nnew_elt=stack.pop1()\n"
            "ifisinstance(src,MapType):\nitems.append((%s,new_elt))\nelse:\nitems.append(new_elt)\npopped=[new_elt];"
            "ifitems:\nres=type(src).from_items(items)\nelse:\nres=src;stack.push(res);stack_items_added+=1;returncls(stack_items_added,executions)")
SHAPES['MAP'] = {MAP_BODY % 'elt.items[0]': 'keepsKey', MAP_BODY % 'elt[0]': 'flattensPairKey'}
SHAPES['ITER'] = {
    "stack_items_added=0;src=cast(Union[ListType,MapType,SetType],stack.pop1());executions=[];popped=[src];foreltinsrc:\n"
    "ifisinstance(src,MapType):\nelt=PairType.from_comb(list(elt))\nstack_items_added+=1\nstack.push(elt)\n"
    "execution=cls.args[0].execute(stack,stdout,context=context)\nexecutions.append(execution)\npopped=[];"
    "returncls(stack_items_added,executions)": 'inItemsOrder',
}
SHAPES['__iter__'] = {"yieldfromiter(self.items)": 'itemsOrder'}
SHAPES['__len__'] = {"returnlen(self.items)": 'lenItems'}


def _strip_for_stdout(fn):
    """drop stdout.append(...) lines also inside loops"""
    class T(ast.NodeTransformer):
        def visit_Expr(self, node):
            return None if _is_stdout(node) else node
    return T().visit(ast.parse(ast.unparse(fn))).body[0]


def _norm_body(fn):
    fn = _strip_for_stdout(fn)
    return ';'.join(_n(s) for s in strip_docstring(fn.body))


@generator('C14')
def gen_c14(status):
    set_cls = find_class(parse('michelson/types/set.py'), 'SetType')
    map_cls = find_class(parse('michelson/types/map.py'), 'MapType')
    struct = parse('michelson/instructions/struct.py')
    control = parse('michelson/instructions/control.py')
    generic = parse('michelson/instructions/generic.py')

    found = {}

    def shape(label, key, fn, lean):
        text = _norm_body(fn) if fn is not None else '<missing>'
        name = SHAPES[key].get(text)
        status[label] = (name is not None, name or ('unrecognised: ' + text[:400]))
        found[lean] = name

    def own(cls, name):
        for s in cls.body:
            if isinstance(s, ast.FunctionDef) and s.name == name:
                return s
        return None

    shape('SetType.contains', 'SetType.contains', own(set_cls, 'contains'), 'setContains')
    shape('SetType.add', 'SetType.add', own(set_cls, 'add'), 'setAdd')
    shape('SetType.remove', 'SetType.remove', own(set_cls, 'remove'), 'setRemove')
    shape('SetType.check_constraints', 'SetType.check_constraints', own(set_cls, 'check_constraints'), 'setCheck')
    shape('SetType.from_micheline_value', 'SetType.from_micheline_value', own(set_cls, 'from_micheline_value'), 'setLiteral')
    shape('SetType.__iter__', '__iter__', own(set_cls, '__iter__'), 'setIter')
    shape('SetType.__len__', '__len__', own(set_cls, '__len__'), 'setLen')
    shape('MapType.get', 'MapType.get', own(map_cls, 'get'), 'mapGet')
    shape('MapType.contains', 'MapType.contains', own(map_cls, 'contains'), 'mapContains')
    shape('MapType.update', 'MapType.update', own(map_cls, 'update'), 'mapUpdate')
    shape('MapType.check_constraints', 'MapType.check_constraints', own(map_cls, 'check_constraints'), 'mapCheck')
    shape('MapType.from_items', 'MapType.from_items', own(map_cls, 'from_items'), 'mapFromItems')
    shape('MapType.__iter__', '__iter__', own(map_cls, '__iter__'), 'mapIter')
    shape('MapType.__len__', '__len__', own(map_cls, '__len__'), 'mapLen')
    # parse_micheline_value: the literal path must end with check_constraints(items); return items
    pmv = own(map_cls, 'parse_micheline_value')
    tail = [_n(s) for s in pmv.body[-2:]] if pmv is not None else []
    ok = tail == ['cls.check_constraints(items)', 'returnitems'] and _norm_body(own(map_cls, 'from_micheline_value')) == 'returncls(cls.parse_micheline_value(val_expr))'
    status['MapType literal path'] = (ok, 'checkThenKeep' if ok else 'unrecognised: ' + ';'.join(tail))
    found['mapLiteral'] = 'checkThenKeep' if ok else None

    def instr(tree, cls_name):
        c = find_class(tree, cls_name)
        return None if c is None else find_func(c, 'execute')

    shape('UPDATE', 'UPDATE', instr(struct, 'UpdateInstruction'), 'instrUpdate')
    shape('GET_AND_UPDATE', 'GET_AND_UPDATE', instr(struct, 'GetAndUpdateInstruction'), 'instrGetAndUpdate')
    shape('GET', 'GET', instr(struct, 'GetInstruction'), 'instrGet')
    shape('MEM', 'MEM', instr(struct, 'MemInstruction'), 'instrMem')
    shape('SIZE', 'SIZE', instr(generic, 'SizeInstruction'), 'instrSize')
    shape('MAP', 'MAP', instr(control, 'MapInstruction'), 'instrMap')
    shape('ITER', 'ITER', instr(control, 'IterInstruction'), 'instrIter')

    names = sorted({n for d in SHAPES.values() if d for n in d.values()} | {'checkThenKeep'})
    out = ['/-- names of the recognised code shapes -/\ninductive Shape\n' + ''.join(f'  | {n}\n' for n in names) + '  deriving DecidableEq, Repr\n']
    for lean, name in found.items():
        out.append(f'def {lean} : Option Shape := {"none" if name is None else "some ." + name}\n')
    return '\n'.join(out)
