"""C22 — a failing REPL cell leaves the session as if it never ran (src/pytezos/michelson/repl.py,
michelson/types/big_map.py, context/impl.py, michelson/instructions/jupyter.py, michelson/stack.py).

Extracted (nothing is guessed; an unrecognised body gives `none` and a failed status line):
  * snapshot          how `Interpreter.execute` takes its backup: `separateMemos` (two independent `deepcopy` calls —
                      the pinned shape) or `sharedMemoContextFirst` (one `memo`, the context copied before the stack),
                      and that the handler restores both the stack and `self.context` for
                      (MichelsonParserError, MichelsonRuntimeError)
  * restore           how the handler puts the stack back: `replaceStack` (`self.stack = stack_backup`: the live
                      `MichelsonStack` object, with whatever `protected` prefix it had when the cell raised, is dropped)
                      or `itemsOnly` (`self.stack.items = stack_backup.items`: the live object and its `protected`
                      counter stay)
  * deepcopyContext   what `BigMapType.__deepcopy__` does with `context`: `keep` (returns `self.duplicate()`, the
                      pinned shape) or `memoLookup` (`memodict.get(id(self.context), self.context)`)
  * duplicateKeeps    `BigMapType.duplicate` copies items / removed keys and keeps `ptr` and `context`
  * contextCopy       `ExecutionContext` defines no `__deepcopy__` / `__reduce__` (a deep copy is a fresh object with
                      copied fields) and `__copy__` raises
  * stackShape / instrShape   `MichelsonStack` (`__init__`, protect, restore, push, peek, pop, clear), the cell
                      alphabet's instructions (BEGIN, COMMIT, RUN, DROP_ALL, BIG_MAP_DIFF, PATCH, EMPTY_BIG_MAP, DUP, DUP n,
                      DROP n, DIG, DUG, DIP, DIP n, `execute_dip`, AMOUNT, BALANCE, NOW, SENDER, SOURCE, the storage /
                      parameter / code sections) and the context getters they call have the transcribed bodies
The big_map facts of C15 (`Generated/C15.lean`) are regenerated as well: the session model executes UPDATE / GET
through the same mirror."""
import ast

from translator import extract
from translator.c15 import _same, canon, norm
from translator.extract import find_class, find_func, generator, parse

EXECUTE_FRAME = '''
def execute(self, code):
    result = InterpreterResult(stdout=[])
    %s
    try:
        code_section = CodeSection.match(michelson_to_micheline(code))
        instructions = code_section.args[0].execute(self.stack, result.stdout, self.context)
        result.instructions = MichelineSequence([instructions])
        result.stack = self.stack
    except (MichelsonParserError, MichelsonRuntimeError) as e:
        if self.context.debug:
            raise
        %s
        self.context = context_backup
        result.stdout.append(e.format_stdout())
        result.error = e
    return result
'''
SNAP_SEPARATE = '''stack_backup = deepcopy(self.stack)
    context_backup = deepcopy(self.context)'''
SNAP_SHARED = '''memo = {}
    context_backup = deepcopy(self.context, memo)
    stack_backup = deepcopy(self.stack, memo)'''

RESTORE_REPLACE = 'self.stack = stack_backup'
RESTORE_ITEMS = 'self.stack.items = stack_backup.items'

DEEPCOPY_KEEP = '''
def __deepcopy__(self, memodict):
    return self.duplicate()
'''
DEEPCOPY_MEMO = '''
def __deepcopy__(self, memodict):
    res = self.duplicate()
    res.context = memodict.get(id(self.context), self.context)
    return res
'''
DUPLICATE = '''
def duplicate(self):
    res = type(self)(items=deepcopy(self.items), ptr=self.ptr, removed_keys=deepcopy(self.removed_keys))
    res.context = self.context
    return res
'''
CTX_COPY = '''
def __copy__(self):
    raise ValueError("It's not allowed to copy context")
'''

STACK = {
    '__init__': 'def __init__(self, items=None):\n    self.items = items or []\n    self.protected = 0',
    'protect': "def protect(self, count):\n    if len(self.items) < count:\n        raise Exception(f'got {len(self.items)} items on the stack, want to protect {count}')\n    self.protected += count",
    'restore': "def restore(self, count):\n    if self.protected < count:\n        raise Exception(f'want to restore {count} items, but only {self.protected} are protected')\n    self.protected -= count",
    'push': 'def push(self, item):\n    self.items.insert(self.protected, item)',
    'peek': "def peek(self):\n    if not self.items:\n        raise Exception('stack is empty')\n    return self.items[self.protected]",
    'pop': "def pop(self, count):\n    if len(self.items) - self.protected < count:\n        raise Exception(f'got {len(self.items) - self.protected} items on the stack, want to pop {count}')\n    return [self.items.pop(self.protected) for _ in range(count)]",
    'clear': 'def clear(self):\n    self.items.clear()\n    self.protected = 0',
}

INSTR = {
    ('instructions/jupyter.py', 'DropAllInstruction'): '''
def execute(cls, stack, stdout, context):
    stack.items = []
    return cls()
''',
    ('instructions/jupyter.py', 'BeginInstruction'): '''
def execute(cls, stack, stdout, context):
    parameter_literal, storage_literal = cls.args
    parameter_type_expr = context.get_parameter_expr()
    storage_type_expr = context.get_storage_expr()
    if parameter_type_expr is None:
        raise Exception('parameter type is not initialized')
    if storage_type_expr is None:
        raise Exception('storage type is not initialized')
    parameter_type = ParameterSection.match(parameter_type_expr)
    storage_type = StorageSection.match(storage_type_expr)
    parameter = parameter_type.from_micheline_value(parameter_literal.as_micheline_expr())
    storage = storage_type.from_micheline_value(storage_literal.as_micheline_expr())
    parameter.attach_context(context)
    storage.attach_context(context)
    res = PairType.from_comb([parameter.item, storage.item])
    stack.items = []
    stack.push(res)
    stdout.append(format_stdout(f'BEGIN %default', [], [res]))
    return cls(stack_items_added=1)
''',
    ('instructions/jupyter.py', 'CommitInstruction'): '''
def execute(cls, stack, stdout, context):
    debug, context.debug = (context.debug, False)
    res = cast(PairType, stack.pop1())
    if len(stack):
        raise Exception(f'Stack is not empty: {stack}')
    operations = ListType(items=list(res.items[0]))
    lazy_diff = []
    storage = res.items[1].aggregate_lazy_diff(lazy_diff)
    stdout.append(format_stdout(f'END %default', [res], []))
    result = PairType.from_comb([operations, storage])
    context.debug = debug
    return cls(lazy_diff=lazy_diff, result=result)
''',
    ('instructions/jupyter.py', 'RunInstruction'): '''
def execute(cls, stack, stdout, context):
    from pytezos.michelson.program import MichelsonProgram
    stack.clear()
    entrypoint, parameter_literal, storage_literal = cls.args
    entrypoint_str = entrypoint.get_string()
    parameter = parameter_literal.as_micheline_expr()
    storage = storage_literal.as_micheline_expr()
    program = MichelsonProgram.load(context, with_code=True).instantiate(entrypoint_str, parameter, storage)
    program.begin(stack, stdout, context)
    program.execute(stack, stdout, context)
    operations, storage, lazy_diff, res = program.end(stack, stdout)
    return cls(lazy_diff=lazy_diff, result=res)
''',
    ('instructions/jupyter.py', 'BigMapDiffInstruction'): '''
def execute(cls, stack, stdout, context):
    lazy_diff = []
    with suppress(AssertionError):
        stack.peek().aggregate_lazy_diff(lazy_diff)
    stdout.append(f'BIG_MAP_DIFF')
    return cls(lazy_diff=lazy_diff, stack_items_added=1)
''',
    ('instructions/struct.py', 'EmptyBigMapInstruction'): '''
def execute(cls, stack, stdout, context):
    res = BigMapType.empty(key_type=cls.args[0], val_type=cls.args[1])
    res.attach_context(context)
    stack.push(res)
    stdout.append(format_stdout(cls.prim, [], [res]))
    return cls(stack_items_added=1)
''',
    ('instructions/stack.py', 'DupInstruction'): '''
def execute(cls, stack, stdout, context):
    res = stack.peek().duplicate()
    stack.push(res)
    stdout.append(format_stdout(cls.prim, [res], [res, res]))
    return cls(stack_items_added=1)
''',
    ('instructions/stack.py', 'DupnInstruction'): '''
def execute(cls, stack, stdout, context):
    depth = cls.args[0].get_int() - 1
    stack.protect(count=depth)
    top = stack.peek()
    res = top.duplicate()
    stack.restore(count=depth)
    stack.push(res)
    stdout.append(format_stdout(cls.prim, [*Wildcard.n(depth), res], [res, *Wildcard.n(depth), res], depth))
    return cls(stack_items_added=1)
''',
    ('instructions/stack.py', 'DropnInstruction'): '''
def execute(cls, stack, stdout, context):
    count = cls.args[0].get_int()
    dropped = stack.pop(count=count)
    stdout.append(format_stdout(cls.prim, dropped, [], count))
    return cls()
''',
    ('instructions/stack.py', 'DigInstruction'): '''
def execute(cls, stack, stdout, context):
    depth = cls.args[0].get_int()
    stack.protect(count=depth)
    res = stack.pop1()
    stack.restore(count=depth)
    stack.push(res)
    stdout.append(format_stdout(cls.prim, [*Wildcard.n(depth), res], [res, *Wildcard.n(depth)], depth))
    return cls(stack_items_added=1)
''',
    ('instructions/stack.py', 'DugInstruction'): '''
def execute(cls, stack, stdout, context):
    depth = cls.args[0].get_int()
    res = stack.pop1()
    stack.protect(count=depth)
    stack.push(res)
    stack.restore(count=depth)
    stdout.append(format_stdout(cls.prim, [res, *Wildcard.n(depth)], [*Wildcard.n(depth), res], depth))
    return cls(stack_items_added=1)
''',
    ('instructions/control.py', 'DipInstruction'): '''
def execute(cls, stack, stdout, context):
    item = execute_dip(cls.prim, stack, stdout, count=1, body=cls.args[0], context=context)
    return cls(item)
''',
    ('instructions/control.py', 'DipnInstruction'): '''
def execute(cls, stack, stdout, context):
    depth = cls.args[0].get_int()
    item = execute_dip(cls.prim, stack, stdout, count=depth, body=cls.args[1], context=context)
    return cls(item)
''',
    ('instructions/jupyter.py', 'PatchInstruction'): '''
def execute(cls, stack, stdout, context):
    res_type = cls.args[0]
    if res_type.prim == 'AMOUNT':
        context.amount = None
    elif res_type.prim == 'BALANCE':
        context.balance = None
    elif res_type.prim == 'CHAIN_ID':
        context.chain_id = None
    elif res_type.prim == 'SENDER':
        context.sender = None
    elif res_type.prim == 'SOURCE':
        context.source = None
    elif res_type.prim == 'NOW':
        context.now = None
    else:
        raise ValueError(f'Expected one of {cls.allowed_primitives}, got {res_type.prim}')
    return cls()
''',
    ('instructions/jupyter.py', 'PatchValueInstruction'): '''
def execute(cls, stack, stdout, context):
    res_type, literal = cls.args
    if res_type.prim == 'AMOUNT':
        context.amount = literal.get_int()
    elif res_type.prim == 'BALANCE':
        context.balance = literal.get_int()
    elif res_type.prim == 'CHAIN_ID':
        context.chain_id = literal.get_string()
    elif res_type.prim == 'SENDER':
        context.sender = literal.get_string()
    elif res_type.prim == 'SOURCE':
        context.source = literal.get_string()
    elif res_type.prim == 'NOW':
        try:
            context.now = literal.get_int()
        except (TypeError, MichelsonRuntimeError):
            context.now = int(strict_rfc3339.rfc3339_to_timestamp(literal.get_string()))
    else:
        raise ValueError(f'Expected one of {cls.allowed_primitives}, got {res_type.prim}')
    return cls()
''',
    ('instructions/tezos.py', 'AmountInstruction'): '''
def execute(cls, stack, stdout, context):
    amount = context.get_amount()
    res = MutezType.from_value(amount)
    stack.push(res)
    stdout.append(format_stdout(cls.prim, [], [res]))
    return cls(stack_items_added=1)
''',
    ('instructions/tezos.py', 'BalanceInstruction'): '''
def execute(cls, stack, stdout, context):
    balance = context.get_balance()
    res = MutezType.from_value(balance)
    stack.push(res)
    stdout.append(format_stdout(cls.prim, [], [res]))
    return cls(stack_items_added=1)
''',
    ('instructions/tezos.py', 'NowInstruction'): '''
def execute(cls, stack, stdout, context):
    now = context.get_now()
    res = TimestampType.from_value(now)
    stack.push(res)
    stdout.append(format_stdout(cls.prim, [], [res]))
    return cls(stack_items_added=1)
''',
    ('instructions/tezos.py', 'SenderInstruction'): '''
def execute(cls, stack, stdout, context):
    sender = context.get_sender()
    res = AddressType.from_value(sender)
    stack.push(res)
    stdout.append(format_stdout(cls.prim, [], [res]))
    return cls(stack_items_added=1)
''',
    ('instructions/tezos.py', 'SourceInstruction'): '''
def execute(cls, stack, stdout, context):
    source = context.get_source()
    res = AddressType.from_value(source)
    stack.push(res)
    stdout.append(format_stdout(cls.prim, [], [res]))
    return cls(stack_items_added=1)
''',
    ('sections/storage.py', 'StorageSection'): '''
def execute(cls, stack, stdout, context):
    context.set_storage_expr(cls.as_micheline_expr())
    stdout.append('storage: updated')
''',
    ('sections/parameter.py', 'ParameterSection'): '''
def execute(cls, stack, stdout, context):
    context.set_parameter_expr(cls.as_micheline_expr())
    stdout.append(f'parameter: updated')
''',
    ('sections/code.py', 'CodeSection'): '''
def execute(cls, stack, stdout, context):
    context.set_code_expr(cls.as_micheline_expr())
    stdout.append(f'code: updated')
''',
}


EXECUTE_DIP = '''
def execute_dip(prim, stack, stdout, count, body, context):
    stdout.append(format_stdout(prim, [*Wildcard.n(count)], []))
    stack.protect(count=count)
    item = body.execute(stack, stdout, context=context)
    stack.restore(count=count)
    stdout.append(format_stdout(prim, [], [*Wildcard.n(count)], count))
    return item
'''

# the getters behind AMOUNT / BALANCE / NOW / SENDER / SOURCE (context/impl.py, `ExecutionContext`)
CTX_GETTERS = {
    'get_amount': 'def get_amount(self):\n    return self.amount or 0',
    'get_sender': 'def get_sender(self):\n    return self.sender or self.get_dummy_key_hash()',
    'get_source': 'def get_source(self):\n    return self.source or self.get_dummy_key_hash()',
    'get_now': '''
def get_now(self):
    if self.now is not None:
        return self.now
    elif self.shell:
        ts = self.shell.head.header()['timestamp']
        dt = datetime.strptime(ts, '%Y-%m-%dT%H:%M:%SZ')
        first_delay = self.shell.head.context.constants().get('minimal_block_delay', 0)
        return int((dt - datetime(1970, 1, 1)).total_seconds()) + int(first_delay)
    else:
        return 0
''',
    'get_balance': '''
def get_balance(self):
    if self.balance is not None:
        balance = self.balance
    elif self.shell:
        contract = self.shell.contracts[self.get_self_address()]()
        balance = int(contract['balance'])
    else:
        balance = 0
    return balance + self.balance_update
''',
    'get_dummy_key_hash': '''
def get_dummy_key_hash(self):
    if self.key:
        return self.key.public_key_hash()
    else:
        return base58_encode(b'\\x00' * 20, b'tz1').decode()
''',
}


# equivalent spellings (asserts are stripped before comparison): DUP that checks `is_duplicable()` on the peeked value
# itself (fixes/C20-4) — every value of this fragment is duplicable, `duplicate()` is reached the same way
INSTR_ALT = {
    'DupInstruction': ['''
def execute(cls, stack, stdout, context):
    top = stack.peek()
    res = top.duplicate()
    stack.push(res)
    stdout.append(format_stdout(cls.prim, [res], [res, res]))
    return cls(stack_items_added=1)
'''],
}


def classify_execute(fn):
    if fn is None:
        return None
    got = norm(fn)
    for snap, name in ((SNAP_SEPARATE, 'separateMemos'), (SNAP_SHARED, 'sharedMemoContextFirst')):
        for rest, rname in ((RESTORE_REPLACE, 'replaceStack'), (RESTORE_ITEMS, 'itemsOnly')):
            if got == canon(EXECUTE_FRAME % (snap, rest)):
                return name, rname
    return None


@generator('C22')
def gen_c22(status):
    out = []
    for name, v in extract.generate('C15').items():        # the session model runs UPDATE / GET through the C15 mirror
        status[f'C15 {name}'] = v

    rep = find_func(find_class(parse('michelson/repl.py'), 'Interpreter'), 'execute')
    shape = classify_execute(rep)
    snap, rest = shape or (None, None)
    status['Interpreter.execute snapshot/restore shape'] = (shape is not None, '/'.join(shape) if shape else 'unrecognised body: ' + ast.unparse(rep)[:400])
    out.append('/-- how `Interpreter.execute` copies stack and context before running a cell -/\n'
               'inductive Snapshot\n'
               '  | separateMemos            -- `deepcopy(self.stack)`; `deepcopy(self.context)`: two independent copies\n'
               '  | sharedMemoContextFirst   -- one `memo`: `deepcopy(self.context, memo)` then `deepcopy(self.stack, memo)`\n'
               '  deriving DecidableEq, Repr\n')
    out.append(f'def snapshot : Option Snapshot := {"some ." + snap if snap else "none"}\n')
    out.append('/-- how the handler of `Interpreter.execute` puts the stack back when a cell raises -/\n'
               'inductive Restore\n'
               '  | replaceStack   -- `self.stack = stack_backup`: the live stack object (and its `protected` counter) is dropped\n'
               '  | itemsOnly      -- `self.stack.items = stack_backup.items`: the live stack object keeps its `protected` counter\n'
               '  deriving DecidableEq, Repr\n')
    out.append(f'def restore : Option Restore := {"some ." + rest if rest else "none"}\n')

    bm = find_class(parse('michelson/types/big_map.py'), 'BigMapType')
    dc = find_func(bm, '__deepcopy__')
    kind = 'keep' if _same(dc, DEEPCOPY_KEEP) else 'memoLookup' if _same(dc, DEEPCOPY_MEMO) else None
    status['BigMapType.__deepcopy__ shape'] = (kind is not None, kind or 'unrecognised body: ' + (ast.unparse(dc)[:300] if dc else 'missing'))
    out.append('/-- what `BigMapType.__deepcopy__` does with the `context` reference -/\n'
               'inductive DeepcopyContext\n'
               '  | keep         -- `return self.duplicate()`: the copy points at the same context object\n'
               '  | memoLookup   -- `memodict.get(id(self.context), self.context)`: follows a context copied in the same deepcopy\n'
               '  deriving DecidableEq, Repr\n')
    out.append(f'def deepcopyContext : Option DeepcopyContext := {"some ." + kind if kind else "none"}\n')

    def flag(name, lean_name, ok, doc, detail=''):
        status[name] = (ok, '' if ok else (detail or 'unrecognised body'))
        out.append(f'/-- {doc} -/\ndef {lean_name} : Option Unit := {"some ()" if ok else "none"}\n')

    flag('BigMapType.duplicate keeps ptr and context', 'duplicateKeeps', _same(find_func(bm, 'duplicate'), DUPLICATE),
         '`duplicate` (DUP, and the body of `__deepcopy__`): copied items / removed keys, same `ptr`, same `context`')
    ctx = find_class(parse('context/impl.py'), 'ExecutionContext')
    special = [n.name for n in ctx.body if isinstance(n, ast.FunctionDef)
               and n.name in ('__deepcopy__', '__reduce__', '__reduce_ex__', '__getstate__', '__setstate__', '__new__')]
    flag('ExecutionContext deep copy is the default one', 'contextCopy',
         not special and _same(find_func(ctx, '__copy__'), CTX_COPY) and [ast.unparse(b) for b in ctx.bases] == ['AbstractContext'],
         '`deepcopy(context)` allocates a fresh object with copied fields (no `__deepcopy__`), `copy()` is refused',
         'defines ' + ', '.join(special) if special else '')
    st = find_class(parse('michelson/stack.py'), 'MichelsonStack')
    bad = [n for n, ref in STACK.items() if not _same(find_func(st, n), ref)]
    flag('MichelsonStack __init__/protect/restore/push/peek/pop/clear', 'stackShape', not bad, 'the stack primitives have the transcribed bodies',
         'unrecognised: ' + ', '.join(bad))
    bad = []
    for (rel, cls), ref in INSTR.items():
        fn = find_func(find_class(parse('michelson/' + rel), cls), 'execute')
        if not _same(fn, ref) and not any(_same(fn, alt) for alt in INSTR_ALT.get(cls, ())):
            bad.append(cls)
    if not _same(find_func(parse('michelson/instructions/control.py'), 'execute_dip'), EXECUTE_DIP):
        bad.append('execute_dip')
    bad += [n for n, ref in CTX_GETTERS.items() if not _same(find_func(ctx, n), ref)]
    flag('cell alphabet instruction bodies', 'instrShape', not bad,
         'BEGIN, COMMIT, RUN, DROP_ALL, BIG_MAP_DIFF, PATCH, EMPTY_BIG_MAP, DUP, DUP n, DROP n, DIG, DUG, DIP, DIP n (`execute_dip`: '
         'protect, body, restore, no try/finally), AMOUNT, BALANCE, NOW, SENDER, SOURCE with their context getters, and the '
         'storage / parameter / code sections',
         'unrecognised: ' + ', '.join(bad))
    return '\n'.join(out)
