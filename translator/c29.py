"""C29 — chain-history search helpers of rpc/search.py.

Extracted (nothing is guessed; an unrecognised body gives `none` and a failed status line):
  * stepDefault     default of `step` in find_state_change_intervals / find_state_changes (must agree)
  * logFormatOk     are all logger.debug calls of the four helpers well-formed?  `'a %s b %s' % x, y` (a `%`
                    with a non-tuple right operand and more than one placeholder) raises TypeError whenever the
                    statement is reached, whatever the log level
  * tailInterval    does find_state_change_intervals examine the interval below the last probed level
                    (`range(head - step, last, -step)` stops short of `last`)?
  * ascending       does find_state_changes walk the intervals from `last` upwards (`reversed(list(...))`)?
  * bisectShape / walkShape   the bodies of find_state_change / walk_state_change_interval are the recognised ones
"""
import ast
import copy

from translator.extract import drop_logging, generator, parse, strip_docstring

HELPERS = ('find_state_change_intervals', 'find_state_change', 'walk_state_change_interval', 'find_state_changes')


def _norm(stmts):
    """statements without docstring / logger calls / comments, re-printed canonically"""
    out = []
    for s in drop_logging(strip_docstring(list(stmts))):
        s = _strip_nested(s)
        out.append(ast.unparse(s))
    return '\n'.join(out)


class _DropLog(ast.NodeTransformer):
    """drop logger calls in nested blocks as well"""

    def generic_visit(self, node):
        super().generic_visit(node)
        for field in ('body', 'orelse', 'finalbody'):
            v = getattr(node, field, None)
            if isinstance(v, list) and v and isinstance(v[0], ast.stmt):
                cleaned = drop_logging(v)
                setattr(node, field, cleaned if (cleaned or field != 'body') else [ast.Pass()])
        return node


def _strip_nested(stmt):
    return _DropLog().visit(copy.deepcopy(stmt))


INTERVALS_PINNED = '''succ_value = get(head)
for level in range(head - step, last, -step):
    value = get(level)
    if not equals(value, succ_value):
        yield (level + step, succ_value, level, value)
        succ_value = value'''

INTERVALS_TAIL = '''succ_level = head
succ_value = get(head)
for level in range(head - step, last, -step):
    value = get(level)
    if not equals(value, succ_value):
        yield (succ_level, succ_value, level, value)
        succ_value = value
    succ_level = level
if succ_level > last:
    value = get(last)
    if not equals(value, succ_value):
        yield (succ_level, succ_value, last, value)'''

BISECT = '''def bisect(start: int, end: int):
    if end == start + 1:
        return (end, get(end))
    level = (end + start) // 2
    value = get(level)
    if equals(value, pred_value):
        return bisect(level, end)
    else:
        return bisect(start, level)
return bisect(last, head)'''

WALK = '''level = last
value = last_value
while not equals(value, head_value):
    level, value = find_state_change(head, level, get, equals, pred_value=value)
    yield (level, value)'''

CHANGES = '''state_change_intervals = find_state_change_intervals(head, last, get, equals, step)
for int_head, int_head_value, int_tail, int_last_value in %s:
    yield from walk_state_change_interval(int_head, int_tail, get, equals, head_value=int_head_value, last_value=int_last_value)'''
CHANGES_DESC = CHANGES % 'state_change_intervals'
CHANGES_ASC = CHANGES % 'reversed(list(state_change_intervals))'


def _canon(text):
    return ast.unparse(ast.parse(text))


def _placeholders(fmt):
    fmt = fmt.replace('%%', '')
    return fmt.count('%')


def _log_call_ok(call):
    """True: cannot raise for formatting reasons; False: raises TypeError when reached; None: not recognised"""
    if not call.args:
        return None
    a0 = call.args[0]
    if isinstance(a0, ast.JoinedStr):
        return True if len(call.args) == 1 else None
    if isinstance(a0, ast.Constant) and isinstance(a0.value, str):
        # lazy %-formatting by the logging module: a count mismatch is reported by logging, never raised
        return True if _placeholders(a0.value) == len(call.args) - 1 else None
    if isinstance(a0, ast.BinOp) and isinstance(a0.op, ast.Mod):
        left = a0.left
        if isinstance(left, ast.JoinedStr) and not any(isinstance(v, ast.FormattedValue) for v in left.values):
            left = ast.Constant(''.join(v.value for v in left.values))
        if not (isinstance(left, ast.Constant) and isinstance(left.value, str)):
            return None
        n = _placeholders(left.value)
        if isinstance(a0.right, ast.Tuple):
            return True if (n == len(a0.right.elts) and len(call.args) == 1) else (False if n != len(a0.right.elts) else None)
        # non-tuple right operand: fine only for exactly one placeholder and a value that is not itself a tuple
        if n >= 2:
            return False
        return None
    return None


def _logger_calls(fn):
    for n in ast.walk(fn):
        if isinstance(n, ast.Call) and isinstance(n.func, ast.Attribute) and isinstance(n.func.value, ast.Name) \
                and n.func.value.id == 'logger':
            yield n


def _opt(v):
    if v is None:
        return 'none'
    if isinstance(v, bool):
        return 'some true' if v else 'some false'
    return f'some {v}'


@generator('C29')
def gen_c29(status):
    tree = parse('rpc/search.py')
    fns = {name: next((n for n in tree.body if isinstance(n, ast.FunctionDef) and n.name == name), None) for name in HELPERS}
    for name, fn in fns.items():
        if fn is None:
            status[f'{name} present'] = (False, 'module-level function not found')
    if any(fn is None for fn in fns.values()):
        return ('def stepDefault : Option Nat := none\ndef logFormatOk : Option Bool := none\n'
                'def tailInterval : Option Bool := none\ndef ascending : Option Bool := none\n'
                'def bisectShape : Bool := false\ndef walkShape : Bool := false\n')

    # --- step default -------------------------------------------------------------------------------
    def step_default(fn):
        args = fn.args.args
        names = [a.arg for a in args]
        if names != ['head', 'last', 'get', 'equals', 'step'] or len(fn.args.defaults) != 1:
            return None
        d = fn.args.defaults[0]
        if isinstance(d, ast.Constant) and type(d.value) is int and d.value >= 0:
            return d.value
        return None

    d1, d2 = step_default(fns['find_state_change_intervals']), step_default(fns['find_state_changes'])
    step = d1 if (d1 is not None and d1 == d2) else None
    status['step default'] = (step is not None, f'intervals={d1} changes={d2}')

    # --- logging ------------------------------------------------------------------------------------
    verdicts = []
    for name, fn in fns.items():
        for c in _logger_calls(fn):
            verdicts.append((name, c.lineno, _log_call_ok(c), ast.unparse(c)))
    if any(v is None for _, _, v, _ in verdicts):
        log_ok = None
    else:
        log_ok = all(v for _, _, v, _ in verdicts)
    bad = [f'{n}:{ln} {src}' for n, ln, v, src in verdicts if v is not True]
    status['logging calls well-formed'] = (log_ok is True, '; '.join(bad)[:600] if bad else f'{len(verdicts)} logger calls')

    # --- find_state_change_intervals -----------------------------------------------------------------
    body = _norm(fns['find_state_change_intervals'].body)
    rng = [ast.unparse(n) for n in ast.walk(fns['find_state_change_intervals'])
           if isinstance(n, ast.Call) and isinstance(n.func, ast.Name) and n.func.id == 'range']
    status['interval scan range'] = (rng == ['range(head - step, last, -step)'], '; '.join(rng))
    if body == _canon(INTERVALS_TAIL):
        tail = True
    elif body == _canon(INTERVALS_PINNED):
        tail = False
    else:
        tail = None
    status['interval below the last probed level examined'] = (
        tail is True, 'recognised' if tail else ('the loop stops at the last multiple of step above `last`; get(last) is never called'
                                                 if tail is False else 'unrecognised body: ' + body[:400]))

    # --- find_state_change / walk ----------------------------------------------------------------------
    b = _norm(fns['find_state_change'].body)
    bisect_ok = b == _canon(BISECT)
    status['find_state_change shape'] = (bisect_ok, 'recognised' if bisect_ok else 'unrecognised body: ' + b[:400])
    w = _norm(fns['walk_state_change_interval'].body)
    walk_ok = w == _canon(WALK)
    status['walk_state_change_interval shape'] = (walk_ok, 'recognised' if walk_ok else 'unrecognised body: ' + w[:400])
    sig_ok = [a.arg for a in fns['find_state_change'].args.args] == ['head', 'last', 'get', 'equals', 'pred_value'] and \
        [a.arg for a in fns['walk_state_change_interval'].args.args] == ['head', 'last', 'get', 'equals', 'head_value', 'last_value']
    status['helper signatures'] = (sig_ok, '')

    # --- find_state_changes ---------------------------------------------------------------------------
    c = _norm(fns['find_state_changes'].body)
    if c == _canon(CHANGES_ASC):
        asc = True
    elif c == _canon(CHANGES_DESC):
        asc = False
    else:
        asc = None
    status['intervals walked from `last` upwards'] = (
        asc is True, 'recognised' if asc else ('intervals are walked in discovery order (from head downwards)' if asc is False
                                               else 'unrecognised body: ' + c[:400]))

    return (f'/-- default of `step` -/\ndef stepDefault : Option Nat := {_opt(step)}\n'
            f'/-- `some false`: a logging statement raises TypeError when reached -/\ndef logFormatOk : Option Bool := {_opt(log_ok)}\n'
            f'/-- is the interval between `last` and the lowest probed level examined? -/\ndef tailInterval : Option Bool := {_opt(tail)}\n'
            f'/-- are the intervals walked in increasing level order? -/\ndef ascending : Option Bool := {_opt(asc)}\n'
            f'def bisectShape : Bool := {"true" if bisect_ok and sig_ok else "false"}\n'
            f'def walkShape : Bool := {"true" if walk_ok and sig_ok else "false"}\n')
