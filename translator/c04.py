"""C04 — src/pytezos/michelson/types/base.py, instructions/generic.py -> Generated/C04.lean

* `MichelsonType.is_packable`: the excluded primitives, the `lambda` short-cut, recursion over all type arguments;
* `MichelsonType.pack` / `forge` / `unpack`: statement-by-statement shape (packability assertion, the `05` prefix,
  the mode selected by `legacy`, `unforge_micheline(data[1:])` then `from_micheline_value`);
* `UnpackInstruction.execute`: which exception class the `try` around `unpack` catches (everything = `Exception`).
(the comb layouts, `iter_comb` and the handler tables are read by translator/c11.py; the binary codec by c05.py)"""
import ast

from translator.extract import all_type_args_forms, find_class, find_func, generator, lean_list, lean_str, parse, strip_docstring
from translator.c11 import _norm_body

IS_PACKABLE = ["if cls.prim in {LIST}:\n    return False\nelif cls.prim == 'lambda':\n    return True",
               'return all(map(lambda x: x.is_packable(), cls.args))']
PACK = ['assert self.is_packable(), MSG', "data = self.forge(mode='legacy_optimized' if legacy else 'optimized')", "return b'\\x05' + data"]
FORGE = ['val_expr = self.to_micheline_value(mode=mode)', 'return forge_micheline(val_expr)']
UNPACK = ['assert cls.is_packable(), MSG', "assert data.startswith(b'\\x05'), MSG", 'val_expr = unforge_micheline(data[1:])',
          'return cls.from_micheline_value(val_expr)']


@generator('C04')
def gen(status):
    out = []
    base = parse('michelson/types/base.py')
    mt = find_class(base, 'MichelsonType')
    # --- is_packable
    fn = find_func(mt, 'is_packable')
    body = strip_docstring(fn.body)
    excl = None
    if len(body) == 2 and isinstance(body[0], ast.If) and isinstance(body[0].test, ast.Compare) and len(body[0].test.ops) == 1 \
            and isinstance(body[0].test.ops[0], ast.In) and ast.unparse(body[0].test.left) == 'cls.prim' \
            and isinstance(body[0].test.comparators[0], ast.List) \
            and all(isinstance(e, ast.Constant) and isinstance(e.value, str) for e in body[0].test.comparators[0].elts):
        names = [e.value for e in body[0].test.comparators[0].elts]
        text = [ast.unparse(s) for s in body]
        if text[0] == IS_PACKABLE[0].replace('{LIST}', ast.unparse(body[0].test.comparators[0])) and text[1] in all_type_args_forms(mt, 'is_packable'):
            excl = names
    status['MichelsonType.is_packable shape'] = (excl is not None, f'excluded {excl}, lambda packable, else all args' if excl is not None else 'unrecognised: ' + ast.unparse(fn)[:300])
    out.append('/-- primitives that make a type unpackable (`lambda` is packable whatever its arguments; otherwise all arguments must be) -/')
    out.append('def packableExcluded : Option (List String) := ' + ('none' if excl is None else 'some ' + lean_list(lean_str(n) for n in excl)))
    # --- pack / forge / unpack
    for name, want in (('pack', PACK), ('forge', FORGE), ('unpack', UNPACK)):
        got = _norm_body(find_func(mt, name))
        ok = got == want
        status[f'MichelsonType.{name} shape'] = (ok, 'recognised' if ok else 'differs from the mirrored text: ' + ' | '.join(got)[:300])
        out.append(f'def {name}Recognised : Bool := {str(ok).lower()}')
    # --- UNPACK's try/except
    gen_ = parse('michelson/instructions/generic.py')
    ex = find_func(find_class(gen_, 'UnpackInstruction'), 'execute')
    tries = [n for n in ast.walk(ex) if isinstance(n, ast.Try)]
    catches = None
    if len(tries) == 1 and len(tries[0].handlers) == 1 and not tries[0].finalbody and not tries[0].orelse:
        t = tries[0]
        h = t.handlers[0]
        body_ok = [ast.unparse(s) for s in t.body] == ['some = cls.args[0].unpack(bytes(a))', 'res = OptionType.from_some(some)']
        none_ok = any(ast.unparse(s) == 'res = OptionType.none(cls.args[0])' for s in h.body) and not any(isinstance(s, ast.Raise) for s in ast.walk(h))
        if body_ok and none_ok:
            if h.type is None or ast.unparse(h.type) in ('Exception', 'BaseException'):
                catches = True
            else:
                catches = False
    status['UnpackInstruction.execute try/except'] = (catches is not None, f'catches every exception: {catches}' if catches is not None else 'unrecognised: ' + ast.unparse(ex)[:300])
    out.append('/-- does UNPACK turn *every* exception of `unpack` into `None`? (`some false`: a narrower `except`, others propagate) -/')
    out.append('def unpackCatchesAll : Option Bool := ' + ('none' if catches is None else f'some {str(catches).lower()}'))
    return '\n'.join(out) + '\n'
