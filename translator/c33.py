"""C33 — global constants: `ExecutionContext.register_global_constant` / `resolve_global_constants`
(context/impl.py), `forge_script_expr` (michelson/forge.py) and the use in `ContractInterface.from_micheline`.

The expansion routine is matched statement by statement against the shape `Impl.Constants` mirrors; the prim that marks
a reference and the position of the hash inside it are extracted and consumed by the model."""
import ast
import re

from translator.extract import find_class, find_func, generator, lean_str, parse, strip_docstring


def _n(node):
    return ast.unparse(node).replace(' ', '')


def _body(fn):
    return [_n(s) for s in strip_docstring(fn.body)]


@generator('C33')
def gen_c33(status):
    impl = parse('context/impl.py')
    ctx = find_class(impl, 'ExecutionContext')
    out = ['structure ResolveShape where\n  constPrim : String\n  hashArg : Nat\n  hashField : String\n  deriving Repr, DecidableEq\n']

    # ---- resolve_global_constants
    shape, detail = None, ''
    try:
        fn = find_func(ctx, 'resolve_global_constants')
        assert fn is not None and [a.arg for a in fn.args.args] == ['self', 'expression'], 'signature'
        body = strip_docstring(fn.body)
        assert len(body) == 3 and isinstance(body[0], ast.FunctionDef) and isinstance(body[1], ast.FunctionDef), 'two inner functions + return'
        rc, rs = body[0], body[1]
        assert rc.name == '_resolve_constant' and [a.arg for a in rc.args.args] == ['node'], '_resolve_constant(node)'
        assert rs.name == '_resolve' and [a.arg for a in rs.args.args] == ['node'], '_resolve(node)'
        assert _n(body[2]) == 'return_resolve(expression)', _n(body[2])
        # _resolve_constant
        cb = strip_docstring(rc.body)
        assert len(cb) == 3, f'_resolve_constant has {len(cb)} statements'
        tr = cb[0]
        assert isinstance(tr, ast.Try) and len(tr.body) == 1 and len(tr.handlers) == 1 and not tr.orelse and not tr.finalbody, 'try/except'
        m = re.fullmatch(r"constant_hash=node\['args'\]\[(\d+)\]\['(\w+)'\]", _n(tr.body[0]))
        assert m, _n(tr.body[0])
        h = tr.handlers[0]
        assert _n(h.type) == '(KeyError,IndexError)' and len(h.body) == 1 and isinstance(h.body[0], ast.Raise) \
            and _n(h.body[0].exc).startswith('ValueError('), 'malformed reference -> ValueError: ' + _n(h)
        lk = cb[1]
        assert isinstance(lk, ast.If) and not lk.orelse and _n(lk.test) == 'constant_hashnotinself.global_constants' \
            and len(lk.body) == 1 and isinstance(lk.body[0], ast.Raise) and _n(lk.body[0].exc).startswith('KeyError('), 'unknown hash -> KeyError'
        assert _n(cb[2]) == 'return_resolve(self.global_constants[constant_hash])', _n(cb[2])
        # _resolve
        sb = strip_docstring(rs.body)
        assert len(sb) == 1 and isinstance(sb[0], ast.If), '_resolve is one if/elif/else'
        top = sb[0]
        assert _n(top.test) == 'isinstance(node,dict)', _n(top.test)
        assert len(top.body) == 1 and isinstance(top.body[0], ast.If), 'dict branch'
        d = top.body[0]
        m2 = re.fullmatch(r"node\.get\('prim'\)=='(\w+)'", _n(d.test))
        assert m2, _n(d.test)
        assert [_n(s) for s in d.body] == ['return_resolve_constant(node)'], 'constant branch'
        assert len(d.orelse) == 1 and isinstance(d.orelse[0], ast.If), 'elif args'
        a = d.orelse[0]
        assert _n(a.test) == "node.get('args')", _n(a.test)
        assert [_n(s) for s in a.body] == ["args=list(map(_resolve,node['args']))",
                                           "return{k:vifk!='args'elseargsfork,vinnode.items()}"], 'args branch: ' + str([_n(s) for s in a.body])
        assert [_n(s) for s in a.orelse] == ['returnnode'], 'leaf dict returned unchanged'
        assert len(top.orelse) == 1 and isinstance(top.orelse[0], ast.If), 'elif list'
        l = top.orelse[0]
        assert _n(l.test) == 'isinstance(node,list)' and [_n(s) for s in l.body] == ['returnlist(map(_resolve,node))'] \
            and [_n(s) for s in l.orelse] == ['returnnode'], 'list branch'
        shape = (m2.group(1), int(m.group(1)), m.group(2))
    except AssertionError as e:
        detail = f'unrecognised: {e}'
    status['resolve_global_constants shape'] = (shape is not None, detail or str(shape))
    out.append('/-- a reference is a prim node named `constPrim`; its hash is `node[\'args\'][hashArg][hashField]`; every other\n'
               'statement of `_resolve` / `_resolve_constant` matched the mirrored shape literally (`none` otherwise) -/')
    if shape is not None:
        out.append(f'def resolveShape : Option ResolveShape := some {{ constPrim := {lean_str(shape[0])}, hashArg := {shape[1]}, '
                   f'hashField := {lean_str(shape[2])} }}\n')
    else:
        out.append('def resolveShape : Option ResolveShape := none\n')

    # ---- register_global_constant and forge_script_expr (the key; checked by recomputation in the harness)
    reg = find_func(ctx, 'register_global_constant')
    ok_reg = reg is not None and _body(reg) == ['constant_hash=forge_script_expr(forge_micheline(expression))',
                                                'self.global_constants[constant_hash]=expression']
    status['register_global_constant: key = forge_script_expr(forge_micheline(expr)), value stored as given'] = (
        ok_reg, str(_body(reg)) if reg is not None else 'missing')
    forge = parse('michelson/forge.py')
    fse = find_func(forge, 'forge_script_expr')
    pref = None
    if fse is not None:
        b = _body(fse)
        m = re.fullmatch(r"returnbase58_encode\(data,b'(\w+)'\)\.decode\(\)", b[1]) if len(b) == 2 else None
        if m and b[0] == 'data=blake2b_32(packed_key).digest()':
            pref = m.group(1)
    status['forge_script_expr: base58(prefix, blake2b_32(bytes)), no 0x05 prepended'] = (pref is not None, str(_body(fse)) if fse else 'missing')
    out.append(f'def registerKeyIsScriptExprOfForged : Bool := {"true" if ok_reg else "false"}\n'
               f'def scriptExprPrefix : Option String := {"some " + lean_str(pref) if pref else "none"}\n')

    # ---- ContractInterface.from_micheline expands before matching and hands the registry on
    ci = parse('contract/interface.py')
    fm = find_func(find_class(ci, 'ContractInterface'), 'from_micheline')
    ok_fm = False
    if fm is not None:
        b = strip_docstring(fm.body)
        first = b[0] if b else None
        ok_fm = isinstance(first, ast.If) and _n(first.test) == 'contextisnotNone' \
            and [_n(s) for s in first.body] == ['code_expr=context.resolve_global_constants(expression)'] \
            and [_n(s) for s in first.orelse] == ['code_expr=expression'] \
            and len(b) > 1 and _n(b[1]) == 'program=MichelsonProgram.match(code_expr)' \
            and 'global_constants=context.global_constantsifcontextelseNone' in _n(fm)
    status['ContractInterface.from_micheline expands with the context before MichelsonProgram.match'] = (ok_fm, _n(fm)[:300] if fm else 'missing')
    out.append(f'def fromMichelineExpandsFirst : Bool := {"true" if ok_fm else "false"}\n')
    return '\n'.join(out)
