"""C30 — protocol source diffs (protocol/diff.py, protocol/protocol.py).

Extracted (unrecognised construct => `none` / `false` and a failed status line, nothing is guessed):
  * noEol           the `_no_eol` marker text, as a list of characters
  * hdrPattern      the source of `_hdr_pat` (the Lean header parser is a hand model of exactly this regex)
  * fwdGroup/fwdSign, revGroup/revSign   the `(midx, sign)` pairs chosen by `revert`
  * makePatchShape  make_patch = unified_diff(a.splitlines(True), b.splitlines(True), filename, filename, n=context_size),
                    every yielded line not ending in '\\n' gets '\\n' + marker + '\\n', joined
  * applyPatchShape the body of apply_patch is the recognised one
  * protocolDiffShape / protocolPatchShape   bodies of Protocol.diff / Protocol.patch
  * protocolCallable   can a `Protocol` be passed where diff()/patch() call their argument (`proto()`, `patch()`)?
  * contextDefault  default context of make_patch / Protocol.diff
"""
import ast

from translator.extract import find_assign, find_class, generator, parse, strip_docstring

HDR_PAT = r'^@@ -(\d+),?(\d+)? \+(\d+),?(\d+)? @@$'

MAKE_PATCH = '''diffs = difflib.unified_diff(a=a.splitlines(True), b=b.splitlines(True), fromfile=filename, tofile=filename, n=context_size)
diffs = map(lambda x: x if x[-1] == '\\n' else x + '\\n' + _no_eol + '\\n', diffs)
return ''.join(diffs)'''

APPLY_PATCH = '''source = source.splitlines(True)
patch = patch.splitlines(True)
target = ''
i = sl = 0
midx, sign = MIDX_SIGN
while i < len(patch) and patch[i].startswith(('---', '+++')):
    i += 1
while i < len(patch):
    match = _hdr_pat.match(patch[i])
    if not match:
        raise ValueError(f'Regex mismatch on line {i}, `{patch[i]}`')
    l = int(match.group(midx)) - 1 + (match.group(midx + 1) == '0')
    if sl > l or l > len(source):
        raise ValueError(f'Bad line num {i}: `{patch[i]}`')
    target += ''.join(source[sl:l])
    sl = l
    i += 1
    while i < len(patch) and patch[i][0] != '@':
        if i + 1 < len(patch) and patch[i + 1][0] == '\\\\':
            line = patch[i][:-1]
            i += 2
        else:
            line = patch[i]
            i += 1
        if len(line) > 0:
            if line[0] == sign or line[0] == ' ':
                target += line[1:]
            sl += line[0] != sign
target += ''.join(source[sl:])
return target'''

PROTO_DIFF = '''files = []
yours = dict(iter(self))
theirs = proto_to_files(proto())
for filename, their_text in theirs:
    patch = make_patch(a=yours.get(filename, ''), b=their_text, filename=filename, context_size=context_size)
    files.append((filename, patch))
return Protocol(files_to_proto(files))'''

PROTO_PATCH = '''files = []
yours = dict(iter(self))
diff = proto_to_files(patch())
for filename, diff_text in diff:
    text = yours.get(filename, '')
    if diff_text:
        text = apply_patch(text, diff_text)
    files.append((filename, text))
return Protocol(files_to_proto(files))'''


def _canon(text):
    return ast.unparse(ast.parse(text))


def _body_text(fn):
    return '\n'.join(ast.unparse(s) for s in strip_docstring(list(fn.body)))


def lean_char(ch):
    if ch == '\\':
        return "'\\\\'"
    if ch == "'":
        return "'\\''"
    if 32 <= ord(ch) < 127:
        return f"'{ch}'"
    return f'Char.ofNat {ord(ch)}'


def lean_chars(s):
    return '[' + ', '.join(lean_char(c) for c in s) + ']'


def _module_func(tree, name):
    return next((n for n in tree.body if isinstance(n, ast.FunctionDef) and n.name == name), None)


def _method(cls, name):
    return next((n for n in cls.body if isinstance(n, ast.FunctionDef) and n.name == name), None) if cls else None


def _default_of(fn, arg):
    if fn is None:
        return None
    names = [a.arg for a in fn.args.args]
    if arg not in names:
        return None
    k = len(names) - names.index(arg)
    if k > len(fn.args.defaults):
        return None
    d = fn.args.defaults[len(fn.args.defaults) - k]
    return d.value if isinstance(d, ast.Constant) and type(d.value) is int and d.value >= 0 else None


@generator('C30')
def gen_c30(status):
    tree = parse('protocol/diff.py')
    out = []

    # --- constants ----------------------------------------------------------------------------------
    v = find_assign(tree, '_no_eol')
    no_eol = v.value if isinstance(v, ast.Constant) and isinstance(v.value, str) else None
    status['_no_eol marker'] = (no_eol is not None, repr(no_eol))
    out.append(f'/-- `_no_eol` -/\ndef noEol : Option (List Char) := {"some " + lean_chars(no_eol) if no_eol is not None else "none"}')

    v = find_assign(tree, '_hdr_pat')
    pat = None
    if isinstance(v, ast.Call) and ast.unparse(v.func) == 're.compile' and len(v.args) == 1 and not v.keywords \
            and isinstance(v.args[0], ast.Constant) and isinstance(v.args[0].value, str):
        pat = v.args[0].value
    status['_hdr_pat regex is the modelled one'] = (pat == HDR_PAT, repr(pat))
    out.append(f'/-- source of `_hdr_pat`; the header parser of the model is written for {HDR_PAT!r} only -/\n'
               f'def hdrPattern : Option (List Char) := {"some " + lean_chars(pat) if pat is not None else "none"}')

    # --- make_patch -----------------------------------------------------------------------------------
    mp = _module_func(tree, 'make_patch')
    mp_ok = mp is not None and [a.arg for a in mp.args.args] == ['a', 'b', 'filename', 'context_size'] \
        and _body_text(mp) == _canon(MAKE_PATCH)
    status['make_patch shape'] = (mp_ok, 'recognised' if mp_ok else 'unrecognised: ' + (_body_text(mp)[:400] if mp else 'missing'))
    out.append(f'def makePatchShape : Bool := {"true" if mp_ok else "false"}')
    ctx_mp = _default_of(mp, 'context_size')

    # --- apply_patch ----------------------------------------------------------------------------------
    ap = _module_func(tree, 'apply_patch')
    groups = None
    ap_ok = False
    if ap is not None and [a.arg for a in ap.args.args] == ['source', 'patch', 'revert'] and \
            len(ap.args.defaults) == 1 and isinstance(ap.args.defaults[0], ast.Constant) and ap.args.defaults[0].value is False:
        body = strip_docstring(list(ap.body))
        sel = [s for s in body if isinstance(s, ast.Assign) and ast.unparse(s.targets[0]) in ('(midx, sign)', 'midx, sign')]
        if len(sel) == 1 and isinstance(sel[0].value, ast.IfExp) and ast.unparse(sel[0].value.test) == 'not revert':
            def pair(t):
                if isinstance(t, ast.Tuple) and len(t.elts) == 2 and all(isinstance(e, ast.Constant) for e in t.elts) \
                        and type(t.elts[0].value) is int and isinstance(t.elts[1].value, str) and len(t.elts[1].value) == 1:
                    return t.elts[0].value, t.elts[1].value
                return None
            f, r = pair(sel[0].value.body), pair(sel[0].value.orelse)
            if f and r:
                groups = (f, r)
            text = '\n'.join('midx, sign = MIDX_SIGN' if s is sel[0] else ast.unparse(s) for s in body)
            ap_ok = groups is not None and text == _canon(APPLY_PATCH)
    status['apply_patch shape'] = (ap_ok, 'recognised' if ap_ok else 'unrecognised: ' + (_body_text(ap)[:300] if ap else 'missing'))
    status['apply_patch (group, sign) selection'] = (groups is not None, repr(groups))
    out.append(f'def applyPatchShape : Bool := {"true" if ap_ok else "false"}')
    if groups:
        (fg, fs), (rg, rs) = groups
        out.append(f'/-- `(midx, sign)` for revert=False / revert=True -/\ndef fwd : Option (Nat × Char) := some ({fg}, {lean_char(fs)})\n'
                   f'def rev : Option (Nat × Char) := some ({rg}, {lean_char(rs)})')
    else:
        out.append('def fwd : Option (Nat × Char) := none\ndef rev : Option (Nat × Char) := none')

    # --- Protocol.diff / Protocol.patch --------------------------------------------------------------------
    ptree = parse('protocol/protocol.py')
    cls = find_class(ptree, 'Protocol')
    d, p, c = _method(cls, 'diff'), _method(cls, 'patch'), _method(cls, '__call__')
    d_ok = d is not None and [a.arg for a in d.args.args] == ['self', 'proto', 'context_size'] and _body_text(d) == _canon(PROTO_DIFF)
    p_ok = p is not None and [a.arg for a in p.args.args] == ['self', 'patch'] and _body_text(p) == _canon(PROTO_PATCH)
    status['Protocol.diff shape'] = (d_ok, 'recognised' if d_ok else 'unrecognised: ' + (_body_text(d)[:300] if d else 'missing'))
    status['Protocol.patch shape'] = (p_ok, 'recognised' if p_ok else 'unrecognised: ' + (_body_text(p)[:300] if p else 'missing'))
    if c is None:
        callable_ = False
        detail = 'class Protocol defines no __call__, but diff()/patch() call their argument (`proto()`, `patch()`): passing a Protocol raises TypeError'
    elif [a.arg for a in c.args.args] == ['self'] and _body_text(c) == 'return self._proto':
        callable_ = True
        detail = '__call__ returns self._proto'
    else:
        callable_ = None
        detail = 'unrecognised __call__: ' + _body_text(c)[:200]
    status['a Protocol can be passed to Protocol.diff / Protocol.patch'] = (callable_ is True, detail)
    out.append(f'def protocolDiffShape : Bool := {"true" if d_ok else "false"}\ndef protocolPatchShape : Bool := {"true" if p_ok else "false"}')
    out.append('/-- `some true`: `Protocol.__call__` returns the proto dict; `some false`: a Protocol is not callable -/\n'
               f'def protocolCallable : Option Bool := {"none" if callable_ is None else ("some true" if callable_ else "some false")}')
    ctx_d = _default_of(d, 'context_size')
    status['context defaults'] = (ctx_mp is not None and ctx_d is not None, f'make_patch={ctx_mp} Protocol.diff={ctx_d}')
    out.append(f'def makePatchContextDefault : Option Nat := {"some %d" % ctx_mp if ctx_mp is not None else "none"}\n'
               f'def protocolDiffContextDefault : Option Nat := {"some %d" % ctx_d if ctx_d is not None else "none"}')
    return '\n'.join(out) + '\n'
