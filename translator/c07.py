"""C07 — Key.sign / Key.verify / scrub_input / blake2b_32 / CHECK_SIGNATURE.

What is read from the source (ast only):
  * the `base58_encodings` rows whose human prefix ends in `sig` (signature kinds used by key.py);
  * the curve dispatch of `Key.sign`: order of the branches, and per curve what is handed to the signing
    primitive (Blake2b-256 digest of the scrubbed message, or the scrubbed message itself).  Every branch body is
    compared with the known text of that branch; an unknown body is *not* interpreted (status False, `none`);
  * the rule that picks the human prefix of the signature (`generic` x curve);
  * the same for `Key.verify`, the prefix/curve pre-check, and whether the P256 branch turns fastecdsa's
    `EcdsaError` (r or s out of range) into the documented ValueError;
  * `scrub_input`, `blake2b_32` and the try/except of CHECK_SIGNATURE as fixed shapes.
Helpers here are shared with translator/c08.py and translator/c23.py."""
import ast

from translator.extract import find_assign, find_class, find_func, generator, lean_list, parse, strip_docstring

CURVES = [b'ed', b'sp', b'p2', b'BL']


def lb(b):
    """bytes -> Lean `List Nat` literal"""
    return lean_list(str(x) for x in b)


def opt(v, render):
    return 'none' if v is None else f'some ({render(v)})'


def b58_rows():
    """rows of `base58_encodings` as (human, enc_len, bin, data_len, description); None if not a literal table"""
    tree = parse('crypto/encoding.py')
    val = find_assign(tree, 'base58_encodings')
    if not isinstance(val, ast.List):
        return None
    rows = []
    for e in val.elts:
        if not (isinstance(e, ast.Tuple) and len(e.elts) == 5):
            return None
        h, n, b, m, d = e.elts
        if not (isinstance(h, ast.Constant) and isinstance(h.value, bytes) and isinstance(n, ast.Constant) and isinstance(n.value, int)
                and isinstance(m, ast.Constant) and isinstance(m.value, int) and isinstance(d, ast.Constant)):
            return None
        if isinstance(b, ast.Constant) and isinstance(b.value, bytes):
            bv = b.value
        elif isinstance(b, ast.Call) and isinstance(b.func, ast.Name) and b.func.id in ('tb', 'bytes') and len(b.args) == 1 \
                and isinstance(b.args[0], ast.List) and all(isinstance(x, ast.Constant) and isinstance(x.value, int) and 0 <= x.value < 256 for x in b.args[0].elts):
            bv = bytes(x.value for x in b.args[0].elts)
        else:
            return None
        rows.append((h.value, n.value, bv, m.value, str(d.value)))
    return rows


def rows_def(name, rows, doc):
    lines = []
    for i, (h, n, b, m, d) in enumerate(rows):
        sep = ',' if i < len(rows) - 1 else ''
        lines.append(f'  ({lb(h)}, {n}, {lb(b)}, {m}){sep}  -- {h.decode()}/{n}: {d}')
    body = '\n'.join(lines)
    return f'/-- {doc} -/\ndef {name} : List (List Nat × Nat × List Nat × Nat) := [\n{body}\n]'


def body_of(fn):
    return strip_docstring(fn.body)


def curve_chain(node):
    """`if self.curve == b'xx': … elif … else: raise ValueError` -> [(curve, [stmt text])] or None.
    `var` is `self.curve` or `curve`."""
    out = []
    while True:
        if not isinstance(node, ast.If):
            return None
        t = node.test
        if not (isinstance(t, ast.Compare) and len(t.ops) == 1 and isinstance(t.ops[0], ast.Eq)
                and ast.unparse(t.left) in ('self.curve', 'curve') and isinstance(t.comparators[0], ast.Constant)
                and isinstance(t.comparators[0].value, bytes)):
            return None
        out.append((t.comparators[0].value, [ast.unparse(s) for s in node.body]))
        if len(node.orelse) == 1 and isinstance(node.orelse[0], ast.If):
            node = node.orelse[0]
            continue
        if len(node.orelse) == 1 and isinstance(node.orelse[0], ast.Raise) and ast.unparse(node.orelse[0]).startswith('raise ValueError('):
            return out
        return None


# known branch bodies of Key.sign: text -> True (primitive gets Blake2b-256 of the message) / False (the message)
SIGN_BRANCH = {
    b'ed': {("digest = pysodium.crypto_generichash(encoded_message)",
             "signature = pysodium.crypto_sign_detached(digest, self.secret_exponent)"): True},
    b'sp': {("pk = coincurve.PrivateKey(self.secret_exponent)",
             "signature = ecdsa.serialize_compact(ecdsa.der_to_cdata(pk.sign(encoded_message, hasher=lambda x: blake2b_32(x).digest())))"): True},
    b'p2': {("r, s = fastecdsa.ecdsa.sign(msg=encoded_message, d=bytes_to_int(self.secret_exponent), hashfunc=blake2b_32)",
             "signature = r.to_bytes(32, 'big') + s.to_bytes(32, 'big')"): True},
    b'BL': {("sk_int = int.from_bytes(self.secret_exponent, byteorder='little')",
             "signature = G2.Sign(sk_int, encoded_message)"): False},
}

P2_VERIFY_PLAIN = ("pk = fastecdsa.encoding.sec1.SEC1Encoder.decode_public_key(self.public_point, curve=fastecdsa.curve.P256)",
                   "r, s = (bytes_to_int(decoded_signature[:32]), bytes_to_int(decoded_signature[32:]))",
                   "if not fastecdsa.ecdsa.verify(sig=(r, s), msg=encoded_message, Q=pk, hashfunc=blake2b_32):\n    raise ValueError('Signature is invalid.')")
P2_VERIFY_CATCH = P2_VERIFY_PLAIN[:2] + (
    "try:\n    is_valid = fastecdsa.ecdsa.verify(sig=(r, s), msg=encoded_message, Q=pk, hashfunc=blake2b_32)\n"
    "except fastecdsa.ecdsa.EcdsaError as exc:\n    raise ValueError('Signature is invalid.') from exc",
    "if not is_valid:\n    raise ValueError('Signature is invalid.')")

# known branch bodies of Key.verify: text -> (digest?, catches EcdsaError?)
VERIFY_BRANCH = {
    b'ed': {("digest = pysodium.crypto_generichash(encoded_message)",
             "try:\n    pysodium.crypto_sign_verify_detached(decoded_signature, digest, self.public_point)\n"
             "except ValueError as exc:\n    raise ValueError('Signature is invalid.') from exc"): (True, None)},
    b'sp': {("pk = coincurve.PublicKey(self.public_point)",
             "if not pk.verify(signature=ecdsa.cdata_to_der(ecdsa.deserialize_compact(decoded_signature)), message=encoded_message, "
             "hasher=lambda x: blake2b_32(x).digest()):\n    raise ValueError('Signature is invalid.')"): (True, None)},
    b'p2': {P2_VERIFY_PLAIN: (True, False), P2_VERIFY_CATCH: (True, True)},
    b'BL': {("if not G2.Verify(BLSPubkey(self.public_point), encoded_message, BLSSignature(decoded_signature)):\n"
             "    raise ValueError('Signature is invalid.')",): (False, None)},
}


def sign_prefix_rule(node):
    """the statement choosing `prefix` in Key.sign -> {(curve, generic): human prefix} or None"""
    if not (isinstance(node, ast.If) and len(node.body) == 1 and len(node.orelse) == 1
            and ast.unparse(node.body[0]) == "prefix = b'sig'" and ast.unparse(node.orelse[0]) == "prefix = self.curve + b'sig'"):
        return None
    test = ast.unparse(node.test)
    if test == 'generic':
        excl = []
    elif test in ("generic and self.curve != b'BL'", "self.curve != b'BL' and generic",
                  "generic and self.curve not in [b'BL']", "generic and self.curve not in (b'BL',)",
                  "generic and (not self.curve == b'BL')"):
        excl = [b'BL']
    elif test in ("generic and len(signature) == 64", "len(signature) == 64 and generic"):
        excl = None  # decided by the signature length: the generic kind is used exactly when it fits
    else:
        return None
    rule = {}
    for c in CURVES:
        for g in (False, True):
            if excl is None:
                is_generic = g and c != b'BL'   # 64-byte signatures: ed, sp, p2 (primitive contract, see Laws.sign_len)
            else:
                is_generic = g and c not in excl
            rule[(c, g)] = b'sig' if is_generic else c + b'sig'
    return rule


def key_method(name):
    tree = parse('crypto/key.py')
    return find_func(find_class(tree, 'Key'), name)


def gen_sign(status, out):
    fn = key_method('sign')
    body = body_of(fn)
    payload, rule = None, None
    ok_frame = (len(body) == 5 and ast.unparse(body[0]) == 'encoded_message = scrub_input(message)'
                and ast.unparse(body[1]) == "if not self.secret_exponent:\n    raise ValueError('Cannot sign without a secret key.')"
                and ast.unparse(body[4]) == 'return base58_encode(signature, prefix).decode()')
    if ok_frame:
        chain = curve_chain(body[2])
        if chain is not None and [c for c, _ in chain] == CURVES:
            payload = []
            for c, stmts in chain:
                kind = SIGN_BRANCH[c].get(tuple(stmts))
                if kind is None:
                    payload = None
                    status[f'Key.sign branch {c.decode()}'] = (False, 'unrecognised body: ' + ' ; '.join(stmts)[:300])
                    break
                payload.append((c, kind))
        rule = sign_prefix_rule(body[3])
        if rule is None:
            status['Key.sign prefix rule'] = (False, 'unrecognised: ' + ast.unparse(body[3])[:200])
    status['Key.sign shape'] = (ok_frame and payload is not None, 'scrub, secret check, 4-curve dispatch, prefix, base58_encode'
                                if ok_frame and payload is not None else 'unrecognised frame or dispatch')
    if rule is not None:
        status['Key.sign prefix rule'] = (True, 'generic -> ' + ', '.join(f'{c.decode()}:{rule[(c, True)].decode()}' for c in CURVES))
    out.append('/-- `Key.sign`: per curve (source order) whether the primitive signs the Blake2b-256 digest of the message (`true`) or the message itself -/')
    out.append('def signPayload : Option (List (List Nat × Bool)) := ' +
               opt(payload if ok_frame else None, lambda p: lean_list(f'({lb(c)}, {str(k).lower()})' for c, k in p)))
    out.append('/-- `Key.sign`: human prefix of the result for (curve, generic) -/')
    out.append('def signPrefix : Option (List (List Nat × Bool × List Nat)) := ' +
               opt(rule if ok_frame else None, lambda r: lean_list(f'({lb(c)}, {str(g).lower()}, {lb(p)})' for (c, g), p in r.items())))


def gen_verify(status, out):
    fn = key_method('verify')
    body = body_of(fn)
    payload, catches = None, None
    ok_frame = (len(body) == 7
                and ast.unparse(body[0]) == 'encoded_signature = scrub_input(signature)'
                and ast.unparse(body[1]) == 'encoded_message = scrub_input(message)'
                and ast.unparse(body[2]) == "if not self.public_point:\n    raise ValueError('Cannot verify without a public key.')"
                and ast.unparse(body[3]) == ("if encoded_signature[:3] != b'sig':\n    if self.curve != encoded_signature[:2]:\n"
                                             "        raise ValueError('Signature and public key curves mismatch.')")
                and ast.unparse(body[4]) == 'decoded_signature = base58_decode(encoded_signature)'
                and ast.unparse(body[6]) == 'return True')
    if ok_frame:
        chain = curve_chain(body[5])
        if chain is not None and [c for c, _ in chain] == CURVES:
            payload = []
            for c, stmts in chain:
                kind = VERIFY_BRANCH[c].get(tuple(stmts))
                if kind is None:
                    payload = None
                    status[f'Key.verify branch {c.decode()}'] = (False, 'unrecognised body: ' + ' ; '.join(stmts)[:300])
                    break
                payload.append((c, kind[0]))
                if kind[1] is not None:
                    catches = kind[1]
    good = ok_frame and payload is not None
    status['Key.verify shape'] = (good, f'scrub x2, public check, prefix/curve check, base58_decode, 4-curve dispatch; P256 catches EcdsaError: {catches}'
                                  if good else 'unrecognised frame or dispatch')
    out.append('/-- `Key.verify`: per curve whether the primitive checks the Blake2b-256 digest (`true`) or the message itself -/')
    out.append('def verifyPayload : Option (List (List Nat × Bool)) := ' +
               opt(payload if good else None, lambda p: lean_list(f'({lb(c)}, {str(k).lower()})' for c, k in p)))
    out.append('/-- does the P256 branch turn `fastecdsa.ecdsa.EcdsaError` (r or s outside [1, q-1]) into ValueError? -/')
    out.append('def verifyP256CatchesRangeError : Option Bool := ' + opt(catches if good else None, lambda b: str(b).lower()))


def gen_misc(status, out):
    enc = parse('crypto/encoding.py')
    fn = find_func(enc, 'scrub_input')
    want = ("if isinstance(v, bytes):\n    return v\nelif isinstance(v, str):\n    try:\n        return bytes.fromhex(v.removeprefix('0x'))\n"
            "    except ValueError:\n        return v.encode('ascii')\nelse:\n"
            "    raise TypeError('A bytes-like object is required (also str), not `%s`' % type(v).__name__)")
    ok = fn is not None and len(body_of(fn)) == 1 and ast.unparse(body_of(fn)[0]) == want
    status['scrub_input shape'] = (ok, 'bytes | hex-or-ascii str' if ok else 'unrecognised body')
    out.append(f'/-- `scrub_input` is the known bytes / hex-or-ascii function -/\ndef scrubRecognised : Bool := {str(ok).lower()}')

    key = parse('crypto/key.py')
    fn = find_func(key, 'blake2b_32')
    ok = fn is not None and [ast.unparse(s) for s in body_of(fn)] == ['return blake2b(scrub_input(v), digest_size=32)']
    status['blake2b_32 shape'] = (ok, 'blake2b(scrub_input(v), digest_size=32)' if ok else 'unrecognised body')
    out.append(f'/-- `blake2b_32(v)` is Blake2b with a 32-byte digest over `scrub_input(v)` -/\ndef blake2b32Recognised : Bool := {str(ok).lower()}')

    ins = parse('michelson/instructions/crypto.py')
    fn = find_func(find_class(ins, 'CheckSignatureInstruction'), 'execute')
    texts = [ast.unparse(s) for s in fn.body] if fn is not None else []
    want = ['pk, sig, msg = cast(Tuple[KeyType, SignatureType, BytesType], stack.pop3())',
            'pk.assert_type_equal(KeyType)', 'sig.assert_type_equal(SignatureType)', 'msg.assert_type_equal(BytesType)',
            'key = Key.from_encoded_key(str(pk))',
            'try:\n    key.verify(signature=str(sig), message=bytes(msg))\nexcept ValueError:\n    res = BoolType(False)\nelse:\n    res = BoolType(True)',
            'stack.push(res)', 'stdout.append(format_stdout(cls.prim, [pk, sig, msg], [res]))', 'return cls(stack_items_added=1)']
    ok = texts == want
    status['CHECK_SIGNATURE shape'] = (ok, 'from_encoded_key, verify, ValueError -> False' if ok else 'unrecognised body')
    out.append('/-- CHECK_SIGNATURE: `Key.from_encoded_key(str(pk)).verify(str(sig), bytes(msg))`, `ValueError` ↦ `False`, no exception ↦ `True` -/\n'
               f'def checkSignatureRecognised : Bool := {str(ok).lower()}')


@generator('C07')
def gen(status):
    out = []
    rows = b58_rows()
    status['base58_encodings literal'] = (rows is not None, f'{len(rows)} rows' if rows else 'not a literal list of 5-tuples')
    sig = [r for r in rows if r[0].endswith(b'sig')] if rows else []
    out.append(rows_def('sigRows', sig, 'signature kinds of `base58_encodings`: (human prefix, encoded length, binary prefix, payload length)'))
    gen_sign(status, out)
    gen_verify(status, out)
    gen_misc(status, out)
    return '\n'.join(out) + '\n'
