"""C27 — error class mapping (src/pytezos/rpc/node.py, src/pytezos/rpc/errors.py and any other module declaring
`class X(RpcError, error_id=…)`).

Extracted: the handler registry (error_id -> class name, in registration order) from every class statement with an
`error_id=` keyword under /repo/src; which of the two transcribed shapes `_gen_error_variants` has (`pinned`: id,
chunks[-2], '.'.join(chunks[2:]) — the defective order; `repaired`: id, id without `proto.<protocol>.`, final
component, category) together with its literals; and that `RpcError.from_errors` / `__init_subclass__` have the
transcribed shape.  Anything else is 'unrecognised' (`none`)."""
import ast
import os

from harness import common
from translator.c26 import _match
from translator.extract import find_class, find_func, generator, lean_bytes, lean_list, parse

REF_VARIANTS_PINNED = '''
def _gen_error_variants(error_id):
    chunks = error_id.split(STR0)
    variants = [error_id]
    if len(chunks) > 1:
        variants.append(chunks[-2])
        if len(chunks) > 2:
            variants.append(STR1.join(chunks[2:]))
    return variants
'''

REF_VARIANTS_REPAIRED = '''
def _gen_error_variants(error_id):
    chunks = error_id.split(STR0)
    if chunks[0] == STR2 and len(chunks) > 2:
        chunks = chunks[2:]
    return [error_id, STR1.join(chunks), chunks[-1], chunks[0]]
'''

REF_FROM_ERRORS = '''
def from_errors(cls, errors):
    if not errors:
        return RpcError('Unspecified error')
    error = errors[-1]
    for key in _gen_error_variants(error['id']):
        if key in cls.__handlers__:
            handler = cls.__handlers__[key]
            return handler(error)
    return RpcError(error)
'''

REF_INIT_SUBCLASS = '''
def __init_subclass__(cls, error_id):
    super().__init_subclass__()
    if isinstance(error_id, list):
        for eid in error_id:
            cls.__handlers__[eid] = cls
    else:
        cls.__handlers__[error_id] = cls
'''


def read_registry():
    """[(error_id, class name)] in registration order (files in import-independent sorted order; within a file in
    source order), or (None, why).  Only classes whose bases make them RpcError descendants are accepted."""
    root = os.path.join(common.REPO, 'src', 'pytezos')
    found = []
    for base, dirs, files in os.walk(root):
        dirs.sort()
        for fn in sorted(files):
            if not fn.endswith('.py'):
                continue
            path = os.path.join(base, fn)
            with open(path) as f:
                src = f.read()
            if 'error_id' not in src:
                continue
            tree = ast.parse(src)
            for node in ast.walk(tree):
                if not isinstance(node, ast.ClassDef):
                    continue
                kw = [k for k in node.keywords if k.arg == 'error_id']
                if not kw:
                    continue
                found.append((os.path.relpath(path, root), node, kw[0].value))
    known = {'RpcError'}
    reg = []
    pending = list(found)
    progress = True
    while pending and progress:       # a subclass of a registered class is a descendant too
        progress = False
        for item in list(pending):
            rel, node, val = item
            bases = [b.id if isinstance(b, ast.Name) else b.attr if isinstance(b, ast.Attribute) else None for b in node.bases]
            if not any(b in known for b in bases):
                continue
            if isinstance(val, ast.Constant) and isinstance(val.value, str):
                ids = [val.value]
            elif isinstance(val, ast.List) and all(isinstance(e, ast.Constant) and isinstance(e.value, str) for e in val.elts):
                ids = [e.value for e in val.elts]
            else:
                return None, f'{rel}:{node.lineno} error_id of {node.name} is not a string literal / list of string literals'
            for i in ids:
                if not i.isascii():
                    return None, f'{rel}:{node.lineno} non-ascii error_id'
                reg.append((i, node.name, rel))
            known.add(node.name)
            pending.remove(item)
            progress = True
    if pending:
        rel, node, _ = pending[0]
        return None, f'{rel}:{node.lineno} class {node.name} has error_id= but no recognised RpcError base'
    # the same key registered from two different modules: the winner depends on import order -> not decided here
    by_key = {}
    for k, name, rel in reg:
        if k in by_key and by_key[k][1] != rel and by_key[k][0] != name:
            return None, f'error_id {k!r} registered by {by_key[k][0]} ({by_key[k][1]}) and {name} ({rel})'
        by_key[k] = (name, rel)
    names = {}
    for k, name, rel in reg:
        if name in names and names[name] != rel:
            return None, f'two classes named {name}'
        names[name] = rel
    return [(k, name) for k, name, _ in reg], ''


def _opt_bytes(s):
    return 'none' if s is None else 'some ' + lean_bytes(s.encode())


@generator('C27')
def gen_c27(status):
    tree = parse('rpc/node.py')

    reg, why = read_registry()
    if reg is not None and not reg:
        reg, why = None, 'no class with error_id= found'
    status['handler registry'] = (reg is not None, why or ', '.join(f'{k}->{n}' for k, n in reg))

    shape = sep = proto = None
    fn = find_func(tree, '_gen_error_variants')
    if fn is None:
        status['_gen_error_variants shape'] = (False, 'function not found')
    else:
        ok_p, f_p, _, _ = _match(fn, REF_VARIANTS_PINNED, {'STR0': str, 'STR1': str})
        ok_r, f_r, _, detail = _match(fn, REF_VARIANTS_REPAIRED, {'STR0': str, 'STR1': str, 'STR2': str})
        if ok_p and f_p['STR0'] == f_p['STR1'] and len(f_p['STR0']) == 1 and f_p['STR0'].isascii():
            shape, sep = 'pinned', f_p['STR0']
        elif ok_r and f_r['STR0'] == f_r['STR1'] and len(f_r['STR0']) == 1 and f_r['STR0'].isascii() and f_r['STR2'].isascii():
            shape, sep, proto = 'repaired', f_r['STR0'], f_r['STR2']
        status['_gen_error_variants shape'] = (shape is not None, {
            'pinned': "[id, chunks[-2], '.'.join(chunks[2:])]",
            'repaired': "[id, id without proto.<protocol>., chunks[-1], chunks[0]]"}.get(shape, detail))

    err_cls = find_class(tree, 'RpcError')
    fe_ok = is_ok = False
    fn = find_func(err_cls, 'from_errors') if err_cls is not None else None
    if fn is None:
        status['RpcError.from_errors shape'] = (False, 'method not found')
    else:
        fe_ok, _, _, detail = _match(fn, REF_FROM_ERRORS, {})
        status['RpcError.from_errors shape'] = (fe_ok, detail or 'empty -> unspecified; last error; first variant in __handlers__; else RpcError')
    fn = find_func(err_cls, '__init_subclass__') if err_cls is not None else None
    if fn is None:
        status['RpcError.__init_subclass__ shape'] = (False, 'method not found')
    else:
        is_ok, _, _, detail = _match(fn, REF_INIT_SUBCLASS, {})
        status['RpcError.__init_subclass__ shape'] = (is_ok, detail or '__handlers__[eid] = cls for each id (later registration wins)')

    out = []
    classes = []
    for _, n in (reg or []):
        if n not in classes:
            classes.append(n)
    if classes:
        out.append('/-- the classes declared with `error_id=` -/\ninductive Cls\n' + ''.join(f'  | {n}\n' for n in classes) + '  deriving DecidableEq, Repr')
        out.append('def Cls.name : Cls → String\n' + ''.join(f'  | .{n} => "{n}"\n' for n in classes))
    else:
        out.append('inductive Cls\n  | unrecognised\n  deriving DecidableEq, Repr')
        out.append('def Cls.name : Cls → String\n  | .unrecognised => "?"\n')
    if reg is None or not (is_ok):
        out.append('/-- `RpcError.__handlers__` after all modules are imported, in registration order -/\ndef registry : Option (List (List Nat × Cls)) := none')
    else:
        rows = ',\n  '.join(f'({lean_bytes(k.encode())}, Cls.{n})  /- {k} -/' for k, n in reg)
        out.append('/-- `RpcError.__handlers__` after all modules are imported, in registration order (ascii codes) -/\n'
                   f'def registry : Option (List (List Nat × Cls)) := some [\n  {rows}]')
    out.append('inductive VariantShape\n  | pinned     -- [id, chunks[-2], join chunks[2:]]\n  | repaired   -- [id, id without proto.<protocol>., chunks[-1], chunks[0]]\n  deriving DecidableEq, Repr')
    out.append(f'def variantShape : Option VariantShape := {"none" if shape is None else "some ." + shape}')
    out.append(f"/-- separator of `split` / `join`: {sep!r} -/\ndef separator : Option Nat := {'none' if sep is None else 'some ' + str(ord(sep))}")
    out.append(f'/-- first chunk of ids carrying a protocol prefix (repaired shape only): {proto!r} -/\ndef protoLiteral : Option (List Nat) := {_opt_bytes(proto)}')
    out.append(f'/-- `RpcError.from_errors` has the transcribed shape -/\ndef fromErrorsRecognised : Bool := {str(fe_ok).lower()}')
    return '\n'.join(out) + '\n'
