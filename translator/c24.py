"""C24 — fee arithmetic of operation/fees.py and the fee/limit distribution of OperationGroup.fill / autofill.

Extracted (nothing is guessed; an unrecognised construct gives `none` and a failed status line):
  fees.py      MINIMAL_FEES, MINIMAL_MUTEZ_PER_BYTE, int(MINIMAL_MUTEZ_PER_GAS_UNIT * 1000) (evaluated with CPython
               floats, exactly as the code does), the shape of calculate_fee (divisor 1000, default reserve),
               default_fee's extra_size literals (branch, signature allowance per source kind, slack),
               DEFAULT_CONSTANTS, the default gas / storage limit tables
  group.py     fill: key order of replace_map, per-content hard limit split, limit lambdas, the fee lambda
               (first content only with the default gas  |  every content with its own gas limit);
               autofill: extra_size (branch + signature allowance), `1 + extra_size // num_contents`, reserves
               and the kinds they apply to, `fee_acc` put on the first content
  result.py    consumed_gas = sum(ceil(milligas / 1000)), burned = 257 per allocation
  __init__.py  DEFAULT_GAS_RESERVE, DEFAULT_BURN_RESERVE
"""
import ast

from translator.extract import find_assign, find_class, find_func, generator, lean_list, lean_str, parse, strip_docstring

LIMIT_DECL = '''/-- how one row of `default_gas_limit` / `default_storage_limit` is computed -/
inductive Limit where
  | const (n : Nat)                                  -- a literal / module constant
  | hard                                             -- int(constants['hard_..._limit_per_operation'])
  | hardIfKT (otherwise : Nat)                       -- hard limit if destination starts with 'KT' else the constant
  | bySourcePrefix (table : List (String × Nat))     -- {...}[content['source'][:3]]   (KeyError if absent)
  deriving Repr, DecidableEq

/-- which contents get `default_fee` in `fill` and which gas amount it is computed from -/
inductive FillFee where
  | firstOnlyDefaultGas     -- `default_fee(x, gas_limit, …) if i == 0 else 0`  (pinned: the batch is not paid for)
  | everyOwnGas             -- `default_fee(x, int(x['gas_limit']), …)` for every content
  deriving Repr, DecidableEq
'''


def _u(node):
    return ast.unparse(node).replace(' ', '').replace('\n', '')


def _opt(v):
    return 'none' if v is None else f'some {v}'


def _int_const(tree, name):
    v = find_assign(tree, name)
    if isinstance(v, ast.Constant) and isinstance(v.value, int) and not isinstance(v.value, bool):
        return v.value
    return None


def _sum_terms(node):
    """flatten a + b + c"""
    if isinstance(node, ast.BinOp) and isinstance(node.op, ast.Add):
        return _sum_terms(node.left) + _sum_terms(node.right)
    return [node]


def _lit(node):
    """int literal or a product of int literals"""
    if isinstance(node, ast.Constant) and isinstance(node.value, int) and not isinstance(node.value, bool):
        return node.value
    if isinstance(node, ast.BinOp) and isinstance(node.op, ast.Mult):
        a, b = _lit(node.left), _lit(node.right)
        return None if a is None or b is None else a * b
    return None


def _signature_size_table(fees):
    """`def signature_size(source): return 96 if source.startswith('tz4') else 64` -> (64, 96)"""
    fn = find_func(fees, 'signature_size')
    if fn is None:
        return None
    body = strip_docstring(fn.body)
    if len(body) != 1 or not isinstance(body[0], ast.Return) or len(fn.args.args) != 1:
        return None
    arg = fn.args.args[0].arg
    e = body[0].value
    if isinstance(e, ast.IfExp) and _u(e.test) == f"{arg}.startswith('tz4')":
        a, b = _lit(e.body), _lit(e.orelse)
        if a is not None and b is not None:
            return (b, a)
    return None


def _sig_allowance(node, fees, source_exprs):
    """a term standing for the signature size: literal n -> (n, n); signature_size(<source expr>) -> table"""
    n = _lit(node)
    if n is not None:
        return (n, n)
    if isinstance(node, ast.Call) and _u(node.func) == 'signature_size' and len(node.args) == 1 and not node.keywords \
            and _u(node.args[0]) in source_exprs:
        return _signature_size_table(fees)
    return None


def _limit_table(fn, which, consts):
    """the `values` dict of default_gas_limit / default_storage_limit"""
    body = strip_docstring(fn.body)
    texts = [_u(s) for s in body]
    if len(body) != 3 or texts[0] != 'ifconstantsisNone:constants=DEFAULT_CONSTANTS' or texts[2] != "returnvalues[content['kind']]":
        return None
    st = body[1]
    val = st.value if isinstance(st, (ast.AnnAssign, ast.Assign)) else None
    tgt = st.target if isinstance(st, ast.AnnAssign) else (st.targets[0] if isinstance(st, ast.Assign) else None)
    if not isinstance(val, ast.Dict) or _u(tgt) != 'values':
        return None
    hard = f"int(constants['hard_{which}_limit_per_operation'])"
    rows = []
    for k, v in zip(val.keys, val.values):
        if not (isinstance(k, ast.Constant) and isinstance(k.value, str)):
            return None
        t = _u(v)
        if t == hard:
            rows.append((k.value, '.hard'))
        elif isinstance(v, ast.Constant) and isinstance(v.value, int):
            rows.append((k.value, f'.const {v.value}'))
        elif isinstance(v, ast.Name) and consts.get(v.id) is not None:
            rows.append((k.value, f'.const {consts[v.id]}'))
        elif isinstance(v, ast.IfExp) and _u(v.test) == "content.get('destination','').startswith('KT')" and _u(v.body) == hard:
            o = v.orelse
            n = o.value if isinstance(o, ast.Constant) and isinstance(o.value, int) else consts.get(getattr(o, 'id', None))
            if n is None:
                return None
            rows.append((k.value, f'.hardIfKT {n}'))
        elif isinstance(v, ast.Subscript) and isinstance(v.value, ast.Dict) and _u(v.slice) == "content['source'][:3]":
            tbl = []
            for kk, vv in zip(v.value.keys, v.value.values):
                if not (isinstance(kk, ast.Constant) and isinstance(kk.value, str) and isinstance(vv, ast.Constant) and isinstance(vv.value, int)):
                    return None
                tbl.append(f'({lean_str(kk.value)}, {vv.value})')
            rows.append((k.value, f'.bySourcePrefix {lean_list(tbl)}'))
        else:
            return None
    return lean_list(f'({lean_str(k)}, {v})' for k, v in rows)


@generator('C24')
def gen_c24(status):
    out = [LIMIT_DECL]
    fees = parse('operation/fees.py')
    group = parse('operation/group.py')
    result = parse('operation/result.py')
    opinit = parse('operation/__init__.py')

    # ---- fees.py constants --------------------------------------------------------------------------------
    minimal_fees = _int_const(fees, 'MINIMAL_FEES')
    per_byte = _int_const(fees, 'MINIMAL_MUTEZ_PER_BYTE')
    g = find_assign(fees, 'MINIMAL_MUTEZ_PER_GAS_UNIT')
    per_gas = g.value if isinstance(g, ast.Constant) and isinstance(g.value, (int, float)) and not isinstance(g.value, bool) else None
    consts = {n: _int_const(fees, n) for n in ('DEFAULT_TRANSACTION_GAS_LIMIT', 'DEFAULT_TRANSACTION_STORAGE_LIMIT')}
    dc = find_assign(fees, 'DEFAULT_CONSTANTS')
    dconst = {}
    if isinstance(dc, ast.Dict):
        for k, v in zip(dc.keys, dc.values):
            if isinstance(k, ast.Constant) and isinstance(v, ast.Constant) and isinstance(v.value, int):
                dconst[k.value] = v.value
    status['fees.py constants'] = (None not in (minimal_fees, per_byte, per_gas) and None not in consts.values()
                                   and {'hard_gas_limit_per_operation', 'hard_storage_limit_per_operation'} <= set(dconst),
                                   f'MINIMAL_FEES={minimal_fees} PER_BYTE={per_byte} PER_GAS={per_gas} {consts} {dconst}')

    # ---- calculate_fee -------------------------------------------------------------------------------------
    cf = find_func(fees, 'calculate_fee')
    body = [_u(s) for s in strip_docstring(cf.body)]
    want = ['size=len(forge_operation(content))+extra_size',
            'ifminimal_nanotez_per_gas_unitisNone:minimal_nanotez_per_gas_unit=int(MINIMAL_MUTEZ_PER_GAS_UNIT*1000)',
            'fee=MINIMAL_FEES+MINIMAL_MUTEZ_PER_BYTE*size+int(minimal_nanotez_per_gas_unit*consumed_gas/1000)',
            'returnfee+reserve']
    shape_ok = body == want
    names = [a.arg for a in cf.args.args]
    defaults = dict(zip(names[len(names) - len(cf.args.defaults):], cf.args.defaults))
    reserve = _lit(defaults.get('reserve')) if 'reserve' in defaults else None
    status['calculate_fee shape'] = (shape_ok and reserve is not None, 'recognised' if shape_ok else 'unrecognised body: ' + ' | '.join(body)[:400])
    nanotez = int(per_gas * 1000) if (shape_ok and per_gas is not None) else None   # CPython float product, then int()
    out.append(f'def minimalFees : Option Nat := {_opt(minimal_fees if shape_ok else None)}')
    out.append(f'def mutezPerByte : Option Nat := {_opt(per_byte if shape_ok else None)}')
    out.append(f'/-- `int(MINIMAL_MUTEZ_PER_GAS_UNIT * 1000)` with MINIMAL_MUTEZ_PER_GAS_UNIT = {per_gas!r} -/')
    out.append(f'def nanotezPerGas : Option Nat := {_opt(nanotez)}')
    out.append(f'/-- divisor of `int(nanotez * gas / 1000)` (a float division) -/\ndef feeDivisor : Option Nat := {_opt(1000 if shape_ok else None)}')
    out.append(f'def reserve : Option Nat := {_opt(reserve if shape_ok else None)}')
    out.append(f"def defaultHardGas : Option Nat := {_opt(dconst.get('hard_gas_limit_per_operation'))}")
    out.append(f"def defaultHardStorage : Option Nat := {_opt(dconst.get('hard_storage_limit_per_operation'))}")

    # ---- default limit tables ------------------------------------------------------------------------------
    gt = _limit_table(find_func(fees, 'default_gas_limit'), 'gas', consts)
    stt = _limit_table(find_func(fees, 'default_storage_limit'), 'storage', consts)
    status['default_gas_limit table'] = (gt is not None, 'recognised' if gt else 'unrecognised: ' + ast.unparse(find_func(fees, 'default_gas_limit'))[:300])
    status['default_storage_limit table'] = (stt is not None, 'recognised' if stt else 'unrecognised')
    out.append(f'def gasTable : Option (List (String × Limit)) := {_opt(gt)}')
    out.append(f'def storageTable : Option (List (String × Limit)) := {_opt(stt)}')

    # ---- default_fee ---------------------------------------------------------------------------------------
    df = find_func(fees, 'default_fee')
    dbody = strip_docstring(df.body)
    branch = sig = slack = None
    if len(dbody) == 1 and isinstance(dbody[0], ast.Return) and isinstance(dbody[0].value, ast.Call) and _u(dbody[0].value.func) == 'calculate_fee':
        kw = {k.arg: k.value for k in dbody[0].value.keywords}
        if not dbody[0].value.args and set(kw) == {'content', 'consumed_gas', 'extra_size', 'minimal_nanotez_per_gas_unit'} \
                and _u(kw['content']) == 'content' and _u(kw['minimal_nanotez_per_gas_unit']) == 'minimal_nanotez_per_gas_unit' \
                and _u(kw['consumed_gas']) == 'gas_limitifgas_limitisnotNoneelsedefault_gas_limit(content)':
            terms = _sum_terms(kw['extra_size'])
            if len(terms) == 3:
                branch, slack = _lit(terms[0]), _lit(terms[2])
                sig = _sig_allowance(terms[1], fees, {"content['source']", "content.get('source','')"})
    ok = None not in (branch, sig, slack)
    status['default_fee extra_size'] = (ok, f'branch={branch} signature={sig} slack={slack}' if ok else 'unrecognised: ' + ast.unparse(df)[-400:])
    out.append(f'/-- `extra_size` of default_fee: branch + signature allowance + slack for the growing mutez fields -/')
    out.append(f'def feeBranch : Option Nat := {_opt(branch if ok else None)}')
    out.append(f'/-- signature bytes allowed for by default_fee: (source other than tz4, tz4 source) -/')
    out.append(f'def feeSigAllowance : Option (Nat × Nat) := {_opt(f"({sig[0]}, {sig[1]})" if ok else None)}')
    out.append(f'def feeSlack : Option Nat := {_opt(slack if ok else None)}')

    # ---- OperationGroup.fill -------------------------------------------------------------------------------
    cls = find_class(group, 'OperationGroup')
    fill = find_func(cls, 'fill')
    rm = None
    for s in fill.body:
        if isinstance(s, ast.Assign) and _u(s.targets[0]) == 'replace_map' and isinstance(s.value, ast.Dict):
            rm = s.value
    texts = [_u(s) for s in fill.body]
    split_ok = all(t in texts for t in (
        "ifgas_limitisNone:hard_gas_limit_per_content=int(constants['hard_gas_limit_per_operation'])//len(self.contents)"
        "else:hard_gas_limit_per_content=gas_limit//len(self.contents)",
        "ifstorage_limitisNone:hard_storage_limit_per_content=int(constants['hard_storage_limit_per_operation'])//len(self.contents)"
        "else:hard_storage_limit_per_content=storage_limit//len(self.contents)",
        'constants=self.shell.head.context.constants()'))
    keys, fee_shape, lim_ok = None, None, False
    if rm is not None and all(isinstance(k, ast.Constant) for k in rm.keys):
        keys = [k.value for k in rm.keys]
        ent = dict(zip(keys, rm.values))
        lim_ok = (_u(ent.get('gas_limit', ast.Constant(0))) ==
                  'lambdai,x:str(min(hard_gas_limit_per_content,gas_limitifgas_limitisnotNoneelsedefault_gas_limit(x,constants)))'
                  and _u(ent.get('storage_limit', ast.Constant(0))) ==
                  'lambdai,x:str(min(hard_storage_limit_per_content,storage_limitifstorage_limitisnotNoneelsedefault_storage_limit(x,constants)))'
                  and _u(ent.get('counter', ast.Constant(0))) == 'lambdai,x:str(self.context.get_counter())'
                  and _u(ent.get('source', ast.Constant(0))) == 'source')
        fee = _u(ent.get('fee', ast.Constant(0)))
        if fee == 'lambdai,x:str(default_fee(x,gas_limit,minimal_nanotez_per_gas_unit)ifi==0else0)':
            fee_shape = '.firstOnlyDefaultGas'
        elif fee == "lambdai,x:str(default_fee(x,int(x['gas_limit']),minimal_nanotez_per_gas_unit))":
            fee_shape = '.everyOwnGas'
    fc = find_func(fill, 'fill_content')
    fc_ok = fc is not None and [_u(s) for s in fc.body] == [
        'content=content.copy()',
        "fork,vinreplace_map.items():ifcontent.get(k)in['','0']:content[k]=v(idx,content)ifcallable(v)elsev",
        'returncontent']
    order_ok = keys is not None and all(k in keys for k in ('source', 'counter', 'gas_limit', 'storage_limit', 'fee')) \
        and all(keys.index(k) < keys.index('fee') for k in ('source', 'counter', 'gas_limit', 'storage_limit'))
    ok = bool(split_ok and lim_ok and fc_ok and order_ok and fee_shape)
    status['OperationGroup.fill shape'] = (ok, f'fee lambda {fee_shape}; keys {keys}' if ok else
                                           f'split_ok={split_ok} limits_ok={lim_ok} fill_content_ok={fc_ok} order_ok={order_ok} fee={fee_shape}')
    out.append('/-- keys of `replace_map` in insertion order: the fee is computed after source, counter and both limits are filled -/')
    out.append(f'def fillKeyOrder : Option (List String) := {_opt(lean_list(lean_str(k) for k in keys) if ok else None)}')
    out.append(f'def fillFee : Option FillFee := {_opt(fee_shape if ok else None)}')

    # ---- OperationGroup.autofill ---------------------------------------------------------------------------
    af = find_func(cls, 'autofill')
    names = [a.arg for a in af.args.args]
    adef = dict(zip(names[len(names) - len(af.args.defaults):], af.args.defaults))
    reserves = {n: _int_const(opinit, n) for n in ('DEFAULT_GAS_RESERVE', 'DEFAULT_BURN_RESERVE')}
    res_ok = _u(adef.get('gas_reserve', ast.Constant(0))) == 'DEFAULT_GAS_RESERVE' and _u(adef.get('burn_reserve', ast.Constant(0))) == 'DEFAULT_BURN_RESERVE' \
        and None not in reserves.values()
    a_branch = a_sig = None
    loop = None
    texts = []
    for s in af.body:
        texts.append(_u(s))
        if isinstance(s, ast.Assign) and _u(s.targets[0]) == 'extra_size':
            terms = _sum_terms(s.value)
            if len(terms) == 2:
                a_branch = _lit(terms[0])
                a_sig = _sig_allowance(terms[1], fees, {'self.key.public_key_hash()', 'source'})
        if isinstance(s, ast.For) and _u(s.iter) == "opg_with_metadata['contents']":
            loop = s
    pre_ok = all(t in texts for t in ('opg=self.fill(counter=counter,ttl=ttl)', 'opg_with_metadata=opg.run()', 'fee_acc=0',
                                      "num_contents=len(opg_with_metadata['contents'])",
                                      'counter_offset=self.context.get_counter_offset()', 'opg.contents.clear()',
                                      "iffeeorfee_acc:opg.contents[0]['fee']=str(feeiffeeisnotNoneelsefee_acc)", 'returnopg'))
    loop_ok = False
    plus = None
    kinds = None
    if loop is not None and len(loop.body) >= 1 and isinstance(loop.body[0], ast.If) \
            and _u(loop.body[0].test) == "validation_passes[content['kind']]==3":
        inner = loop.body[0].body
        it = [_u(s) for s in inner]
        want_inner = [
            "ifgas_limitisnotNone:gas_limit_new=gas_limit//num_contents"
            "else:gas_limit_new=OperationResult.consumed_gas(content)\nifcontent['kind']in['origination','transaction']:gas_limit_new+=gas_reserve".replace('\n', ''),
            "ifstorage_limitisnotNone:storage_limit_new=storage_limit//num_contents"
            "else:paid_storage_size_diff=OperationResult.paid_storage_size_diff(content)burned=OperationResult.burned(content)"
            "storage_limit_new=paid_storage_size_diff+burnedifcontent['kind']in['origination','transaction']:storage_limit_new+=burn_reserve",
            "current_counter=int(content['counter'])",
            "content.update(counter=str(current_counter+counter_offset),gas_limit=str(gas_limit_new),storage_limit=str(storage_limit_new),fee='0')",
        ]
        if len(it) == 5 and it[:4] == want_inner:
            last = inner[4]
            if isinstance(last, ast.AugAssign) and _u(last.target) == 'fee_acc' and isinstance(last.op, ast.Add) \
                    and isinstance(last.value, ast.Call) and _u(last.value.func) == 'calculate_fee' \
                    and [_u(a) for a in last.value.args] == ['content', 'gas_limit_new'] and len(last.value.keywords) == 1 \
                    and last.value.keywords[0].arg == 'extra_size':
                e = last.value.keywords[0].value
                if isinstance(e, ast.BinOp) and isinstance(e.op, ast.Add) and _lit(e.left) is not None and _u(e.right) == 'extra_size//num_contents':
                    plus = _lit(e.left)
                    kinds = ['origination', 'transaction']
                    loop_ok = True
        rest = [_u(s) for s in loop.body[1:] if not (isinstance(s, ast.Expr) and _u(s).startswith('logger.'))]
        loop_ok = loop_ok and rest == ["content.pop('metadata')", 'opg.contents.append(content)']
    ok = bool(res_ok and pre_ok and loop_ok and a_branch is not None and a_sig is not None)
    status['OperationGroup.autofill shape'] = (ok, f'branch={a_branch} signature={a_sig} plus={plus}' if ok else
                                               f'reserves_ok={res_ok} prelude_ok={pre_ok} loop_ok={loop_ok} branch={a_branch} sig={a_sig}')
    out.append('/-- autofill: `extra_size = branch + signature allowance`; each content is charged `autoPlus + extra_size // n` extra bytes -/')
    out.append(f'def autoBranch : Option Nat := {_opt(a_branch if ok else None)}')
    out.append(f'def autoSigAllowance : Option (Nat × Nat) := {_opt(f"({a_sig[0]}, {a_sig[1]})" if ok else None)}')
    out.append(f'def autoPlus : Option Nat := {_opt(plus if ok else None)}')
    out.append(f"def gasReserve : Option Nat := {_opt(reserves['DEFAULT_GAS_RESERVE'] if ok else None)}")
    out.append(f"def burnReserve : Option Nat := {_opt(reserves['DEFAULT_BURN_RESERVE'] if ok else None)}")
    out.append(f'def reserveKinds : Option (List String) := {_opt(lean_list(lean_str(k) for k in kinds) if ok else None)}')

    # ---- OperationResult -----------------------------------------------------------------------------------
    orc = find_class(result, 'OperationResult')
    cg = _u(strip_docstring(find_func(orc, 'consumed_gas').body)[0])
    bu = _u(strip_docstring(find_func(orc, 'burned').body)[0])
    ps = _u(strip_docstring(find_func(orc, 'paid_storage_size_diff').body)[0])
    cg_ok = cg == "returnsum(map(lambdax:math.ceil(int(x.get('consumed_milligas','0'))/1000),OperationResult.iter_results(operation_group)))"
    ps_ok = ps == "returnsum(map(lambdax:int(x.get('paid_storage_size_diff','0')),OperationResult.iter_results(operation_group)))"
    burned = None
    pre = "returnsum(map(lambdax:"
    post = "ifx.get('allocated_destination_contract')orx.get('originated_contracts')else0,OperationResult.iter_results(operation_group)))"
    if bu.startswith(pre) and bu.endswith(post) and bu[len(pre):-len(post)].isdigit():
        burned = int(bu[len(pre):-len(post)])
    ok = cg_ok and ps_ok and burned is not None
    status['OperationResult consumed_gas/burned'] = (ok, f'ceil(milligas/1000), burned={burned}' if ok else f'{cg} | {bu} | {ps}'[:400])
    out.append(f'/-- consumed_gas: sum of ceil(milligas / milligasDivisor) over the results (float division) -/')
    out.append(f'def milligasDivisor : Option Nat := {_opt(1000 if ok else None)}')
    out.append(f'def burnedPerAllocation : Option Nat := {_opt(burned if ok else None)}')
    return '\n'.join(out) + '\n'
