import ast

from translator.extract import find_assign, find_func, generator, lean_list, lean_str, parse


@generator('C05')
def gen(status):
    out = []
    # --- prim_tags table (source order; a dict literal keeps the last of duplicate keys)
    tags = parse('michelson/tags.py')
    d = find_assign(tags, 'prim_tags')
    rows = []
    ok = isinstance(d, ast.Dict)
    if ok:
        for k, v in zip(d.keys, d.values):
            if isinstance(k, ast.Constant) and isinstance(k.value, str) and isinstance(v, ast.Constant) \
                    and isinstance(v.value, bytes) and len(v.value) == 1:
                rows.append((k.value, v.value[0]))
            else:
                ok = False
    names = [r[0] for r in rows]
    if len(set(names)) != len(names):
        ok = False
    status['prim_tags dict literal'] = (ok, f'{len(rows)} rows' if ok else 'not a literal dict of str -> 1-byte constants with unique keys')
    if ok:
        out.append('def primTags : Option (List (String × Nat)) := some ' + lean_list(f'({lean_str(n)}, {t})' for n, t in rows))
    else:
        out.append('def primTags : Option (List (String × Nat)) := none')

    # --- prim_int comprehension: which tags are left out of the decoding table
    forge = parse('michelson/forge.py')
    pi = find_assign(forge, 'prim_int')
    excl = None
    if isinstance(pi, ast.DictComp) and len(pi.generators) == 1:
        g = pi.generators[0]
        shape = (ast.unparse(pi.key), ast.unparse(pi.value), ast.unparse(g.target), ast.unparse(g.iter))
        if shape == ('v[0]', 'k', '(k, v)', 'prim_tags.items()'):
            if not g.ifs:
                excl = []
            elif len(g.ifs) == 1:
                c = g.ifs[0]
                # accepted filters:  v != b'\xee'   |   v[0] != 0xee
                if isinstance(c, ast.Compare) and len(c.ops) == 1 and isinstance(c.ops[0], ast.NotEq) and isinstance(c.comparators[0], ast.Constant):
                    lhs, rhs = ast.unparse(c.left), c.comparators[0].value
                    if lhs == 'v' and isinstance(rhs, bytes) and len(rhs) == 1:
                        excl = [rhs[0]]
                    elif lhs == 'v[0]' and isinstance(rhs, int):
                        excl = [rhs]
    status['prim_int comprehension'] = (excl is not None, f'excluded tags {excl}' if excl is not None else 'unrecognised: ' + ast.unparse(pi)[:200] if pi is not None else 'missing')
    out.append('/-- tags filtered out when `prim_int` (tag → primitive) is built -/')
    out.append('def primIntExcluded : Option (List Nat) := ' + ('none' if excl is None else 'some ' + lean_list(map(str, excl))))

    # --- unforge_int: does it reject a multi-byte encoding whose last byte is zero?
    fn = find_func(forge, 'unforge_int')
    strict = None
    body = [s for s in fn.body if not (isinstance(s, ast.Expr) and isinstance(s.value, ast.Constant))]
    src = [ast.unparse(s) for s in body]
    base = ['value = 0', 'length = 1',
            'while data[length - 1] & 128 != 0:\n    length += 1',
            'for i in range(length - 1, 0, -1):\n    value <<= 7\n    value |= data[i] & 127',
            'value <<= 6', 'value |= data[0] & 63',
            'if data[0] & 64 != 0:\n    value = -value', 'return (value, length)']
    if src == base:
        strict = False
    elif len(src) == len(base) + 1 and src[:3] == base[:3] and src[4:] == base[3:]:
        chk = body[3]
        if isinstance(chk, ast.If) and not chk.orelse and len(chk.body) == 1 and isinstance(chk.body[0], ast.Raise) \
                and ast.unparse(chk.test) in ('length > 1 and data[length - 1] == 0', 'length > 1 and (not data[length - 1])'):
            strict = True
    status['unforge_int shape'] = (strict is not None, f'strict={strict}' if strict is not None else 'unrecognised body')
    out.append('/-- does `unforge_int` reject multi-byte encodings ending in a zero byte (non-minimal)? -/')
    out.append('def unforgeIntStrict : Option Bool := ' + ('none' if strict is None else f'some {str(strict).lower()}'))
    return '\n'.join(out) + '\n'
