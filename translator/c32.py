"""C32 — michelson/sections/view.py: what `ViewSection.check_code` forbids where, what opens a lambda body,
and the checks `ViewSection.create_type` makes on the view name.

Extracted (never guessed; anything unrecognised -> `none` + a failed status):
* the always-forbidden prims (`if code.prim == 'SELF'` / `in (...)`) and the prims forbidden outside lambdas
  (`if code.prim in (...) and not lambda_`);
* the prims that set `lambda_` for all their arguments (`lambda_ |= code.prim in (...)`);
* the optional PUSH rule `if code.prim == 'PUSH': lambda_ |= ViewSection.has_lambda_type(code.args[0])` together with
  the prim `has_lambda_type` searches for;
* the name length bound (`len(name) >= 32`) and the character rule: a `re.fullmatch(r'[...]*', name)` character class
  (as code-point ranges), or the fact that there is no character check at all.
"""
import ast
import re

from translator.extract import find_class, find_func, generator, lean_list, lean_str, parse, strip_docstring


def _n(node):
    return ast.unparse(node).replace(' ', '')


def _str_tuple(node):
    """('A', 'B') / ['A'] / 'A' -> list of str, else None"""
    if isinstance(node, ast.Constant) and isinstance(node.value, str):
        return [node.value]
    if isinstance(node, (ast.Tuple, ast.List, ast.Set)) and all(isinstance(e, ast.Constant) and isinstance(e.value, str) for e in node.elts):
        return [e.value for e in node.elts]
    return None


def _prim_test(test):
    """`code.prim == 'X'` or `code.prim in (...)` -> list of prims"""
    if isinstance(test, ast.Compare) and _n(test.left) == 'code.prim' and len(test.ops) == 1:
        if isinstance(test.ops[0], ast.Eq):
            v = test.comparators[0]
            return [v.value] if isinstance(v, ast.Constant) and isinstance(v.value, str) else None
        if isinstance(test.ops[0], ast.In):
            return _str_tuple(test.comparators[0])
    return None


def _is_raise(body):
    return len(body) == 1 and isinstance(body[0], ast.Raise) and body[0].exc is not None and _n(body[0].exc).startswith('MichelsonRuntimeError(')


def parse_char_class(pattern):
    """r'[a-zA-Z0-9_.%@]*' -> [(lo, hi), ...] code-point ranges; None when it is anything else"""
    m = re.fullmatch(r'\[((?:[^\]\\^]|\\[.\-_%@])+)\]\*', pattern)
    if not m:
        return None
    body = m.group(1)
    toks = []
    i = 0
    while i < len(body):
        if body[i] == '\\':
            toks.append(body[i + 1])
            i += 2
        else:
            toks.append(body[i])
            i += 1
    ranges = []
    i = 0
    while i < len(toks):
        if i + 2 < len(toks) and toks[i + 1] == '-':
            lo, hi = ord(toks[i]), ord(toks[i + 2])
            if lo > hi:
                return None
            ranges.append((lo, hi))
            i += 3
        else:
            if toks[i] == '-' and 0 < i < len(toks) - 1:
                return None
            ranges.append((ord(toks[i]), ord(toks[i])))
            i += 1
    return sorted(set(ranges))


@generator('C32')
def gen_c32(status):
    tree = parse('michelson/sections/view.py')
    cls = find_class(tree, 'ViewSection')
    out = ['structure CodeShape where\n  always : List String\n  outside : List String\n  openers : List String\n'
           '  pushRule : Option (String × String)\n  deriving Repr, DecidableEq\n',
           'structure NameShape where\n  tooLong : Nat\n  charRanges : Option (List (Nat × Nat))\n  deriving Repr, DecidableEq\n']

    # ---- check_code
    shape, detail = None, ''
    try:
        fn = find_func(cls, 'check_code')
        assert fn is not None, 'check_code missing'
        assert [a.arg for a in fn.args.args] == ['code', 'lambda_'], 'signature'
        body = strip_docstring(fn.body)
        assert len(body) in (4, 5), f'{len(body)} statements'
        s0, s1, s2 = body[0], body[1], body[2]
        assert isinstance(s0, ast.If) and not s0.orelse and _is_raise(s0.body), 'first statement: unconditional rejection'
        always = _prim_test(s0.test)
        assert always is not None, 'always-forbidden test: ' + _n(s0.test)
        assert isinstance(s1, ast.If) and not s1.orelse and _is_raise(s1.body), 'second statement: rejection outside lambdas'
        t = s1.test
        assert isinstance(t, ast.BoolOp) and isinstance(t.op, ast.And) and len(t.values) == 2 and _n(t.values[1]) == 'notlambda_', \
            'outside-lambda test: ' + _n(t)
        outside = _prim_test(t.values[0])
        assert outside is not None, 'outside-lambda prims: ' + _n(t.values[0])
        assert isinstance(s2, ast.AugAssign) and isinstance(s2.op, ast.BitOr) and _n(s2.target) == 'lambda_', 'lambda_ |= ...: ' + _n(s2)
        openers = _prim_test(s2.value)
        assert openers is not None and isinstance(s2.value.ops[0], ast.In), 'lambda openers: ' + _n(s2.value)
        push = None
        rest = body[3:]
        if len(rest) == 2:
            pr = rest[0]
            assert isinstance(pr, ast.If) and not pr.orelse and len(pr.body) == 1, 'push rule: ' + _n(pr)
            pp = _prim_test(pr.test)
            assert pp is not None and len(pp) == 1 and isinstance(pr.test.ops[0], ast.Eq), 'push rule test: ' + _n(pr.test)
            assert _n(pr.body[0]) == 'lambda_|=ViewSection.has_lambda_type(code.args[0])', 'push rule body: ' + _n(pr.body[0])
            hl = find_func(cls, 'has_lambda_type')
            assert hl is not None and [a.arg for a in hl.args.args] == ['type_expr'], 'has_lambda_type missing'
            hb = strip_docstring(hl.body)
            m = re.fullmatch(r"returntype_expr\.prim=='(\w+)'orany\(\(?ViewSection\.has_lambda_type\(arg\)forargintype_expr\.args\)?\)",
                             _n(hb[0])) if len(hb) == 1 else None
            assert m, 'has_lambda_type body: ' + '; '.join(_n(s) for s in hb)
            push = (pp[0], m.group(1))
            rest = rest[1:]
        loop = rest[0]
        assert isinstance(loop, ast.For) and _n(loop.target) == 'arg' and _n(loop.iter) == "getattr(code,'args',())" and not loop.orelse \
            and [_n(s) for s in loop.body] == ['ViewSection.check_code(arg,lambda_)'], 'recursion over args: ' + _n(loop)
        shape = dict(always=sorted(set(always)), outside=sorted(set(outside)), openers=sorted(set(openers)), push=push)
        # where it is called from: create_type checks args[3] with lambda_=False
        ct = find_func(cls, 'create_type')
        calls = [_n(s) for s in ast.walk(ct) if isinstance(s, ast.Expr) and 'check_code' in _n(s)]
        assert calls == ['cls.check_code(args[3],lambda_=False)'], 'call site: ' + str(calls)
    except AssertionError as e:
        shape, detail = None, f'unrecognised: {e}'
    status['check_code shape'] = (shape is not None, detail or str(shape))
    if shape is not None:
        strs = lambda xs: lean_list(lean_str(x) for x in xs)
        push = f'some ({lean_str(shape["push"][0])}, {lean_str(shape["push"][1])})' if shape['push'] else 'none'
        out.append('/-- `always`: rejected everywhere; `outside`: rejected unless `lambda_`; `openers`: `lambda_ |= code.prim in (...)`;\n'
                   '`pushRule = some (p, t)`: `if code.prim == p: lambda_ |= has_lambda_type(code.args[0])`, which looks for prim `t` -/\n'
                   f'def codeShape : Option CodeShape := some {{ always := {strs(shape["always"])}, outside := {strs(shape["outside"])}, '
                   f'openers := {strs(shape["openers"])}, pushRule := {push} }}\n')
    else:
        out.append('def codeShape : Option CodeShape := none\n')

    # ---- the name checks of create_type
    nshape, detail = None, ''
    try:
        ct = find_func(cls, 'create_type')
        assert ct is not None, 'create_type missing'
        body = strip_docstring(ct.body)
        src = [_n(s) for s in body]
        i = src.index('name=view_name.get_string()')
        s_len = body[i + 1]
        assert isinstance(s_len, ast.If) and not s_len.orelse and _is_raise(s_len.body), 'length check: ' + src[i + 1]
        m = re.fullmatch(r'len\(name\)>=(\d+)', _n(s_len.test)) or re.fullmatch(r'len\(name\)>(\d+)', _n(s_len.test))
        assert m, 'length test: ' + _n(s_len.test)
        too_long = int(m.group(1)) + (1 if '>=' not in _n(s_len.test) else 0)
        nxt = body[i + 2]
        ranges = None
        if isinstance(nxt, ast.If):
            assert not nxt.orelse and _is_raise(nxt.body), 'character check: ' + _n(nxt)
            t = nxt.test
            assert isinstance(t, ast.UnaryOp) and isinstance(t.op, ast.Not) and isinstance(t.operand, ast.Call) \
                and _n(t.operand.func) == 're.fullmatch' and len(t.operand.args) == 2 and not t.operand.keywords \
                and isinstance(t.operand.args[0], ast.Constant) and isinstance(t.operand.args[0].value, str) \
                and _n(t.operand.args[1]) == 'name', 'character test: ' + _n(t)
            ranges = parse_char_class(t.operand.args[0].value)
            assert ranges is not None, 'character class: ' + t.operand.args[0].value
            assert 'importre' in [_n(s) for s in tree.body if isinstance(s, ast.Import)], '`re` is the standard module'
            assert _n(body[i + 3]) == 'cls.check_code(args[3],lambda_=False)', 'statement after the name checks: ' + src[i + 3]
        else:
            assert _n(nxt) == 'cls.check_code(args[3],lambda_=False)', 'statement after the length check: ' + src[i + 2]
        nshape = (too_long, ranges)
    except (AssertionError, ValueError, IndexError) as e:
        nshape, detail = None, f'unrecognised: {e}'
    status['create_type name checks'] = (nshape is not None, detail or str(nshape))
    if nshape is not None:
        rs = 'none' if nshape[1] is None else 'some ' + lean_list(f'({lo}, {hi})' for lo, hi in nshape[1])
        out.append('/-- `len(name) >= tooLong` is rejected; `charRanges = none`: the source has no character check -/\n'
                   f'def nameShape : Option NameShape := some {{ tooLong := {nshape[0]}, charRanges := {rs} }}\n')
    else:
        out.append('def nameShape : Option NameShape := none\n')
    return '\n'.join(out)
