import ast

from translator.extract import drop_logging, find_class, find_func, generator, parse, strip_docstring


@generator('C28')
def gen_c28(status):
    """RpcMultiNode.request: is the round-robin index advanced on every exit path?"""
    tree = parse('rpc/node.py')
    fn = find_func(find_class(tree, 'RpcMultiNode'), 'request')
    body = drop_logging(strip_docstring(fn.body))
    body = [s for s in body if not isinstance(s, ast.Assert)]

    def is_advance(s):
        return ast.unparse(s).replace(' ', '') == 'self._next_i=(self._next_i+1)%len(self.nodes)'

    def is_call(s):
        return ast.unparse(s).replace(' ', '') == 'res=self.nodes[self._next_i].request(method,path,**kwargs)'

    def is_ret(s):
        return ast.unparse(s).replace(' ', '') == 'returnres'

    shape = None
    if len(body) == 3 and is_call(body[0]) and is_advance(body[1]) and is_ret(body[2]):
        shape = 'afterCall'           # skipped when the node request raises
    elif len(body) == 2 and isinstance(body[0], ast.Try) and not body[0].handlers and not body[0].orelse \
            and len(body[0].body) == 1 and is_call(body[0].body[0]) \
            and len(body[0].finalbody) == 1 and is_advance(body[0].finalbody[0]) and is_ret(body[1]):
        shape = 'inFinally'
    elif len(body) == 1 and isinstance(body[0], ast.Try) and not body[0].handlers and not body[0].orelse \
            and len(body[0].body) == 2 and is_call(body[0].body[0]) and is_ret(body[0].body[1]) \
            and len(body[0].finalbody) == 1 and is_advance(body[0].finalbody[0]):
        shape = 'inFinally'
    status['RpcMultiNode.request shape'] = (shape is not None, shape or 'unrecognised body: ' + ast.unparse(fn)[:300])
    adv = {'afterCall': 'some false', 'inFinally': 'some true'}.get(shape, 'none')
    return f'/-- `some true`: index advanced on error too; `some false`: only after a successful call; `none`: not recognised -/\ndef advanceOnError : Option Bool := {adv}\n'
