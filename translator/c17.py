"""C17 — what the comb helpers of `PairType` consult at run time.

Extracted from src/pytezos/michelson/types/pair.py and instructions/adt.py:
  * does `iter_comb` / `unpairn_comb` stop descending at an inner pair whose *type* carries a `%field` / `:type`
    annotation (`not (item.field_name or item.type_name)` in the descend condition)?            -> Option Bool each
  * which of the two recognised shapes has `execute` of GET n / UPDATE n: index tested first (`GET 0` = the value, `UPDATE 0` =
    the new element, on any types; pair assertion + access_comb / update_comb only for n >= 1 — the repaired shape), or pair
    assertion first and the helper called for every n (the defective shape)?                        -> Option Bool each
  * are the bodies of `access_comb`, `update_comb`, `from_comb`, `init`, `create_type`, `to_micheline_value`
    and of `execute` of PAIR / UNPAIR / PAIR n / UNPAIR n / CAR / CDR the ones the Lean mirror
    (`Impl.Comb`) was written from?                                                                  -> Bool
Nothing is guessed: a body that is not one of the recognised shapes makes the flag `none` / `false`, the status entry
fails, and the theorems of Props/C17.lean (stated over these flags) no longer close."""
import ast

from translator.extract import find_class, find_func, generator, parse, strip_docstring


def _body(fn):
    return [ast.unparse(s) for s in strip_docstring(fn.body)]


ITER_HEAD = 'if include_nodes:\n    yield self'
ITER_LOOP = ('for i, item in enumerate(self):\n    if {cond}:\n        yield from item.iter_comb(include_nodes=include_nodes)\n'
             '    else:\n        yield item')
UNPAIRN_LOOP = ('for i, item in enumerate(self):\n    if {cond}:\n        yield from item.unpairn_comb(count - 1)\n'
                '    else:\n        yield item')
ANNOT_TEST = '(not (item.field_name or item.type_name))'

PAIR_BODIES = {
    'access_comb': ['return next((item for i, item in enumerate(self.iter_comb(include_nodes=True)) if i == idx))'],
    'update_comb': [
        'if idx % 2 == 1:\n    leaves = [element if 2 * i + 1 == idx else item for i, item in enumerate(self.iter_comb())]\n'
        'else:\n    leaves = [item for i, item in enumerate(self.iter_comb()) if 2 * i + 1 < idx]\n'
        '    if isinstance(element, PairType):\n        leaves.extend(element.iter_comb())\n    else:\n        leaves.append(element)',
        'return type(self).from_comb(leaves)'],
    'from_comb': ['cls = PairType.create_type(args=[type(item) for item in items])', 'return cls.init(items)'],
    'init': ["if len(items) > 2:\n    right_cls = cast(Type['PairType'], cls.args[1])\n    items = (items[0], right_cls.init(items[1:]))\n"
             'else:\n    items = tuple(items)', 'return cls(items)'],
    'create_type': ["if len(args) > 2:\n    args = [args[0], PairType.create_type(args=args[1:])]\nelse:\n"
                    "    assert len(args) == 2, f'unexpected number of args: {len(args)}'",
                    'type_class = super(PairType, cls).create_type(args=args, annots=annots)',
                    "return cast(Type['PairType'], type_class)"],
    'to_micheline_value': [
        "if mode == 'legacy_optimized':\n    items = self.items\nelse:\n    items = list(self.iter_comb())",
        'args = [arg.to_micheline_value(mode=mode, lazy_diff=lazy_diff) for arg in items]',
        "if mode in ['readable', 'legacy_optimized']:\n    return {'prim': 'Pair', 'args': args}\nelif mode == 'optimized':\n"
        "    if len(args) == 2:\n        return {'prim': 'Pair', 'args': args}\n    elif len(args) == 3:\n"
        "        return {'prim': 'Pair', 'args': [args[0], {'prim': 'Pair', 'args': args[1:]}]}\n    elif len(args) >= 4:\n"
        "        return args\n    else:\n        raise AssertionError(f'unexpected number of args {len(args)}')\n"
        "else:\n    raise AssertionError(f'unsupported mode {mode}')"],
}

# GET n / UPDATE n: two recognised shapes of `execute` each.  The compound `if index == 0: … else: …` statement is matched by its
# exact (ast-normalised) source text, like the `for leaf in reversed(leaves)` statement of UNPAIR n below.
#   repaired (True): the index is looked at first; `GET 0` returns the value itself / `UPDATE 0` returns the new element, whatever
#                    the types are; the pair assertion and access_comb / update_comb are only reached for n >= 1
#   defective (False): the pair assertion comes first and access_comb / update_comb is called for every n, so `GET 0` / `UPDATE 0`
#                    reject non-pairs (and `UPDATE 0` rebuilds the element through from_comb)
# The flag goes to the Lean mirror (`Impl.Comb.step … zg zu`); the theorems of Props/C17.lean close only for the repaired shape.
ZERO_SHAPES = {
    'GetnInstruction': {
        True: ['pair = cast(PairType, stack.pop1())', 'index = cls.args[0].get_int()',
               'if index == 0:\n    res = pair\nelse:\n    pair.assert_type_in(PairType)\n    res = pair.access_comb(index)',
               'stack.push(res)', 'return cls(stack_items_added=1)'],
        False: ['pair = cast(PairType, stack.pop1())', 'pair.assert_type_in(PairType)', 'index = cls.args[0].get_int()',
                'res = pair.access_comb(index)', 'stack.push(res)', 'return cls(stack_items_added=1)'],
    },
    'UpdatenInstruction': {
        True: ['element, pair = cast(Tuple[MichelsonType, PairType], stack.pop2())', 'index = cls.args[0].get_int()',
               'if index == 0:\n    res = element\nelse:\n    pair.assert_type_in(PairType)\n    res = pair.update_comb(index, element)',
               'stack.push(res)', 'return cls(stack_items_added=1)'],
        False: ['element, pair = cast(Tuple[MichelsonType, PairType], stack.pop2())', 'pair.assert_type_in(PairType)',
                'index = cls.args[0].get_int()', 'res = pair.update_comb(index, element)', 'stack.push(res)',
                'return cls(stack_items_added=1)'],
    },
}
ZERO_WHAT = {
    'GetnInstruction': ('GET 0', 'getnZeroIdentity', 'does `GET n` look at the index first and return the value itself for `GET 0`, on any type '
                        '(pair assertion + access_comb only for n >= 1)?  `some false` = the pair assertion comes first (GET 0 rejects non-pairs)'),
    'UpdatenInstruction': ('UPDATE 0', 'updatenZeroReplaces', 'does `UPDATE n` look at the index first and return the new element for `UPDATE 0`, '
                           'whatever the two types (pair assertion + update_comb only for n >= 1)?  `some false` = pair assertion first, update_comb for every n'),
}

# `stdout.append(format_stdout(...))` lines are log text, not an API observable: dropped before comparison
INSTR_BODIES = {
    'PairInstruction': ['left, right = stack.pop2()', 'res = PairType.from_comb([left, right])', 'stack.push(res)',
                        'return cls(stack_items_added=1)'],
    'UnpairInstruction': ['pair = cast(PairType, stack.pop1())', 'pair.assert_type_in(PairType)', 'left, right = tuple(iter(pair))',
                          'stack.push(right)', 'stack.push(left)', 'return cls(stack_items_added=2)'],
    'PairnInstruction': ['count = cls.args[0].get_int()', "assert count >= 2, f'invalid argument, must be >= 2'",
                         'leaves = stack.pop(count=count)', 'res = PairType.from_comb(leaves)', 'stack.push(res)',
                         'return cls(stack_items_added=1)'],
    'UnpairnInstruction': ['count = cls.args[0].get_int()', "assert count >= 2, f'invalid argument, must be >= 2'",
                           'pair = cast(PairType, stack.pop1())', 'pair.assert_type_in(PairType)',
                           'leaves = list(pair.unpairn_comb(count - 2))', 'for leaf in reversed(leaves):\n    stack.push(leaf)',
                           'return cls(stack_items_added=len(leaves))'],
    'CarInstruction': ['execute_cxr(cls.prim, stack, stdout, 0)', 'return cls(stack_items_added=1)'],
    'CdrInstruction': ['execute_cxr(cls.prim, stack, stdout, 1)', 'return cls(stack_items_added=1)'],
}
CXR_BODY = ['pair = cast(PairType, stack.pop1())', 'pair.assert_type_in(PairType)', 'res = pair.items[idx]', 'stack.push(res)']


def _no_stdout(lines):
    return [ln for ln in lines if not ln.startswith('stdout.append(format_stdout(')]


def _classify(body, head, loop, conds):
    """conds: {descend-condition source: flag}"""
    if body[:len(head)] != head or len(body) != len(head) + 1:
        return None
    for cond, flag in conds.items():
        if body[-1] == loop.format(cond=cond):
            return flag
    return None


def _opt_bool(v):
    return 'none' if v is None else f'some {str(v).lower()}'


@generator('C17')
def gen(status):
    pair = find_class(parse('michelson/types/pair.py'), 'PairType')
    out = []

    fn = find_func(pair, 'iter_comb')
    it = _classify(_body(fn), [ITER_HEAD], ITER_LOOP, {
        f'i == 1 and isinstance(item, PairType) and {ANNOT_TEST}': True,
        'i == 1 and isinstance(item, PairType)': False,
    }) if fn is not None else None
    status['PairType.iter_comb shape'] = (it is not None, f'annotation test in descend condition: {it}' if it is not None
                                          else 'unrecognised body: ' + (ast.unparse(fn)[:300] if fn else 'missing'))
    out.append('/-- does `iter_comb` refuse to descend into an inner pair whose type is annotated (`%`/`:`)? -/')
    out.append(f'def iterCombAnnotTest : Option Bool := {_opt_bool(it)}')

    fn = find_func(pair, 'unpairn_comb')
    un = _classify(_body(fn), [], UNPAIRN_LOOP, {
        f'i == 1 and isinstance(item, PairType) and {ANNOT_TEST} and (count > 0)': True,
        'i == 1 and isinstance(item, PairType) and (count > 0)': False,
    }) if fn is not None else None
    status['PairType.unpairn_comb shape'] = (un is not None, f'annotation test in descend condition: {un}' if un is not None
                                             else 'unrecognised body: ' + (ast.unparse(fn)[:300] if fn else 'missing'))
    out.append('/-- same for `unpairn_comb` -/')
    out.append(f'def unpairnCombAnnotTest : Option Bool := {_opt_bool(un)}')

    bad = []
    for name, want in PAIR_BODIES.items():
        fn = find_func(pair, name)
        if fn is None or _body(fn) != want:
            bad.append(f'PairType.{name}')
    adt = parse('michelson/instructions/adt.py')
    for name, want in INSTR_BODIES.items():
        cls = find_class(adt, name)
        fn = find_func(cls, 'execute') if cls is not None else None
        if fn is None or _no_stdout(_body(fn)) != want:
            bad.append(f'{name}.execute')
    fn = find_func(adt, 'execute_cxr')
    if fn is None or _no_stdout(_body(fn)) != CXR_BODY:
        bad.append('execute_cxr')
    status['comb helper / instruction bodies mirrored by Impl.Comb'] = (not bad, 'all recognised' if not bad else 'changed: ' + ', '.join(bad))

    for name, shapes in ZERO_SHAPES.items():
        instr, lean_name, doc = ZERO_WHAT[name]
        cls = find_class(adt, name)
        fn = find_func(cls, 'execute') if cls is not None else None
        body = _no_stdout(_body(fn)) if fn is not None else None
        flag = next((k for k, want in shapes.items() if body == want), None)
        if flag is True:
            detail = f'repaired shape: index tested first, {instr} never reaches the pair assertion'
        elif flag is False:
            detail = (f'DEFECTIVE shape: the pair assertion precedes the index test, so {instr} rejects non-pairs '
                      f'(reference: {"GET 0 is the identity on any type" if instr == "GET 0" else "UPDATE 0 replaces the whole value, any types"})')
        else:
            detail = 'unrecognised body: ' + (ast.unparse(fn)[:400] if fn else 'missing')
        status[f'{name}.execute shape ({instr})'] = (flag is True, detail)
        out.append(f'/-- {doc} -/')
        out.append(f'def {lean_name} : Option Bool := {_opt_bool(flag)}')

    out.append('/-- the other mirrored bodies (access_comb, update_comb, from_comb, init, create_type, to_micheline_value,\n'
               'PAIR / UNPAIR / PAIR n / UNPAIR n / CAR / CDR) are the ones `Impl.Comb` was written from -/')
    out.append(f'def helpersRecognised : Bool := {str(not bad).lower()}')
    return '\n'.join(out) + '\n'
