"""C06 — src/pytezos/operation/forge.py, rpc/kind.py, michelson/forge.py -> Generated/C06.lean

* every `forge_<kind>` reachable from the dispatch dict of `forge_operation` is pattern-matched, statement by
  statement, into a *field layout* (list of framing codecs with the name of the content key each one reads);
  the three optional shapes (`if content.get(k)`, `if k in content`, `if has_parameters(content)`) become `opt` fields;
  a body that is not of the straight-line shape yields `none` for that kind (and a failed status for the ten kinds
  of the property);
* `reserved_entrypoints`, `operation_tags`, `validation_passes` dict literals;
* the prefix chains of `forge_address` / `forge_public_key` as tables;
* the bodies of the helpers the layouts rely on (`forge_tag`, `forge_bool`, `forge_array`, `forge_nat`,
  `forge_entrypoint`, `has_parameters`, `forge_script`, `forge_base58`, `forge_operation_group`) are compared with
  the shapes the Lean mirror was written for.
Nothing is imported from pytezos; an unrecognised construct is reported and never guessed."""
import ast

from translator.extract import find_assign, find_func, generator, lean_list, lean_str, parse, strip_docstring

PROPERTY_KINDS = ['reveal', 'transaction', 'origination', 'delegation', 'register_global_constant', 'transfer_ticket',
                  'smart_rollup_add_messages', 'smart_rollup_execute_outbox_message', 'failing_noop', 'activate_account']

PREAMBLE = '''/-- framing of one field as written by the source (`raw` = bytes appended as they are: the width is a fact
about the base58 / hex input, not about the forging code) -/
inductive Codec where
  | nat         -- forge_nat(int(content[k]))
  | raw         -- forge_base58(content[k]) | bytes.fromhex(content[k])
  | pkh         -- forge_address(content[k], tz_only=True)
  | addr        -- forge_address(content[k])
  | pubkey      -- forge_public_key(content[k])
  | bytes4      -- forge_array(<bytes of content[k]>)
  | mich4       -- forge_array(forge_micheline(content[k]))
  | entrypoint  -- forge_entrypoint(content[k])
  | list4       -- forge_array(b''.join(forge_array(bytes.fromhex(m)) for m in content[k]))
  deriving DecidableEq, Repr, Inhabited

/-- how presence of an optional group is decided: `plain` = `content.get(k)` / `k in content`;
`elideDefaultUnit` = `has_parameters(content)` (present and not (`default`, `Unit`)) -/
inductive Cond where
  | plain
  | elideDefaultUnit
  deriving DecidableEq, Repr, Inhabited

inductive Field where
  | req (name : String) (c : Codec)
  | opt (name : String) (cond : Cond) (fs : List (String × Codec))
  deriving DecidableEq, Repr, Inhabited
'''


def _u(node):
    return ast.unparse(node)


def _content_key(node):
    """content['a'] -> 'a';  content['a']['b'] -> 'a.b'"""
    if isinstance(node, ast.Subscript) and isinstance(node.slice, ast.Constant) and isinstance(node.slice.value, str):
        if isinstance(node.value, ast.Name) and node.value.id == 'content':
            return node.slice.value
        inner = _content_key(node.value)
        if inner is not None and '.' not in inner:
            return inner + '.' + node.slice.value
    return None


def _call(node, name, nargs=1, kw=()):
    """node is `name(a1..an, **kw)` with exactly these keyword names -> (args, {kw: value}) else None"""
    if isinstance(node, ast.Call) and isinstance(node.func, ast.Name) and node.func.id == name \
            and len(node.args) == nargs and sorted(k.arg for k in node.keywords) == sorted(kw):
        return node.args, {k.arg: k.value for k in node.keywords}
    return None


def field_of_expr(e, script_ok):
    """expression appended to `res` -> [(name, codec)] or None"""
    c = _call(e, 'forge_address', 1, ('tz_only',))
    if c and isinstance(c[1]['tz_only'], ast.Constant) and c[1]['tz_only'].value is True and _content_key(c[0][0]):
        return [(_content_key(c[0][0]), 'pkh')]
    c = _call(e, 'forge_address')
    if c and _content_key(c[0][0]):
        return [(_content_key(c[0][0]), 'addr')]
    c = _call(e, 'forge_nat')
    if c:
        i = _call(c[0][0], 'int')
        if i and _content_key(i[0][0]):
            return [(_content_key(i[0][0]), 'nat')]
        return None
    c = _call(e, 'forge_public_key')
    if c and _content_key(c[0][0]):
        return [(_content_key(c[0][0]), 'pubkey')]
    c = _call(e, 'forge_base58')
    if c and _content_key(c[0][0]):
        return [(_content_key(c[0][0]), 'raw')]
    if _is_fromhex(e):
        return [(_is_fromhex(e), 'raw')]
    c = _call(e, 'forge_entrypoint')
    if c and _content_key(c[0][0]):
        return [(_content_key(c[0][0]), 'entrypoint')]
    c = _call(e, 'forge_script')
    if c and _content_key(c[0][0]) and script_ok:
        k = _content_key(c[0][0])
        return [(k + '.code', 'mich4'), (k + '.storage', 'mich4')]
    c = _call(e, 'forge_array')
    if c:
        a = c[0][0]
        if _is_fromhex(a):
            return [(_is_fromhex(a), 'bytes4')]
        b = _call(a, 'forge_base58')
        if b and _content_key(b[0][0]):
            return [(_content_key(b[0][0]), 'bytes4')]
        m = _call(a, 'forge_micheline')
        if m and _content_key(m[0][0]):
            return [(_content_key(m[0][0]), 'mich4')]
        # content[k].encode()
        if isinstance(a, ast.Call) and isinstance(a.func, ast.Attribute) and a.func.attr == 'encode' and not a.args \
                and not a.keywords and _content_key(a.func.value):
            return [(_content_key(a.func.value), 'bytes4')]
        # b''.join((forge_array(bytes.fromhex(msg)) for msg in content[k]))
        if isinstance(a, ast.Call) and isinstance(a.func, ast.Attribute) and a.func.attr == 'join' \
                and isinstance(a.func.value, ast.Constant) and a.func.value.value == b'' and len(a.args) == 1 \
                and isinstance(a.args[0], (ast.GeneratorExp, ast.ListComp)) and len(a.args[0].generators) == 1:
            g = a.args[0].generators[0]
            if not g.ifs and isinstance(g.target, ast.Name) and _content_key(g.iter) \
                    and _u(a.args[0].elt) == f'forge_array(bytes.fromhex({g.target.id}))':
                return [(_content_key(g.iter), 'list4')]
    return None


def _is_fromhex(e):
    if isinstance(e, ast.Call) and _u(e.func) == 'bytes.fromhex' and len(e.args) == 1 and not e.keywords:
        return _content_key(e.args[0])
    return None


def _aug(stmt):
    """`res += E` -> E"""
    if isinstance(stmt, ast.AugAssign) and isinstance(stmt.op, ast.Add) and isinstance(stmt.target, ast.Name) \
            and stmt.target.id == 'res':
        return stmt.value
    return None


def layout_of_function(fn, script_ok, params_ok):
    """-> (fields | None, why).  fields: [('req', name, codec) | ('opt', name, cond, [(name, codec)], how)]"""
    body = strip_docstring(fn.body)
    if len(fn.args.args) != 1 or fn.args.args[0].arg != 'content':
        return None, 'signature is not (content)'
    if len(body) < 2 or _u(body[0]) != "res = forge_tag(operation_tags[content['kind']])":
        return None, 'first statement is not `res = forge_tag(operation_tags[content[\'kind\']])`'
    if _u(body[-1]) != 'return res':
        return None, 'last statement is not `return res`'
    fields = []
    for st in body[1:-1]:
        e = _aug(st)
        if e is not None:
            fs = field_of_expr(e, script_ok)
            if fs is None:
                return None, 'unrecognised field expression: ' + _u(st)
            fields += [('req', n, c) for n, c in fs]
            continue
        if isinstance(st, ast.If):
            t = st.test
            cond = how = name = None
            if isinstance(t, ast.Call) and _u(t.func) == 'content.get' and len(t.args) == 1 and not t.keywords \
                    and isinstance(t.args[0], ast.Constant) and isinstance(t.args[0].value, str):
                name, cond, how = t.args[0].value, 'plain', 'truthy'
            elif isinstance(t, ast.Compare) and len(t.ops) == 1 and isinstance(t.ops[0], ast.In) \
                    and isinstance(t.left, ast.Constant) and isinstance(t.left.value, str) and _u(t.comparators[0]) == 'content':
                name, cond, how = t.left.value, 'plain', 'in-dict'
            elif _u(t) == 'has_parameters(content)' and params_ok:
                name, cond, how = 'parameters', 'elideDefaultUnit', 'has_parameters'
            if name is None:
                return None, 'unrecognised presence test: ' + _u(t)
            if len(st.orelse) != 1 or _aug(st.orelse[0]) is None or _u(_aug(st.orelse[0])) != 'forge_bool(False)':
                return None, 'else-branch is not `res += forge_bool(False)`'
            if len(st.body) < 2 or _aug(st.body[0]) is None or _u(_aug(st.body[0])) != 'forge_bool(True)':
                return None, 'then-branch does not start with `res += forge_bool(True)`'
            sub = []
            for s2 in st.body[1:]:
                e2 = _aug(s2)
                fs = field_of_expr(e2, script_ok) if e2 is not None else None
                if fs is None:
                    return None, 'unrecognised statement in optional group: ' + _u(s2)
                sub += fs
            # the optional group may only read the key whose presence was tested
            if any(n != name and not n.startswith(name + '.') for n, _ in sub):
                return None, f'optional group `{name}` reads other keys: {[n for n, _ in sub]}'
            fields.append(('opt', name, cond, sub, how))
            continue
        return None, 'not straight-line: ' + _u(st)[:120]
    names = [n for f in fields for n in ([f[1]] if f[0] == 'req' else [x for x, _ in f[3]])]
    if len(set(names)) != len(names):
        return None, f'a content key is read twice: {names}'
    return fields, 'ok'


def lean_field(f):
    if f[0] == 'req':
        return f'.req {lean_str(f[1])} .{f[2]}'
    return f'.opt {lean_str(f[1])} .{f[2]} ' + lean_list(f'({lean_str(n)}, .{c})' for n, c in f[3])


def dict_literal(node, key_type, val_pred):
    """dict literal with constant unique keys -> [(key, value-node)] | None"""
    if not isinstance(node, ast.Dict):
        return None
    rows = []
    for k, v in zip(node.keys, node.values):
        if not (isinstance(k, ast.Constant) and isinstance(k.value, key_type)) or not val_pred(v):
            return None
        rows.append((k.value, v))
    if len({k for k, _ in rows}) != len(rows):
        return None
    return rows


def _int_const(v):
    if isinstance(v, ast.Constant) and type(v.value) is int:
        return True
    return isinstance(v, ast.UnaryOp) and isinstance(v.op, ast.USub) and isinstance(v.operand, ast.Constant) and type(v.operand.value) is int


def _int_value(v):
    return v.value if isinstance(v, ast.Constant) else -v.operand.value


def body_src(fn):
    return [_u(s) for s in strip_docstring(fn.body)]


FORGE_NAT = ["if value < 0:\n    raise ValueError('Value cannot be negative.')", 'buf = bytearray()', 'more = True',
             'while more:\n    byte = value & 127\n    value >>= 7\n    if value:\n        byte |= 128\n    else:\n        more = False\n    buf.append(byte)',
             'return bytes(buf)']
HAS_PARAMETERS = ["if not content.get('parameters'):\n    return False",
                  "return not (content['parameters']['entrypoint'] == 'default' and content['parameters']['value'] == {'prim': 'Unit'})"]
# repaired: the Unit test looks at the structure of the expression (empty `args` / `annots` lists are the same expression)
HAS_PARAMETERS_STRUCTURAL = ["if not content.get('parameters'):\n    return False",
                             "value = content['parameters']['value']",
                             "is_unit = isinstance(value, dict) and value.get('prim') == 'Unit' and (not value.get('args')) and (not value.get('annots'))",
                             "return not (content['parameters']['entrypoint'] == 'default' and is_unit)"]
FORGE_ENTRYPOINT = ["if entrypoint in reserved_entrypoints:\n    return reserved_entrypoints[entrypoint]\nelse:\n    return b'\\xff' + forge_array(entrypoint.encode(), len_bytes=1)"]
FORGE_SCRIPT = ["code = forge_micheline(script['code'])", "storage = forge_micheline(script['storage'])",
                'return forge_array(code) + forge_array(storage)']
FORGE_GROUP = ["res = forge_base58(operation_group['branch'])", "res += b''.join(map(forge_operation, operation_group['contents']))", 'return res']


def prefix_chain(fn, var, mk_row):
    """`if var == 'p1': A elif var == 'p2': B ... else: raise` -> [(prefix, row)] | None"""
    chain = [s for s in strip_docstring(fn.body) if isinstance(s, ast.If)]
    if len(chain) != 1:
        return None
    rows, node = [], chain[0]
    while True:
        t = node.test
        if not (isinstance(t, ast.Compare) and len(t.ops) == 1 and isinstance(t.ops[0], ast.Eq) and _u(t.left) == var
                and isinstance(t.comparators[0], ast.Constant) and isinstance(t.comparators[0].value, str)):
            return None
        if len(node.body) != 1:
            return None
        row = mk_row(node.body[0])
        if row is None:
            return None
        rows.append((t.comparators[0].value, row))
        if len(node.orelse) == 1 and isinstance(node.orelse[0], ast.If):
            node = node.orelse[0]
            continue
        if not node.orelse or (len(node.orelse) == 1 and isinstance(node.orelse[0], ast.Raise)):
            break
        return None
    return rows


def _addr_row(stmt):
    """res = b'..' + address [+ b'..'] -> (head, tail)"""
    if not (isinstance(stmt, ast.Assign) and _u(stmt.targets[0]) == 'res'):
        return None
    v = stmt.value
    tail = b''
    if isinstance(v, ast.BinOp) and isinstance(v.op, ast.Add) and isinstance(v.right, ast.Constant) and isinstance(v.right.value, bytes):
        tail, v = v.right.value, v.left
    if isinstance(v, ast.BinOp) and isinstance(v.op, ast.Add) and isinstance(v.left, ast.Constant) and isinstance(v.left.value, bytes) \
            and _u(v.right) == 'address':
        return v.left.value, tail
    return None


def _pk_row(stmt):
    """return b'\\x00' + res -> tag"""
    if isinstance(stmt, ast.Return) and isinstance(stmt.value, ast.BinOp) and isinstance(stmt.value.op, ast.Add) \
            and isinstance(stmt.value.left, ast.Constant) and isinstance(stmt.value.left.value, bytes) \
            and len(stmt.value.left.value) == 1 and _u(stmt.value.right) == 'res':
        return stmt.value.left.value[0]
    return None


LAST = {}   # python values of the tables written by the last run (for the harness' table self-check)


@generator('C06')
def gen(status):
    LAST.clear()
    out = [PREAMBLE]
    opf = parse('operation/forge.py')
    mif = parse('michelson/forge.py')
    kind = parse('rpc/kind.py')

    # ---- helper bodies the mirror relies on
    def shape(name, tree, fname, want, extra=lambda fn: True):
        fn = find_func(tree, fname)
        ok = fn is not None and body_src(fn) == want and extra(fn)
        status[name] = (ok, 'as mirrored' if ok else 'unrecognised body: ' + ('missing' if fn is None else ' | '.join(body_src(fn))[:300]))
        return ok

    tag_ok = shape('forge_tag body', opf, 'forge_tag', ["return operation_tag.to_bytes(1, 'big')"])
    bool_ok = shape('forge_bool body', mif, 'forge_bool', ["return b'\\xff' if value else b'\\x00'"])
    arr_ok = shape('forge_array body', mif, 'forge_array', ["return len(data).to_bytes(len_bytes, 'big') + data"],
                   lambda fn: [a.arg for a in fn.args.args] == ['data', 'len_bytes'] and len(fn.args.defaults) == 1
                   and isinstance(fn.args.defaults[0], ast.Constant) and fn.args.defaults[0].value == 4)
    nat_ok = shape('forge_nat body', mif, 'forge_nat', FORGE_NAT)
    b58_ok = shape('forge_base58 body', mif, 'forge_base58', ['return base58_decode(value.encode())'])
    ep_ok = shape('forge_entrypoint body', opf, 'forge_entrypoint', FORGE_ENTRYPOINT)
    hp = find_func(opf, 'has_parameters')
    hp_src = body_src(hp) if hp is not None else None
    structural = {tuple(HAS_PARAMETERS): False, tuple(HAS_PARAMETERS_STRUCTURAL): True}.get(tuple(hp_src or ()))
    params_ok = structural is not None
    status['has_parameters body'] = (params_ok, f'unit test structural={structural}' if params_ok else 'unrecognised body: ' + ' | '.join(hp_src or ['missing'])[:300])
    script_ok = shape('forge_script body', mif, 'forge_script', FORGE_SCRIPT)
    group_ok = shape('forge_operation_group body', opf, 'forge_operation_group', FORGE_GROUP)
    helpers_ok = all([tag_ok, bool_ok, arr_ok, nat_ok, b58_ok, ep_ok, group_ok])
    out.append('/-- the helper functions (`forge_tag`, `forge_bool`, `forge_array`, `forge_nat`, `forge_base58`, `forge_entrypoint`,\n'
               '`forge_operation_group`) have the bodies the mirror was written for -/')
    out.append(f'def helpersAsMirrored : Bool := {str(helpers_ok).lower()}\n')

    out.append("/-- `has_parameters`: is `value` compared with Unit structurally (`true`: `args: []` / `annots: []` spellings are\n"
               "recognised) or with the literal dict `{'prim': 'Unit'}` (`false`)? -/")
    out.append('def unitTestStructural : Option Bool := ' + ('none' if structural is None else f'some {str(structural).lower()}') + '\n')

    # ---- dispatch dict of forge_operation
    fo = find_func(opf, 'forge_operation')
    dispatch = None
    if fo is not None:
        b = strip_docstring(fo.body)
        if len(b) == 4 and isinstance(b[0], ast.Assign) and _u(b[0].targets[0]) == 'encode_content' \
                and [_u(s) for s in b[1:]] == ["encode_proc = encode_content.get(content['kind'])",
                                              "if not encode_proc:\n    raise NotImplementedError(content['kind'])",
                                              'return encode_proc(content)']:
            rows = dict_literal(b[0].value, str, lambda v: isinstance(v, ast.Name))
            if rows is not None:
                dispatch = [(k, v.id) for k, v in rows]
    status['forge_operation dispatch'] = (dispatch is not None, f'{len(dispatch)} kinds' if dispatch is not None else 'unrecognised body')

    # ---- per-kind layouts
    lay_rows = []
    for k, fname in (dispatch or []):
        fn = find_func(opf, fname)
        fields, why = (None, 'function missing') if fn is None else layout_of_function(fn, script_ok, params_ok)
        if not helpers_ok and fields is not None:
            fields, why = None, 'a helper function has an unrecognised body'
        if k in PROPERTY_KINDS:
            detail = why if fields is None else ', '.join(
                (f'{f[1]}:{f[2]}' if f[0] == 'req' else f'[{f[1]}?{f[4]}: ' + ' '.join(f'{n}:{c}' for n, c in f[3]) + ']') for f in fields)
            status[f'layout {fname}'] = (fields is not None, detail[:280])
        lay_rows.append(f'({lean_str(k)}, ' + ('none' if fields is None else 'some ' + lean_list(lean_field(f) for f in fields)) + ')')
    for k in PROPERTY_KINDS:
        if dispatch is not None and k not in dict(dispatch):
            status[f'layout forge_{k}'] = (False, 'kind missing from the dispatch dict of forge_operation')
    out.append('/-- kind → field layout after the tag byte, in the order of the dispatch dict of `forge_operation`\n'
               '(`none`: body not of the straight-line shape, or a legacy kind that is not modelled) -/')
    out.append('def opLayouts : List (String × Option (List Field)) :=\n  [' + ',\n   '.join(lay_rows) + ']\n')

    # ---- tables
    rows = dict_literal(find_assign(kind, 'operation_tags'), str, lambda v: isinstance(v, ast.Constant) and type(v.value) is int and v.value >= 0)
    LAST['operation_tags'] = None if rows is None else {k: v.value for k, v in rows}
    status['operation_tags dict literal'] = (rows is not None, f'{len(rows)} rows' if rows is not None else 'not a literal dict str -> non-negative int with unique keys')
    out.append('def operationTags : Option (List (String × Nat)) := ' +
               ('none' if rows is None else 'some ' + lean_list(f'({lean_str(k)}, {v.value})' for k, v in rows)) + '\n')

    rows = dict_literal(find_assign(kind, 'validation_passes'), str, _int_const)
    LAST['validation_passes'] = None if rows is None else {k: _int_value(v) for k, v in rows}
    status['validation_passes dict literal'] = (rows is not None, f'{len(rows)} rows' if rows is not None else 'not a literal dict str -> int with unique keys')
    out.append('def validationPasses : Option (List (String × Int)) := ' +
               ('none' if rows is None else 'some ' + lean_list(f'({lean_str(k)}, {_int_value(v)})' for k, v in rows)) + '\n')

    rows = dict_literal(find_assign(opf, 'reserved_entrypoints'), str,
                        lambda v: isinstance(v, ast.Constant) and isinstance(v.value, bytes) and len(v.value) == 1)
    LAST['reserved_entrypoints'] = None if rows is None else {k: v.value for k, v in rows}
    status['reserved_entrypoints dict literal'] = (rows is not None, ', '.join(f'{k}={v.value[0]}' for k, v in rows) if rows is not None
                                                   else 'not a literal dict str -> 1-byte constant with unique keys')
    out.append('/-- (name, UTF-8 bytes of the name, tag byte) in source order -/')
    out.append('def reservedEntrypoints : Option (List (String × List Nat × Nat)) := ' +
               ('none' if rows is None else 'some ' + lean_list(f'({lean_str(k)}, {lean_list(map(str, k.encode()))}, {v.value[0]})' for k, v in rows)) + '\n')

    # ---- forge_address / forge_public_key prefix chains
    fa = find_func(mif, 'forge_address')
    arows = None
    if fa is not None:
        src = body_src(fa)
        if len(src) == 5 and src[0] == "prefix_len = 4 if value.startswith('txr1') else 3" and src[1] == 'prefix = value[:prefix_len]' \
                and src[2] == 'address = base58.b58decode_check(value)[prefix_len:]' and src[4] == 'return res[1:] if tz_only else res' \
                and [a.arg for a in fa.args.args] == ['value', 'tz_only'] and _u(fa.args.defaults[0]) == 'False':
            arows = prefix_chain(fa, 'prefix', _addr_row)
    status['forge_address prefix chain'] = (arows is not None, ', '.join(f'{p}={h.hex()}..{t.hex()}' for p, (h, t) in arows) if arows is not None else 'unrecognised body')
    out.append('/-- (base58 prefix, bytes before the hash, bytes after the hash); `tz_only=True` drops the first byte of the result -/')
    out.append('def addressPrefixes : Option (List (String × List Nat × List Nat)) := ' +
               ('none' if arows is None else 'some ' + lean_list(f'({lean_str(p)}, {lean_list(map(str, h))}, {lean_list(map(str, t))})' for p, (h, t) in arows)) + '\n')

    fp = find_func(mif, 'forge_public_key')
    prows = None
    if fp is not None:
        src = body_src(fp)
        if len(src) == 4 and src[0] == 'prefix = value[:4]' and src[1] == 'res = base58.b58decode_check(value)[4:]' and src[3].startswith('raise ValueError('):
            prows = prefix_chain(fp, 'prefix', _pk_row)
    status['forge_public_key prefix chain'] = (prows is not None, ', '.join(f'{p}={t}' for p, t in prows) if prows is not None else 'unrecognised body')
    out.append('/-- (base58 prefix, tag byte) -/')
    out.append('def publicKeyPrefixes : Option (List (String × Nat)) := ' +
               ('none' if prows is None else 'some ' + lean_list(f'({lean_str(p)}, {t})' for p, t in prows)) + '\n')
    return '\n'.join(out)
