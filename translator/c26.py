"""C26 — retry of transient node failures (src/pytezos/rpc/node.py).

Extracted: TRANSIENT_RETRY_ATTEMPTS / _INITIAL_DELAY / _MAX_DELAY (delays as exact milliseconds),
_TRANSIENT_TEXT_MARKERS, the string literals of `_is_transient_response` ('proto.', 'temporary'), the status floor of
the retry condition, and three structural facts: the classifier, the retry loop of `RpcNode.request` and
`RpcError.from_response` have exactly the shape the Lean mirror (`Impl.Retry`) transcribes.  The shapes are given
below as reference Python; the comparison is on `ast.unparse` of the logging-free, literal-abstracted trees, so
formatting/comments/log text are irrelevant and any change of control flow, operators or order is 'unrecognised'."""
import ast
from fractions import Fraction

from translator.extract import find_assign, find_class, find_func, generator, lean_bytes, lean_list, parse, strip_docstring

REF_CLASSIFIER = '''
def _is_transient_response(res):
    if res.headers.get('content-type') == 'application/json':
        try:
            body = res.json()
        except (ValueError, JSONDecodeError):
            body = None
        if isinstance(body, list):
            if any(isinstance(err, dict) and err.get('id', '').startswith(STR0) for err in body):
                return False
            if any(isinstance(err, dict) and err.get('kind') == STR1 for err in body):
                return True
    return any(marker in res.text for marker in _TRANSIENT_TEXT_MARKERS)
'''

REF_REQUEST = '''
def request(self, method, path, **kwargs):
    timeout = kwargs.pop('timeout', None) or 60
    delay = TRANSIENT_RETRY_INITIAL_DELAY
    for attempt in range(TRANSIENT_RETRY_ATTEMPTS):
        res = requests.request(
            method=method,
            url=_urljoin(self.uri[0], path),
            headers={'content-type': 'application/json', 'user-agent': 'PyTezos', **self.headers},
            timeout=timeout,
            **kwargs,
        )
        if res.status_code >= INT0 and _is_transient_response(res) and attempt < TRANSIENT_RETRY_ATTEMPTS - 1:
            sleep(delay)
            delay = min(delay * 2, TRANSIENT_RETRY_MAX_DELAY)
            continue
        break
    if res.status_code == 401:
        raise RpcError(f'Unauthorized: {path}')
    if res.status_code == 404:
        raise RpcError(f'Not found: {path}')
    if res.status_code != 200:
        raise RpcError.from_response(res)
    return res
'''

REF_FROM_RESPONSE = '''
def from_response(cls, res):
    if res.headers.get('content-type') == 'application/json':
        try:
            errors = res.json()
        except JSONDecodeError:
            return RpcError(res.text)
        assert isinstance(errors, list)
        return cls.from_errors(errors)
    else:
        return RpcError(res.text)
'''


def _is_logger_call(s):
    if isinstance(s, ast.Expr) and isinstance(s.value, ast.Call):
        f = s.value.func
        return isinstance(f, ast.Attribute) and isinstance(f.value, ast.Name) and f.value.id == 'logger'
    return False


class _DropLogging(ast.NodeTransformer):
    """logger.* statements removed at every depth; the removed (parent, statement) pairs are kept for inspection"""

    def __init__(self):
        self.dropped = []

    def generic_visit(self, node):
        super().generic_visit(node)
        for field in ('body', 'orelse', 'finalbody'):
            stmts = getattr(node, field, None)
            if isinstance(stmts, list) and stmts and isinstance(stmts[0], ast.stmt):
                kept = []
                for s in stmts:
                    if _is_logger_call(s):
                        self.dropped.append((node, s))
                    else:
                        kept.append(s)
                setattr(node, field, kept or [ast.Pass()])
        return node


def _normalise(fn):
    """signature annotations and docstring dropped, logging dropped; returns (text, dropped logging statements)"""
    fn = ast.parse(ast.unparse(fn)).body[0]      # private copy
    fn.body = strip_docstring(fn.body)
    fn.returns = None
    fn.decorator_list = []
    for a in fn.args.args + fn.args.kwonlyargs + ([fn.args.vararg] if fn.args.vararg else []) + ([fn.args.kwarg] if fn.args.kwarg else []):
        a.annotation = None
    d = _DropLogging()
    fn = d.visit(fn)
    return fn, d.dropped


def _match(fn, ref_src, holes):
    """Compare `fn` with the reference.  `holes` maps a placeholder Name in the reference (STR0, INT0 …) to the type
    expected at that place; returns (ok, {placeholder: value}, detail)."""
    got, dropped = _normalise(fn)
    ref = ast.parse(ref_src).body[0]
    found = {}

    def same(a, b, path):
        # b is the reference node
        if isinstance(b, ast.Name) and b.id in holes:
            if isinstance(a, ast.Constant) and type(a.value) is holes[b.id]:
                found[b.id] = a.value
                return True
            return False
        if type(a) is not type(b):
            return False
        if isinstance(a, ast.AST):
            for f in a._fields:
                if f in ('ctx', 'type_comment', 'kind'):
                    continue
                if not same(getattr(a, f, None), getattr(b, f, None), path + [f]):
                    return False
            return True
        if isinstance(a, list):
            return len(a) == len(b) and all(same(x, y, path) for x, y in zip(a, b))
        return a == b

    ok = same(got, ref, [])
    return ok, found, dropped, ('' if ok else 'differs from the transcribed shape: ' + ast.unparse(got)[:400])


def _ms(node):
    """a numeric literal (seconds) as an exact number of milliseconds, or None"""
    if isinstance(node, ast.Constant) and type(node.value) in (int, float):
        q = Fraction(repr(node.value)) * 1000
        if q.denominator == 1 and q >= 0:
            return int(q)
    return None


def _opt(v):
    return 'none' if v is None else f'some {v}'


@generator('C26')
def gen_c26(status):
    tree = parse('rpc/node.py')

    att = find_assign(tree, 'TRANSIENT_RETRY_ATTEMPTS')
    attempts = att.value if isinstance(att, ast.Constant) and type(att.value) is int and att.value >= 0 else None
    status['TRANSIENT_RETRY_ATTEMPTS'] = (attempts is not None, str(attempts) if attempts is not None else 'not an int literal')
    ini = _ms(find_assign(tree, 'TRANSIENT_RETRY_INITIAL_DELAY'))
    status['TRANSIENT_RETRY_INITIAL_DELAY'] = (ini is not None, f'{ini} ms' if ini is not None else 'not a literal with a whole number of milliseconds')
    mx = _ms(find_assign(tree, 'TRANSIENT_RETRY_MAX_DELAY'))
    status['TRANSIENT_RETRY_MAX_DELAY'] = (mx is not None, f'{mx} ms' if mx is not None else 'not a literal with a whole number of milliseconds')

    mk = find_assign(tree, '_TRANSIENT_TEXT_MARKERS')
    markers = None
    if isinstance(mk, (ast.Tuple, ast.List)) and all(isinstance(e, ast.Constant) and isinstance(e.value, str) for e in mk.elts):
        markers = [e.value for e in mk.elts]
        if any(not m.isascii() for m in markers):
            markers = None
    status['_TRANSIENT_TEXT_MARKERS'] = (markers is not None, repr(markers) if markers is not None else 'not a tuple of ascii string literals')

    proto = temp = None
    fn = find_func(tree, '_is_transient_response')
    if fn is None:
        status['_is_transient_response shape'] = (False, 'function not found')
    else:
        ok, found, _, detail = _match(fn, REF_CLASSIFIER, {'STR0': str, 'STR1': str})
        if ok and found['STR0'].isascii() and found['STR1'].isascii():
            proto, temp = found['STR0'], found['STR1']
        status['_is_transient_response shape'] = (proto is not None, detail or f'json-list: proto prefix {proto!r} -> False, kind {temp!r} -> True; else text markers')

    floor = None
    ok_parses = None
    node_cls = find_class(tree, 'RpcNode')
    fn = find_func(node_cls, 'request') if node_cls is not None else None
    if fn is None:
        status['RpcNode.request retry loop shape'] = (False, 'method not found')
    else:
        ok, found, dropped, detail = _match(fn, REF_REQUEST, {'INT0': int})
        if ok:
            floor = found['INT0']
            # the trailing debug statement evaluates `res.json()` eagerly: a 200 response whose body is not JSON raises there
            # (argument evaluation happens whatever the log level is)
            top = [s for parent, s in dropped if isinstance(parent, ast.FunctionDef)]
            ok_parses = any(isinstance(n, ast.Call) and ast.unparse(n) == 'res.json()' for s in top for n in ast.walk(s))
        status['RpcNode.request retry loop shape'] = (ok, detail or f'retry iff status >= {floor} and transient and attempt < ATTEMPTS-1; sleep(delay); delay=min(delay*2,MAX)')

    fr_ok = False
    err_cls = find_class(tree, 'RpcError')
    fn = find_func(err_cls, 'from_response') if err_cls is not None else None
    if fn is None:
        status['RpcError.from_response shape'] = (False, 'method not found')
    else:
        fr_ok, _, _, detail = _match(fn, REF_FROM_RESPONSE, {})
        status['RpcError.from_response shape'] = (fr_ok, detail or 'json content-type: invalid json -> RpcError(text); assert list; from_errors; else RpcError(text)')

    def opt_bytes(s):
        return 'none' if s is None else 'some ' + lean_bytes(s.encode())

    out = []
    out.append(f'/-- TRANSIENT_RETRY_ATTEMPTS -/\ndef retryAttempts : Option Nat := {_opt(attempts)}')
    out.append(f'/-- TRANSIENT_RETRY_INITIAL_DELAY in milliseconds -/\ndef initialDelayMs : Option Nat := {_opt(ini)}')
    out.append(f'/-- TRANSIENT_RETRY_MAX_DELAY in milliseconds -/\ndef maxDelayMs : Option Nat := {_opt(mx)}')
    out.append(f'/-- _TRANSIENT_TEXT_MARKERS (ascii codes): {markers!r} -/\ndef textMarkers : Option (List (List Nat)) := '
               + ('none' if markers is None else 'some ' + lean_list(lean_bytes(m.encode()) for m in markers)))
    out.append(f'/-- prefix of protocol error ids in `_is_transient_response`: {proto!r} -/\ndef protoPrefix : Option (List Nat) := {opt_bytes(proto)}')
    out.append(f'/-- the retried error kind in `_is_transient_response`: {temp!r} -/\ndef temporaryKind : Option (List Nat) := {opt_bytes(temp)}')
    out.append(f'/-- `res.status_code >= N` in the retry condition of `RpcNode.request` (`none`: loop shape not recognised) -/\ndef statusFloor : Option Nat := {_opt(floor)}')
    out.append('/-- the statement after the status checks evaluates `res.json()` (so a 200 body that is not JSON raises) -/\n'
               f'def okBodyParsed : Option Bool := {_opt(None if ok_parses is None else str(ok_parses).lower())}')
    out.append(f'/-- `RpcError.from_response` has the transcribed shape -/\ndef fromResponseRecognised : Bool := {str(fr_ok).lower()}')
    return '\n'.join(out) + '\n'
