"""C16 — arithmetic / numeric conversions.  Regenerates from /repo/src (ast only):

* prim and parent class of the numeric runtime types (`issubclass` / `isinstance` tests in the instructions),
* the `from_value` guards of each of them (`assert value >= 0`, `bit_length() > 63 -> OverflowError`),
* every `dispatch_types(..., mapping={...})` table of arithmetic.py and boolean.py,
* the shift guard `assert int(b) < 257`,
* for every instruction the *shape* of its `execute` body: the normalised source text (logging, `cast`, the
  mapping literal removed) must be one of the texts recorded below, each of which has a hand-written Lean mirror.
  Anything else => `none` / `false` and a failed status (the theorem over it no longer closes).
"""
import ast
import copy

from translator.extract import find_class, find_func, generator, lean_list, lean_str, parse

NUMERIC_CLASSES = {  # class name -> file
    'IntType': 'michelson/types/core.py', 'NatType': 'michelson/types/core.py', 'BytesType': 'michelson/types/core.py',
    'BoolType': 'michelson/types/core.py', 'TimestampType': 'michelson/types/domain.py', 'MutezType': 'michelson/types/domain.py',
}
# other classes that occur in the tables (never operands of the model; only their prim is needed)
OTHER_PRIMS = {'BLS12_381_FrType': 'bls12_381_fr', 'BLS12_381_G1Type': 'bls12_381_g1', 'BLS12_381_G2Type': 'bls12_381_g2'}


class _Norm(ast.NodeTransformer):
    """cast(T, x) -> x ; dispatch mapping literal -> MAPPING ; assert messages dropped"""

    def visit_Call(self, node):
        self.generic_visit(node)
        if isinstance(node.func, ast.Name) and node.func.id == 'cast' and len(node.args) == 2:
            return node.args[1]
        if isinstance(node.func, ast.Name) and node.func.id == 'dispatch_types':
            node.keywords = [ast.keyword(arg='mapping', value=ast.Name(id='MAPPING', ctx=ast.Load())) if k.arg == 'mapping' else k
                             for k in node.keywords]
        return node

    def visit_Assert(self, node):
        self.generic_visit(node)
        node.msg = None          # the message text is not observable through the error enum
        return node


def _is_stdout(s):
    return (isinstance(s, ast.Expr) and isinstance(s.value, ast.Call) and isinstance(s.value.func, ast.Attribute)
            and isinstance(s.value.func.value, ast.Name) and s.value.func.value.id == 'stdout' and s.value.func.attr == 'append')


def norm_body(fn):
    fn = _Norm().visit(copy.deepcopy(fn))
    body = [s for s in fn.body if not _is_stdout(s)]
    body = [s for s in body if not (isinstance(s, ast.Expr) and isinstance(s.value, ast.Constant))]
    return '\n'.join(ast.unparse(s) for s in body)


def class_prim(cls):
    for k in cls.keywords:
        if k.arg == 'prim' and isinstance(k.value, ast.Constant):
            return k.value.value
    return None


# ---- recorded shapes (normalised text of `execute`) ------------------------------------------------------------

ARITH_BODY = '''a, b = stack.pop2()
res_type, = dispatch_types(type(a), type(b), mapping=MAPPING)
res_type = res_type
if issubclass(res_type, IntType):
    res = res_type.from_value(int(a) %s int(b))
else:
    res = res_type.from_point(bls12_381.%s)
stack.push(res)
return cls(stack_items_added=1)'''

SHAPES = {
    'ABS': {'ok': '''a = stack.pop1()
a.assert_type_equal(IntType)
res = NatType.from_value(abs(int(a)))
stack.push(res)
return cls(stack_items_added=1)'''},
    'ADD': {'ok': ARITH_BODY % ('+', 'add(a.to_point(), b.to_point())')},
    'MUL': {'ok': ARITH_BODY % ('*', 'multiply(a.to_point(), int(b))')},
    'EDIV': {'ok': '''a, b = stack.pop2()
q_type, r_type = dispatch_types(type(a), type(b), mapping=MAPPING)
if int(b) == 0:
    res = OptionType.none(PairType.create_type(args=[q_type, r_type]))
else:
    q, r = divmod(int(a), int(b))
    if r < 0:
        r += abs(int(b))
        q += 1
    items: List[MichelsonType] = [q_type.from_value(q), r_type.from_value(r)]
    res = OptionType.from_some(PairType.from_comb(items))
stack.push(res)
return cls(stack_items_added=1)'''},
    'LSL': {'ok': '''execute_shift(cls.prim, stack, stdout, lambda x: x[0] << x[1])
return cls(stack_items_added=1)'''},
    'LSR': {'ok': '''execute_shift(cls.prim, stack, stdout, lambda x: x[0] >> x[1])
return cls(stack_items_added=1)'''},
    'NEG': {
        # the result class is `int` for both modelled rows, so the two spellings agree there; they differ for bls12_381_fr
        'intFromValue': '''a = stack.pop1()
res_type, = dispatch_types(type(a), mapping=MAPPING)
if issubclass(res_type, IntType):
    res = IntType.from_value(-int(a))
else:
    res = res_type.from_point(bls12_381.neg(a.to_point()))
stack.push(res)
return cls(stack_items_added=1)''',
        'resTypeFromValue': '''a = stack.pop1()
res_type, = dispatch_types(type(a), mapping=MAPPING)
if issubclass(res_type, IntType):
    res = res_type.from_value(-int(a))
else:
    res = res_type.from_point(bls12_381.neg(a.to_point()))
stack.push(res)
return cls(stack_items_added=1)'''},
    'SUB': {'ok': '''a, b = stack.pop2()
res_type, = dispatch_types(type(a), type(b), mapping=MAPPING)
res = res_type.from_value(int(a) - int(b))
stack.push(res)
return cls(stack_items_added=1)'''},
    'SUB_MUTEZ': {
        # pinned tree: `except OverflowError` never fires (from_value asserts, and the ErrorTrace wrapper re-raises
        # everything as MichelsonRuntimeError), so a negative difference is a runtime failure
        'tryExceptOverflow': '''a, b = stack.pop2()
a.assert_type_equal(MutezType)
b.assert_type_equal(MutezType)
try:
    res = OptionType.from_some(MutezType.from_value(int(a) - int(b)))
except OverflowError:
    res = OptionType.none(MutezType)
stack.push(res)
return cls(stack_items_added=1)''',
        'compareFirst': '''a, b = stack.pop2()
a.assert_type_equal(MutezType)
b.assert_type_equal(MutezType)
if int(a) < int(b):
    res = OptionType.none(MutezType)
else:
    res = OptionType.from_some(MutezType.from_value(int(a) - int(b)))
stack.push(res)
return cls(stack_items_added=1)'''},
    'INT': {'ok': '''a = stack.pop1()
if isinstance(a, BytesType):
    res = IntType.from_value(int.from_bytes(bytes(a), 'big', signed=True))
else:
    a = a
    a.assert_type_in(NatType, BLS12_381_FrType)
    res = IntType.from_value(int(a))
stack.push(res)
return cls(stack_items_added=1)'''},
    'ISNAT': {'ok': '''a = stack.pop1()
a.assert_type_equal(IntType)
if int(a) >= 0:
    res = OptionType.from_some(NatType.from_value(int(a)))
else:
    res = OptionType.none(NatType)
stack.push(res)
return cls(stack_items_added=1)'''},
    'NAT': {'ok': '''a = stack.pop1()
a.assert_type_in(BytesType)
res = NatType.from_value(int.from_bytes(bytes(a), 'big'))
stack.push(res)
return cls(stack_items_added=1)'''},
    'BYTES': {
        # pinned tree: `isinstance(a, IntType)` is true for nat as well, and the sign byte is stripped
        'signedIfIntThenLstrip': '''a = stack.pop1()
a.assert_type_in(NatType, IntType)
int_val = int(a)
signed = isinstance(a, IntType)
if signed:
    length = (8 + (int_val + (int_val < 0)).bit_length()) // 8
else:
    length = (7 + int_val.bit_length()) // 8
byte_val = int_val.to_bytes(length, 'big', signed=signed).lstrip(b'\\x00')
res = BytesType.from_value(byte_val)
stack.push(res)
return cls(stack_items_added=1)''',
        'signedUnlessNatExactLength': '''a = stack.pop1()
a.assert_type_in(NatType, IntType)
int_val = int(a)
signed = not isinstance(a, NatType)
if signed:
    length = (8 + (int_val + (int_val < 0)).bit_length()) // 8 if int_val else 0
else:
    length = (7 + int_val.bit_length()) // 8
byte_val = int_val.to_bytes(length, 'big', signed=signed)
res = BytesType.from_value(byte_val)
stack.push(res)
return cls(stack_items_added=1)'''},
    'OR': {'ok': '''execute_boolean_add(cls.prim, stack, stdout, lambda x: x[0] | x[1])
return cls(stack_items_added=1)'''},
    'XOR': {'ok': '''execute_boolean_add(cls.prim, stack, stdout, lambda x: x[0] ^ x[1])
return cls(stack_items_added=1)'''},
    'AND': {'ok': '''a, b = stack.pop2()
res_type, convert = dispatch_types(type(a), type(b), mapping=MAPPING)
res = res_type.from_value(convert(a) & convert(b))
stack.push(res)
return cls(stack_items_added=1)'''},
    'NOT': {'ok': '''a = stack.pop1()
res_type, convert = dispatch_types(type(a), mapping=MAPPING)
res = res_type.from_value(convert(a))
stack.push(res)
return cls(stack_items_added=1)'''},
}

HELPER_SHAPES = {
    'execute_shift': '''a, b = stack.pop2()
a.assert_type_equal(NatType)
b.assert_type_equal(NatType)
assert int(b) < %d
c = shift((int(a), int(b)))
res = NatType.from_value(c)
stack.push(res)''',
    'execute_boolean_add': '''a, b = stack.pop2()
res_type, convert = dispatch_types(type(a), type(b), mapping=MAPPING)
val = add((convert(a), convert(b)))
res = res_type.from_value(val)
stack.push(res)''',
}

DISPATCH_TYPES_BODY = """key = tuple((arg.prim for arg in args))
mapping = {tuple((arg.prim for arg in k)): v for k, v in mapping.items()}
assert key in mapping
return mapping[key]"""

ASSERT_TYPE_EQUAL_BODY = """comment = f' [{message}]' if message else ''
assert cls.prim == other.prim
assert len(cls.args) == len(other.args)
for i, arg in enumerate(other.args):
    cls.args[i].assert_type_equal(arg, path=f'{path}/{i}', message=message)
assert cls.literal == other.literal"""

ASSERT_TYPE_IN_BODY = """comment = f' [{message}]' if message else ''
expected = [ty.prim for ty in others]
assert any((issubclass(cls, ty) for ty in others))"""

CONVERTS = {'bool': 'bool', 'int': 'int', 'lambda x: ~int(x)': 'invert', 'lambda x: not bool(x)': 'not'}

INSTR_FILE = {p: 'michelson/instructions/arithmetic.py' for p in
              ['ABS', 'ADD', 'EDIV', 'LSL', 'LSR', 'MUL', 'NEG', 'SUB', 'SUB_MUTEZ', 'INT', 'ISNAT', 'NAT', 'BYTES']}
INSTR_FILE.update({p: 'michelson/instructions/boolean.py' for p in ['OR', 'XOR', 'AND', 'NOT']})


def lean_name(prim):
    parts = prim.lower().split('_')
    return parts[0] + ''.join(p.capitalize() for p in parts[1:])


def find_instr(tree, prim):
    for n in ast.walk(tree):
        if isinstance(n, ast.ClassDef) and class_prim(n) == prim:
            return n
    return None


def mapping_of(fn):
    """the dict literal passed as mapping= to the (single) dispatch_types call of fn"""
    calls = [n for n in ast.walk(fn) if isinstance(n, ast.Call) and isinstance(n.func, ast.Name) and n.func.id == 'dispatch_types']
    if len(calls) != 1:
        return None
    for k in calls[0].keywords:
        if k.arg == 'mapping' and isinstance(k.value, ast.Dict):
            return k.value
    return None


def table_rows(d, prims, boolean):
    """[(operand prims, result prims)] or None when a key/value is not of the expected form"""
    rows = []
    for k, v in zip(d.keys, d.values):
        if not (isinstance(k, ast.Tuple) and isinstance(v, ast.Tuple) and all(isinstance(e, ast.Name) for e in k.elts)):
            return None
        if any(e.id not in prims for e in k.elts):
            return None
        key = [prims[e.id] for e in k.elts]
        if boolean:
            if len(v.elts) != 2 or not isinstance(v.elts[0], ast.Name) or v.elts[0].id not in prims:
                return None
            conv = CONVERTS.get(ast.unparse(v.elts[1]))
            if conv is None:
                return None
            val = [prims[v.elts[0].id], conv]
        else:
            if not all(isinstance(e, ast.Name) and e.id in prims for e in v.elts):
                return None
            val = [prims[e.id] for e in v.elts]
        rows.append((key, val))
    if len({tuple(k) for k, _ in rows}) != len(rows):
        return None          # duplicate key in a dict literal: the last one wins in Python; not modelled
    return rows


ALL_PRIMS = ['int', 'nat', 'mutez', 'timestamp', 'bytes', 'bool', 'bls12_381_fr', 'bls12_381_g1', 'bls12_381_g2']


def lp(prim):
    return '.' + prim


def lean_rows(rows, boolean=False):
    if boolean:
        return lean_list('(' + lean_list(map(lp, k)) + ', (' + lp(v[0]) + ', .' + v[1] + '))' for k, v in rows)
    return lean_list('(' + lean_list(map(lp, k)) + ', ' + lean_list(map(lp, v)) + ')' for k, v in rows)


def guards_of(cls_node, status, name):
    """from_value guards, in order.  Recognised statements: `assert value >= 0, ...`,
    `if value.bit_length() > N: raise OverflowError(...)`, final `return cls(value)`."""
    fn = None
    for n in cls_node.body:
        if isinstance(n, ast.FunctionDef) and n.name == 'from_value':
            fn = n
    if fn is None:
        return None   # inherited
    out = []
    body = list(fn.body)
    if not body or ast.unparse(body[-1]) != 'return cls(value)':
        status[f'{name}.from_value'] = (False, 'unrecognised: ' + ast.unparse(fn)[:200])
        return 'bad'
    for s in body[:-1]:
        if isinstance(s, ast.Assert) and ast.unparse(s.test) == 'value >= 0':
            out.append('.assertNonneg')
        elif (isinstance(s, ast.If) and not s.orelse and len(s.body) == 1 and isinstance(s.body[0], ast.Raise)
              and isinstance(s.test, ast.Compare) and ast.unparse(s.test.left) == 'value.bit_length()'
              and len(s.test.ops) == 1 and isinstance(s.test.ops[0], ast.Gt) and isinstance(s.test.comparators[0], ast.Constant)
              and isinstance(s.test.comparators[0].value, int)
              and ast.unparse(s.body[0].exc).startswith('OverflowError(')):
            out.append(f'.overflowIfBitsGt {s.test.comparators[0].value}')
        else:
            status[f'{name}.from_value'] = (False, 'unrecognised statement: ' + ast.unparse(s)[:200])
            return 'bad'
    status[f'{name}.from_value'] = (True, ', '.join(out) or 'no guard')
    return out


@generator('C16')
def gen_c16(status):
    out = []
    # ---- numeric classes: prim, parent, from_value guards ------------------------------------------------------
    prims = dict(OTHER_PRIMS)
    parents = {}
    nodes = {}
    for name, rel in NUMERIC_CLASSES.items():
        cls = find_class(parse(rel), name)
        p = class_prim(cls) if cls is not None else None
        status[f'class {name}'] = (p is not None, f'prim={p}')
        if p is None:
            continue
        prims[name] = p
        nodes[name] = cls
        bases = [b.id for b in cls.bases if isinstance(b, ast.Name)]
        parents[name] = [b for b in bases if b in NUMERIC_CLASSES]
    bad = sorted(set(prims.values()) - set(ALL_PRIMS))
    status['prims'] = (not bad, f'unexpected prim names {bad}' if bad else ', '.join(sorted(set(prims.values()))))
    if bad:
        return 'def unreadable : Bool := true\n'
    out.append('/-- prims of the runtime classes that occur in the tables -/')
    out.append('inductive Prim | ' + ' | '.join(ALL_PRIMS) + '\n  deriving DecidableEq, Repr')
    out.append('/-- second component of a boolean.py mapping row: `bool`, `int`, `lambda x: ~int(x)`, `lambda x: not bool(x)` -/')
    out.append('inductive Conv | bool | int | invert | not\n  deriving DecidableEq, Repr')
    out.append('/-- (prim, prim of the direct base class) for the numeric runtime types -/')
    out.append('def parents : List (Prim × Prim) := ' + lean_list(
        f'({lp(prims[c])}, {lp(prims[b])})' for c in nodes for b in parents[c] if b in prims))
    out.append('inductive Guard | assertNonneg | overflowIfBitsGt (n : Nat)\n  deriving DecidableEq, Repr')
    out.append('/-- `from_value` guards in source order; a class without its own `from_value` inherits (resolved here along the base chain) -/')
    rows = []
    all_ok = True
    for c in nodes:
        cur, g = c, None
        seen = 0
        while cur is not None and seen < 6:
            g = guards_of(nodes[cur], status, cur)
            if g is not None:
                break
            cur = parents[cur][0] if parents.get(cur) else None
            seen += 1
        if g is None:
            g = []          # MichelsonType base: BytesType/BoolType define from_value themselves, so not reached
        if g == 'bad':
            all_ok = False
            continue
        rows.append(f'({lp(prims[c])}, {lean_list(g)})')
    out.append('def guards : Option (List (Prim × List Guard)) := ' + (('some ' + lean_list(rows)) if all_ok else 'none'))

    # ---- instructions ------------------------------------------------------------------------------------------
    trees = {rel: parse(rel) for rel in set(INSTR_FILE.values())}
    for prim, rel in INSTR_FILE.items():
        ln = lean_name(prim)
        cls = find_instr(trees[rel], prim)
        fn = find_func(cls, 'execute') if cls is not None else None
        if fn is None:
            status[f'{prim}.execute'] = (False, 'class or execute not found')
            shape = None
        else:
            text = norm_body(fn)
            shape = next((k for k, v in SHAPES[prim].items() if v == text), None)
            status[f'{prim}.execute shape'] = (shape is not None, shape or 'unrecognised body: ' + text[:400])
        if len(SHAPES[prim]) == 1:
            out.append(f'def {ln}Body : Bool := {"true" if shape == "ok" else "false"}')
        else:
            alts = list(SHAPES[prim])
            tname = ln[0].upper() + ln[1:] + 'Shape'
            out.append(f'inductive {tname} | ' + ' | '.join(alts) + '\n  deriving DecidableEq, Repr')
            out.append(f'def {ln}Shape : Option {tname} := ' + (f'some .{shape}' if shape else 'none'))
        # dispatch table (instructions that dispatch themselves)
        if fn is not None and prim in ('ADD', 'SUB', 'MUL', 'EDIV', 'NEG', 'AND', 'NOT'):
            d = mapping_of(fn)
            rows_ = table_rows(d, prims, boolean=prim in ('AND', 'NOT')) if d is not None else None
            status[f'{prim} dispatch table'] = (rows_ is not None, f'{len(rows_)} rows' if rows_ is not None else 'mapping literal not recognised')
            if prim in ('AND', 'NOT'):
                out.append(f'def {ln}Table : Option (List (List Prim × (Prim × Conv))) := ' + ('some ' + lean_rows(rows_, True) if rows_ is not None else 'none'))
            else:
                out.append(f'def {ln}Table : Option (List (List Prim × List Prim)) := ' + ('some ' + lean_rows(rows_) if rows_ is not None else 'none'))

    # ---- helpers -----------------------------------------------------------------------------------------------
    arith = trees['michelson/instructions/arithmetic.py']
    fn = find_func(arith, 'execute_shift')
    limit = None
    if fn is not None:
        for s in fn.body:
            if isinstance(s, ast.Assert) and isinstance(s.test, ast.Compare) and ast.unparse(s.test.left) == 'int(b)' \
                    and len(s.test.ops) == 1 and isinstance(s.test.ops[0], ast.Lt) and isinstance(s.test.comparators[0], ast.Constant):
                limit = s.test.comparators[0].value
        if limit is not None and norm_body(fn) != HELPER_SHAPES['execute_shift'] % limit:
            limit = None
    status['execute_shift guard'] = (limit is not None, f'int(b) < {limit}')
    out.append('/-- `assert int(b) < shiftLimit` in execute_shift -/')
    out.append('def shiftLimit : Option Nat := ' + (f'some {limit}' if limit is not None else 'none'))

    boolean = trees['michelson/instructions/boolean.py']
    fn = find_func(boolean, 'execute_boolean_add')
    rows_ = None
    if fn is not None and norm_body(fn) == HELPER_SHAPES['execute_boolean_add']:
        d = mapping_of(fn)
        rows_ = table_rows(d, prims, boolean=True) if d is not None else None
    status['execute_boolean_add (OR/XOR) table'] = (rows_ is not None, f'{len(rows_)} rows' if rows_ is not None else 'not recognised')
    out.append('/-- shared by OR and XOR -/')
    out.append('def boolAddTable : Option (List (List Prim × (Prim × Conv))) := ' + ('some ' + lean_rows(rows_, True) if rows_ is not None else 'none'))

    # ---- the helpers every instruction goes through ------------------------------------------------------------
    ok = True
    fn = find_func(parse('michelson/instructions/base.py'), 'dispatch_types')
    good = fn is not None and norm_body(fn) == DISPATCH_TYPES_BODY
    status['dispatch_types (lookup by prim tuple, assert on miss)'] = (good, '' if good else 'unrecognised: ' + (ast.unparse(fn)[:300] if fn else 'missing'))
    ok = ok and good
    mich = find_class(parse('michelson/micheline.py'), 'Micheline')
    for name, want in (('assert_type_equal', ASSERT_TYPE_EQUAL_BODY), ('assert_type_in', ASSERT_TYPE_IN_BODY)):
        fn = find_func(mich, name) if mich is not None else None
        good = fn is not None and norm_body(fn) == want
        status[f'Micheline.{name}'] = (good, '' if good else 'unrecognised: ' + (ast.unparse(fn)[:300] if fn else 'missing'))
        ok = ok and good
    out.append('/-- dispatch_types = lookup by tuple of prims; assert_type_equal compares prims; assert_type_in uses issubclass -/')
    out.append(f'def helpersRecognised : Bool := {"true" if ok else "false"}')
    return '\n'.join(out) + '\n'
