"""C09 — src/pytezos/crypto/encoding.py -> Generated/C09.lean

* the `base58_encodings` table (human prefix, encoded length, binary prefix, payload length), in source order;
* the shape of `base58_encode` (first row with matching payload length and human prefix);
* the shape of `base58_decode`: which facts about the decoded bytes are validated against the row
  (binary prefix, payload length) — the pinned tree validates nothing;
* the shape of `_validate`: is the prefix list matched against the *row* (human prefix in the list, length and
  prefix of that row match) or only against the string (`any(map(v.startswith, prefixes))`);
* the prefix list every `is_*` / `validate_*` function passes to `_validate`.
Nothing is imported from pytezos; an unrecognised construct is reported and never guessed."""
import ast
import re

from translator.extract import find_assign, find_func, generator, lean_list, lean_str, parse, strip_docstring


def table_rows(tree):
    """[(human: bytes, enc_len, bin: bytes, data_len, description)] or None"""
    node = find_assign(tree, 'base58_encodings')
    alias = find_assign(tree, 'tb')
    if not isinstance(node, ast.List) or not (isinstance(alias, ast.Name) and alias.id == 'bytes'):
        return None
    rows = []
    for el in node.elts:
        if not (isinstance(el, ast.Tuple) and len(el.elts) == 5):
            return None
        h, ln, bp, dl, desc = el.elts
        if not (isinstance(h, ast.Constant) and isinstance(h.value, bytes) and h.value):
            return None
        if not (isinstance(ln, ast.Constant) and type(ln.value) is int and ln.value >= 0):
            return None
        if not (isinstance(dl, ast.Constant) and type(dl.value) is int and dl.value >= 0):
            return None
        if not (isinstance(bp, ast.Call) and isinstance(bp.func, ast.Name) and bp.func.id in ('tb', 'bytes')
                and len(bp.args) == 1 and not bp.keywords and isinstance(bp.args[0], ast.List)):
            return None
        bs = []
        for b in bp.args[0].elts:
            if not (isinstance(b, ast.Constant) and type(b.value) is int and 0 <= b.value < 256):
                return None
            bs.append(b.value)
        rows.append((h.value, ln.value, bytes(bs), dl.value, desc.value if isinstance(desc, ast.Constant) else ''))
    return rows


def _norm(stmts):
    """statements as text, error messages blanked (they are not observable through the error class)"""
    out = []
    for s in stmts:
        t = ast.unparse(s)
        t = re.sub(r"ValueError\((?:'[^']*'|\"[^\"]*\")\)", "ValueError(MSG)", t)
        out.append(t)
    return out


_ROW_SEARCH = 'for encoding in base58_encodings if len(v) == encoding[1] and v.startswith(encoding[0])))'
_EXC = 'except StopIteration as e:\n    raise ValueError(MSG) from e'

DECODE_SHAPES = {
    # pinned tree: only the length of the binary prefix is taken from the row
    (f'try:\n    prefix_len = next((len(encoding[2]) {_ROW_SEARCH}\n{_EXC}',
     'return base58.b58decode_check(v)[prefix_len:]'): (False, False),
    # repaired: decoded bytes are validated against the row
    (f'try:\n    encoding = next((encoding {_ROW_SEARCH}\n{_EXC}',
     'data = base58.b58decode_check(v)',
     'if not data.startswith(encoding[2]) or len(data) != len(encoding[2]) + encoding[3]:\n    raise ValueError(MSG)',
     'return data[len(encoding[2]):]'): (True, True),
    (f'try:\n    encoding = next((encoding {_ROW_SEARCH}\n{_EXC}',
     'data = base58.b58decode_check(v)',
     'if not data.startswith(encoding[2]):\n    raise ValueError(MSG)',
     'return data[len(encoding[2]):]'): (True, False),
}

ENCODE_SHAPE = (
    'try:\n    encoding = next((encoding for encoding in base58_encodings if len(v) == encoding[3] and prefix == encoding[0]))\n' + _EXC,
    'return base58.b58encode_check(encoding[2] + v)',
)

_VAL_HEAD = ('if isinstance(v, str):\n    v = v.encode()', 'v = scrub_input(v)')
VALIDATE_SHAPES = {
    _VAL_HEAD + ('if any(map(v.startswith, prefixes)):\n    base58_decode(v)\nelse:\n    raise ValueError(MSG)',): False,
    _VAL_HEAD + ('if any((len(v) == e[1] and v.startswith(e[0]) for e in base58_encodings if e[0] in prefixes)):\n'
                 '    base58_decode(v)\nelse:\n    raise ValueError(MSG)',): True,
}


def validator_lists(tree):
    """{function name: [prefix bytes]} for every module-level function that calls `_validate(v, prefixes=[…])`
    exactly once; predicates (`is_*`) must have the try/except-return-bool shape"""
    out = {}
    bad = []
    for fn in tree.body:
        if not isinstance(fn, ast.FunctionDef) or fn.name == '_validate':
            continue
        calls = [n for n in ast.walk(fn) if isinstance(n, ast.Call) and isinstance(n.func, ast.Name) and n.func.id == '_validate']
        if not calls:
            continue
        if len(calls) != 1:
            bad.append(fn.name)
            continue
        c = calls[0]
        kw = {k.arg: k.value for k in c.keywords}
        if not (len(c.args) == 1 and isinstance(c.args[0], ast.Name) and c.args[0].id == 'v' and set(kw) == {'prefixes'}
                and isinstance(kw['prefixes'], ast.List)
                and all(isinstance(e, ast.Constant) and isinstance(e.value, bytes) for e in kw['prefixes'].elts)):
            bad.append(fn.name)
            continue
        prefixes = [e.value for e in kw['prefixes'].elts]
        body = _norm(strip_docstring(fn.body))
        call = re.sub(r'\s+', '', ast.unparse(c))
        flat = [re.sub(r'\s+', '', b) for b in body]
        if fn.name.startswith('is_'):
            ok = flat == [f'try:{call}except(ValueError,TypeError):returnFalse', 'returnTrue']
        else:
            ok = flat == [f'return{call}']
        if not ok:
            bad.append(fn.name)
            continue
        out[fn.name] = prefixes
    # validate_* wrappers used by is_* (is_pkh -> validate_pkh): predicate = wrapper does not raise
    for fn in tree.body:
        if isinstance(fn, ast.FunctionDef) and fn.name.startswith('is_') and fn.name not in out:
            body = [re.sub(r'\s+', '', b) for b in _norm(strip_docstring(fn.body))]
            m = re.fullmatch(r'try:(validate_\w+)\(v\)except\(ValueError,TypeError\):returnFalse', body[0]) if len(body) == 2 else None
            if m and body[1] == 'returnTrue' and m.group(1) in out:
                out[fn.name] = out[m.group(1)]
    return out, bad


def _bytes(b):
    return lean_list(str(x) for x in b)


@generator('C09')
def gen(status):
    tree = parse('crypto/encoding.py')
    out = []

    rows = table_rows(tree)
    status['base58_encodings table'] = (rows is not None, f'{len(rows)} rows' if rows is not None else 'not a literal list of (bytes, int, tb([..]), int, str)')
    out.append('/-- `base58_encodings`: (human prefix, encoded length, binary prefix, payload length), source order -/')
    out.append('def table : List (List Nat × Nat × List Nat × Nat) := [')
    for i, (h, ln, bp, dl, desc) in enumerate(rows or []):
        sep = ',' if i + 1 < len(rows) else ''
        out.append(f'  ({_bytes(h)}, {ln}, {_bytes(bp)}, {dl}){sep}  -- {h.decode("ascii", "replace")}: {desc}')
    out.append(']')
    out.append(f'def tableRecognised : Bool := {"true" if rows is not None else "false"}')

    fn = find_func(tree, 'base58_encode')
    enc_ok = fn is not None and tuple(_norm(strip_docstring(fn.body))) == ENCODE_SHAPE \
        and [a.arg for a in fn.args.args] == ['v', 'prefix']
    status['base58_encode shape'] = (enc_ok, 'first row with len(v) == row[3] and prefix == row[0]' if enc_ok else 'unrecognised: ' + (ast.unparse(fn)[:300] if fn else 'missing'))
    out.append(f'def encodeRecognised : Bool := {"true" if enc_ok else "false"}')

    fn = find_func(tree, 'base58_decode')
    shape = DECODE_SHAPES.get(tuple(_norm(strip_docstring(fn.body)))) if fn is not None else None
    status['base58_decode shape'] = (shape is not None, f'validates binary prefix: {shape[0]}, payload length: {shape[1]}' if shape else 'unrecognised: ' + (ast.unparse(fn)[:400] if fn else 'missing'))
    out.append(f'def decodeRecognised : Bool := {"true" if shape else "false"}')
    out.append('/-- does `base58_decode` compare the decoded bytes with the binary prefix of the row it selected? -/')
    out.append(f'def decodeChecksBinPrefix : Bool := {"true" if shape and shape[0] else "false"}')
    out.append('/-- does it compare the number of decoded bytes with the payload length of the row? -/')
    out.append(f'def decodeChecksPayloadLen : Bool := {"true" if shape and shape[1] else "false"}')

    fn = find_func(tree, '_validate')
    vshape = VALIDATE_SHAPES.get(tuple(_norm(strip_docstring(fn.body)))) if fn is not None else None
    status['_validate shape'] = (vshape is not None, f'prefix list matched against the selected row: {vshape}' if vshape is not None else 'unrecognised: ' + (ast.unparse(fn)[:400] if fn else 'missing'))
    out.append(f'def validateRecognised : Bool := {"true" if vshape is not None else "false"}')
    out.append('/-- `true`: a row whose human prefix is in the list must match (length and prefix); `false`: `any(map(v.startswith, prefixes))` -/')
    out.append(f'def validateChecksKind : Bool := {"true" if vshape else "false"}')

    vals, bad = validator_lists(tree)
    status['validator prefix lists'] = (not bad and len(vals) > 0, f'{len(vals)} functions' if not bad else f'unrecognised: {bad}')
    out.append('/-- prefix list each `is_*` / `validate_*` function hands to `_validate` -/')
    out.append('def validators : List (String × List (List Nat)) := [')
    items = list(vals.items()) if not bad else []
    for i, (name, ps) in enumerate(items):
        sep = ',' if i + 1 < len(items) else ''
        out.append(f'  ({lean_str(name)}, {lean_list(_bytes(p) for p in ps)}){sep}  -- {", ".join(p.decode("ascii", "replace") for p in ps)}')
    out.append(']')
    return '\n'.join(out) + '\n'
