"""C19 — macro expansion.  Reads src/pytezos/michelson/macros.py and tags.py with `ast`:

* the ordered `@macro(regex)` dispatch table (regex text, handler name), each regex translated into the small
  pattern language of the Lean model (`Atom`/`Pat`); a regex outside that fragment is emitted as `none`;
* the keys of `prim_tags` (checked before the macro table by `expand_macro`);
* the module-level instruction constants (COMPARE, …, CAR__, CDR__, FAIL);
* for every function of the module: whether its body is (literally, after `ast.unparse`) one of the shapes the
  hand-written Lean mirror was written against (`SHAPES` below).  `build_pxr_tree` has two recognised shapes: the
  pinned one (leaf letters and the unconsumed rest of the name are not checked) and the repaired one.
"""
import ast
import re

from translator.extract import find_assign, generator, lean_list, lean_str, parse

SHAPES = {
    'macro': [
        '''\
def macro(regexp):

    def register_macro(func):
        macros.append((re.compile(regexp), func))

        @functools.wraps(func)
        def wrapper(*args, **kwargs):
            return func(*args, **kwargs)
        return wrapper
    return register_macro
''',
    ],
    'seq': [
        '''\
def seq(instr=None):
    if instr is None:
        return []
    elif isinstance(instr, list):
        return instr
    else:
        return [instr]
''',
    ],
    'expand_macro': [
        '''\
def expand_macro(prim, annots, args, internal=False):
    assert isinstance(annots, list)
    assert isinstance(args, list)
    if prim in prim_tags:
        return expr(prim=prim, annots=annots, args=args)
    for regexp, handler in macros:
        groups = regexp.findall(prim)
        if groups:
            assert len(groups) == 1
            res = handler(groups[0], annots, args)
            return res if internal else seq(res)
    raise AssertionError(f'unknown primitive `{prim}`')
''',
    ],
    'get_field_annots': [
        '''\
def get_field_annots(annots):
    return list(filter(lambda x: isinstance(x, str) and x[0] == '%', annots))
''',
    ],
    'get_var_annots': [
        '''\
def get_var_annots(annots):
    return list(filter(lambda x: isinstance(x, str) and x[0] == '@', annots))
''',
    ],
    'skip_nones': [
        '''\
def skip_nones(array):
    return list(filter(lambda x: x is not None, array))
''',
    ],
    'expr': [
        '''\
def expr(**kwargs):
    return {k: v for k, v in kwargs.items() if v}
''',
    ],
    'dip_n': [
        '''\
def dip_n(instr, depth=1):
    if depth <= 0:
        return instr
    elif depth == 1:
        return expr(prim='DIP', args=[seq(instr)])
    else:
        return expr(prim='DIP', args=[{'int': str(depth)}, seq(instr)])
''',
    ],
    'expand_cmpx': [
        '''\
def expand_cmpx(prim, annots, args):
    assert not args
    return [COMPARE, expr(prim=prim, annots=annots)]
''',
    ],
    'expand_ifx': [
        '''\
def expand_ifx(prim, annots, args):
    assert len(args) == 2
    return [expr(prim=prim, annots=annots), expr(prim='IF', args=args)]
''',
    ],
    'expand_ifcmpx': [
        '''\
def expand_ifcmpx(prim, annots, args):
    assert len(args) == 2
    return [[COMPARE, expr(prim=prim, annots=annots)], expr(prim='IF', args=args)]
''',
    ],
    'expand_fail': [
        '''\
def expand_fail(prim, annots, args):
    assert not annots
    assert not args
    return [UNIT, FAILWITH]
''',
    ],
    'expand_assert': [
        '''\
def expand_assert(prim, annots, args):
    assert not annots
    assert not args
    return expr(prim='IF', args=[[], FAIL])
''',
    ],
    'expand_assert_x': [
        '''\
def expand_assert_x(prim, annots, args):
    assert not args
    assert not annots
    return expand_ifx(prim, annots=[], args=[[], FAIL])
''',
    ],
    'expand_assert_cmpx': [
        '''\
def expand_assert_cmpx(prim, annots, args):
    assert not args
    assert not annots
    return expand_ifcmpx(prim, annots=[], args=[[], FAIL])
''',
    ],
    'expand_assert_none': [
        '''\
def expand_assert_none(prim, annots, args):
    assert not annots
    assert not args
    return expr(prim='IF_NONE', args=[[], FAIL])
''',
    ],
    'expand_assert_some': [
        '''\
def expand_assert_some(prim, annots, args):
    assert not args
    return expr(prim='IF_NONE', args=[FAIL, [expr(prim='RENAME', annots=annots)]])
''',
    ],
    'expand_assert_left': [
        '''\
def expand_assert_left(prim, annots, args):
    assert not args
    return expr(prim='IF_LEFT', args=[[expr(prim='RENAME', annots=annots)], FAIL])
''',
    ],
    'expand_assert_right': [
        '''\
def expand_assert_right(prim, annots, args):
    assert not args
    return expr(prim='IF_LEFT', args=[FAIL, [expr(prim='RENAME', annots=annots)]])
''',
    ],
    'expand_dixp': [
        '''\
def expand_dixp(prim, annots, args):
    assert not annots
    assert len(args) == 1
    return dip_n(args, depth=len(prim))
''',
    ],
    'expand_duxp': [
        '''\
def expand_duxp(prim, annots, args):
    assert not args
    depth = len(prim)
    return expr(prim='DUP', annots=annots, args=[{'int': str(depth)}])
''',
    ],
    'build_pxr_tree': [
        '''\
def build_pxr_tree(pxr_macro, pxr_annots):

    def parse(prim, annots, depth=0, is_root=False):
        letter, prim = (prim[0], prim[1:])
        if letter == 'P':
            dip_depth = depth
            left, l_annot, prim, annots, depth = parse(prim, annots, depth)
            right, r_annot, prim, annots, depth = parse(prim, annots, depth)
            return (PxrNode(dip_depth, [l_annot, r_annot], [left, right], is_root), None, prim, annots, depth)
        else:
            annot, annots = (annots[0], annots[1:]) if annots else (None, [])
            return (letter, annot, prim, annots, depth + 1)
    root, _, _, _, _ = parse(pxr_macro, pxr_annots, is_root=True)
    return root
''',
        '''\
def build_pxr_tree(pxr_macro, pxr_annots):

    def parse(prim, annots, depth=0, is_root=False, leaf=None):
        letter, prim = (prim[0], prim[1:])
        if letter == 'P':
            dip_depth = depth
            left, l_annot, prim, annots, depth = parse(prim, annots, depth, leaf='A')
            right, r_annot, prim, annots, depth = parse(prim, annots, depth, leaf='I')
            return (PxrNode(dip_depth, [l_annot, r_annot], [left, right], is_root), None, prim, annots, depth)
        else:
            assert letter == leaf, f'ill-formed macro `{pxr_macro}`'
            annot, annots = (annots[0], annots[1:]) if annots else (None, [])
            return (letter, annot, prim, annots, depth + 1)
    root, _, rest, _, _ = parse(pxr_macro, pxr_annots, is_root=True)
    assert rest == 'R', f'ill-formed macro `{pxr_macro}`'
    return root
''',
    ],
    'traverse_pxr_tree': [
        '''\
def traverse_pxr_tree(prim, annots, produce):
    res = []

    def walk(node):
        if isinstance(node, PxrNode):
            res.insert(0, dip_n(produce(node), depth=node.depth))
            _ = list(map(walk, node.args))
    walk(build_pxr_tree(prim, annots))
    return res
''',
    ],
    'expand_pxr': [
        '''\
def expand_pxr(prim, annots, args):

    def produce(node: PxrNode):
        pair_annots = [node.annots[0] or '%', node.annots[1]] if any(node.annots) else []
        if node.is_root:
            pair_annots.extend(get_var_annots(annots))
        return expr(prim='PAIR', annots=skip_nones(pair_annots))
    assert not args
    return traverse_pxr_tree(prim, get_field_annots(annots), produce)
''',
    ],
    'expand_unpxr': [
        '''\
def expand_unpxr(prim, annots, args):

    def produce(node: PxrNode):
        return [expr(prim='UNPAIR', annots=skip_nones(node.annots))]
    assert not args
    return list(reversed(traverse_pxr_tree(prim, annots, produce)))
''',
    ],
    'expand_cxr': [
        '''\
def expand_cxr(prim, annots):
    return seq(expand_macro(prim=f'C{prim}R', annots=annots, args=[], internal=True))
''',
    ],
    'expand_caxr': [
        '''\
def expand_caxr(prim, annots, args):
    assert not args
    return [CAR, *expand_cxr(prim, annots)]
''',
    ],
    'expand_cdxr': [
        '''\
def expand_cdxr(prim, annots, args):
    assert not args
    return [CDR, *expand_cxr(prim, annots)]
''',
    ],
    'expand_if_some': [
        '''\
def expand_if_some(prim, annots, args):
    assert not annots
    assert len(args) == 2
    return expr(prim='IF_NONE', args=list(reversed(args)))
''',
    ],
    'expand_if_right': [
        '''\
def expand_if_right(prim, annots, args):
    assert not annots
    assert len(args) == 2
    return expr(prim='IF_LEFT', args=list(reversed(args)))
''',
    ],
    'expand_set_car': [
        '''\
def expand_set_car(prim, annots, args):
    assert not args
    return [SWAP, expr(prim='UPDATE', args=[{'int': '1'}], annots=annots)]
''',
    ],
    'expand_set_cdr': [
        '''\
def expand_set_cdr(prim, annots, args):
    assert not args
    return [SWAP, expr(prim='UPDATE', args=[{'int': '2'}], annots=annots)]
''',
    ],
    'expand_set_cxr': [
        '''\
def expand_set_cxr(prim, annots):
    set_cxr = expand_macro(prim=f'SET_C{prim}R', annots=get_field_annots(annots), args=[], internal=True)
    pair = expr(prim='PAIR', annots=['%@', '%@'] + get_var_annots(annots))
    return (set_cxr, pair)
''',
    ],
    'expand_set_caxr': [
        '''\
def expand_set_caxr(prim, annots, args):
    assert not args
    set_cxr, pair = expand_set_cxr(prim, annots)
    return [DUP, dip_n([CAR__, set_cxr]), CDR__, SWAP, pair]
''',
    ],
    'expand_set_cdxr': [
        '''\
def expand_set_cdxr(prim, annots, args):
    assert not args
    set_cxr, pair = expand_set_cxr(prim, annots)
    return [DUP, dip_n([CDR__, set_cxr]), CAR__, pair]
''',
    ],
    'get_map_cxr_annots': [
        '''\
def get_map_cxr_annots(annots):
    field_annots = get_field_annots(annots)
    if field_annots:
        assert len(field_annots) == 1
        return (field_annots[0], [f'@{field_annots[0][1:]}'])
    else:
        return ('%', [])
''',
    ],
    'expand_map_car': [
        '''\
def expand_map_car(prim, annots, args):
    car_annot, var_annots = get_map_cxr_annots(annots)
    return [DUP, CDR__, dip_n([expr(prim='CAR', annots=var_annots), *args]), SWAP, expr(prim='PAIR', annots=[car_annot, '%@'])]
''',
    ],
    'expand_map_cdr': [
        '''\
def expand_map_cdr(prim, annots, args):
    cdr_annot, var_annots = get_map_cxr_annots(annots)
    return [DUP, expr(prim='CDR', annots=var_annots), *args, SWAP, CAR__, expr(prim='PAIR', annots=['%@', cdr_annot])]
''',
    ],
    'expand_map_cxr': [
        '''\
def expand_map_cxr(prim, annots, args):
    set_cxr = expand_macro(prim=f'MAP_C{prim}R', annots=get_field_annots(annots), args=args, internal=True)
    pair = expr(prim='PAIR', annots=['%@', '%@'] + get_var_annots(annots))
    return (set_cxr, pair)
''',
    ],
    'expand_map_caxr': [
        '''\
def expand_map_caxr(prim, annots, args):
    map_cxr, pair = expand_map_cxr(prim, annots, args)
    return [DUP, dip_n([CAR__, map_cxr]), CDR__, SWAP, pair]
''',
    ],
    'expand_map_cdxr': [
        '''\
def expand_map_cdxr(prim, annots, args):
    map_cxr, pair = expand_map_cxr(prim, annots, args)
    return [DUP, dip_n([CDR__, map_cxr]), CAR__, pair]
''',
    ],
}

CORE = ['macro', 'seq', 'expand_macro', 'get_field_annots', 'get_var_annots', 'skip_nones', 'expr', 'dip_n',
        'traverse_pxr_tree', 'expand_cxr', 'expand_set_cxr', 'get_map_cxr_annots', 'expand_map_cxr']
CONSTS = ['COMPARE', 'UNIT', 'FAILWITH', 'DUP', 'SWAP', 'CAR', 'CDR', 'CAR__', 'CDR__', 'DROP']
LIT = re.compile(r'[A-Z_]')


def normalise(fn):
    body = fn.body
    if body and isinstance(body[0], ast.Expr) and isinstance(body[0].value, ast.Constant) and isinstance(body[0].value.value, str):
        body = body[1:]
    n2 = ast.FunctionDef(name=fn.name, args=fn.args, body=body, decorator_list=[], returns=None, type_comment=None, type_params=[])
    return ast.unparse(ast.fix_missing_locations(n2))


def shape_of(fn):
    """index of the recognised shape of this function, or None"""
    text = normalise(fn)
    for i, s in enumerate(SHAPES.get(fn.name, [])):
        if s.strip('\n') == text:
            return i
    return None


def lean_chars(s):
    return lean_list("'%s'" % c for c in s)


def parse_items(s):
    """sequence of literals / `X+` / `[XYZ]+` / `[XYZ]{n,}`  ->  atoms, or None"""
    atoms, j, run = [], 0, ''

    def flush():
        nonlocal run
        if run:
            atoms.append(('lit', run))
            run = ''

    while j < len(s):
        c = s[j]
        if c == '[':
            k = s.find(']', j)
            if k < 0:
                return None
            cls = s[j + 1:k]
            if not cls or not all(LIT.fullmatch(x) for x in cls):
                return None
            j = k + 1
            m = re.match(r'\{(\d+),\}', s[j:])
            if s[j:j + 1] == '+':
                mn, j = 1, j + 1
            elif m:
                mn, j = int(m.group(1)), j + m.end()
            else:
                return None
            flush()
            atoms.append(('many', cls, mn))
        elif LIT.fullmatch(c):
            nxt = s[j + 1:j + 2]
            if nxt == '+':
                flush()
                atoms.append(('many', c, 1))
                j += 2
            elif nxt in ('*', '?', '{'):
                return None
            else:
                run += c
                j += 1
        else:
            return None
    flush()
    return atoms


def parse_regex(rx):
    """`^ items ( group )? items $`  ->  (atoms, group span | None), or None when outside the fragment"""
    if len(rx) < 2 or rx[0] != '^' or rx[-1] != '$':
        return None
    body = rx[1:-1]
    if body.count('(') != body.count(')') or body.count('(') > 1:
        return None
    if '(' in body:
        a, b = body.index('('), body.index(')')
        if b < a:
            return None
        pre, grp, post = body[:a], body[a + 1:b], body[b + 1:]
        if '|' in pre or '|' in post:
            return None
        if '|' in grp:
            alts = grp.split('|')
            if not all(x and all(LIT.fullmatch(ch) for ch in x) for x in alts):
                return None
            g_atoms = [('alts', alts)]
        else:
            g_atoms = parse_items(grp)
        p_atoms, q_atoms = parse_items(pre), parse_items(post)
        if None in (p_atoms, g_atoms, q_atoms):
            return None
        return p_atoms + g_atoms + q_atoms, (len(p_atoms), len(g_atoms))
    if '|' in body:
        return None
    atoms = parse_items(body)
    return None if atoms is None else (atoms, None)


def first_chars(atom):
    if atom[0] == 'lit':
        return {atom[1][0]}
    if atom[0] == 'alts':
        return {x[0] for x in atom[1]}
    return set(atom[1])


def deterministic(atoms):
    """a greedy `many` never has to give characters back: what follows cannot start inside its class"""
    for a, b in zip(atoms, atoms[1:]):
        if a[0] == 'many' and first_chars(b) & set(a[1]):
            return False
    return True


def lean_atom(a):
    if a[0] == 'lit':
        return f'.lit {lean_chars(a[1])}'
    if a[0] == 'alts':
        return f'.alts {lean_list(lean_chars(x) for x in a[1])}'
    return f'.many {lean_chars(a[1])} {a[2]}'


def lean_pat(p):
    if p is None:
        return 'none'
    atoms, grp = p
    g = 'none' if grp is None else f'some ({grp[0]}, {grp[1]})'
    return f'some ⟨{lean_list(lean_atom(a) for a in atoms)}, {g}⟩'


def const_prim(node):
    """{'prim': X} or {'prim': X, 'annots': [..]} literal -> (prim, annots)"""
    if not isinstance(node, ast.Dict) or not all(isinstance(k, ast.Constant) for k in node.keys):
        return None
    d = dict(zip([k.value for k in node.keys], node.values))
    if set(d) - {'prim', 'annots'} or 'prim' not in d or not isinstance(d['prim'], ast.Constant) or not isinstance(d['prim'].value, str):
        return None
    annots = []
    if 'annots' in d:
        if not isinstance(d['annots'], ast.List) or not all(isinstance(e, ast.Constant) and isinstance(e.value, str) for e in d['annots'].elts):
            return None
        annots = [e.value for e in d['annots'].elts]
    return d['prim'].value, annots


PRELUDE = '''\
/-- the fragment of Python `re` the macro table uses: literal text, alternation of literal words, and a greedy
repetition `[cs]{min,}` of a character class -/
inductive Atom where
  | lit (s : List Char)
  | alts (ss : List (List Char))
  | many (cs : List Char) (min : Nat)
  deriving Repr, DecidableEq

/-- `^ atoms $`; `group = some (start, len)`: the atoms `start … start+len-1` are the (single) capture group -/
structure Pat where
  atoms : List Atom
  group : Option (Nat × Nat)
  deriving Repr, DecidableEq

/-- one `@macro(regex) def func` entry; `pat = none`: regex outside the fragment; `shape = none`: body of the
handler is not one of the shapes the Lean mirror was written against -/
structure Handler where
  regex : String
  func : String
  pat : Option Pat
  shape : Option Nat
  deriving Repr

'''


@generator('C19')
def gen_c19(status):
    tree = parse('michelson/macros.py')
    funcs = [n for n in tree.body if isinstance(n, ast.FunctionDef)]
    out = [PRELUDE]

    # ---- dispatch table, in registration (= source) order
    rows = []
    names_seen = set()
    for fn in funcs:
        decs = fn.decorator_list
        if not decs:
            continue
        ok_dec = (len(decs) == 1 and isinstance(decs[0], ast.Call) and isinstance(decs[0].func, ast.Name) and decs[0].func.id == 'macro'
                  and len(decs[0].args) == 1 and not decs[0].keywords and isinstance(decs[0].args[0], ast.Constant)
                  and isinstance(decs[0].args[0].value, str))
        if not ok_dec:
            status[f'decorator of {fn.name}'] = (False, 'unrecognised decorator: ' + ', '.join(ast.unparse(d) for d in decs))
            rows.append(('?', fn.name, None, None))
            continue
        rx = decs[0].args[0].value
        pat = parse_regex(rx)
        if pat is not None and not deterministic(pat[0]):
            pat = None
        status[f'regex {rx}'] = (pat is not None, 'in fragment' if pat is not None else 'regex outside the modelled fragment (literal / (a|b) / [..]+ / [..]{n,}, deterministic)')
        shp = shape_of(fn)
        status[f'handler {fn.name}'] = (shp is not None, f'shape {shp}' if shp is not None else 'unrecognised body: ' + normalise(fn)[:300])
        if fn.name in names_seen:
            status[f'handler {fn.name} unique'] = (False, 'two handlers with the same name')
        names_seen.add(fn.name)
        rows.append((rx, fn.name, pat, shp))
    # anything else that could register a macro (a call of macro(...) / macros.append outside the decorator)?
    extra = [n for n in tree.body if not isinstance(n, (ast.FunctionDef, ast.Import, ast.ImportFrom, ast.Assign, ast.AnnAssign))]
    status['module has only imports, assignments and functions'] = (not extra, '; '.join(ast.unparse(n)[:80] for n in extra[:3]))
    macros_init = find_assign(tree, 'macros')
    status['macros starts empty'] = (isinstance(macros_init, ast.List) and not macros_init.elts, ast.unparse(macros_init) if macros_init is not None else 'missing')
    out.append('def handlers : List Handler := [\n' + ',\n'.join(
        f'  ⟨{lean_str(rx)}, {lean_str(name)}, {lean_pat(pat)}, {"none" if shp is None else f"some {shp}"}⟩' for rx, name, pat, shp in rows) + ']\n\n')

    # ---- helper functions
    by_name = {fn.name: fn for fn in funcs}
    core_ok = True
    for name in CORE:
        shp = shape_of(by_name[name]) if name in by_name else None
        status[f'helper {name}'] = (shp == 0, 'recognised' if shp == 0 else 'unrecognised body: ' + (normalise(by_name[name])[:300] if name in by_name else 'missing'))
        core_ok = core_ok and shp == 0
    unknown = sorted(set(by_name) - set(CORE) - names_seen - {'build_pxr_tree'})
    status['no other functions'] = (not unknown, ', '.join(unknown))
    core_ok = core_ok and not unknown and not extra
    out.append('/-- `seq`, `expr`, `dip_n`, `expand_macro`, the annotation filters, `traverse_pxr_tree`, `expand_cxr`,\n'
               '`expand_set_cxr`, `expand_map_cxr`, `get_map_cxr_annots` all have the shape the mirror was written against -/\n'
               f'def coreOk : Bool := {"true" if core_ok else "false"}\n\n')

    shp = shape_of(by_name['build_pxr_tree']) if 'build_pxr_tree' in by_name else None
    status['build_pxr_tree shape'] = (shp is not None, {0: 'unvalidated (leaf letters / trailing letters not checked)', 1: 'validated'}.get(shp, 'unrecognised body'))
    out.append('/-- `some true`: `build_pxr_tree` checks that left leaves are `A`, right leaves are `I` and that exactly the\n'
               'final `R` is left over; `some false`: the pinned shape without those checks; `none`: not recognised -/\n'
               f'def pxrValidated : Option Bool := {({0: "some false", 1: "some true"}).get(shp, "none")}\n\n')

    # ---- constants
    consts = []
    for name in CONSTS:
        v = find_assign(tree, name)
        c = const_prim(v) if v is not None else None
        status[f'constant {name}'] = (c is not None, 'ok' if c is not None else 'not a {"prim": …} literal')
        if c is not None:
            consts.append((name, c[0], c[1]))
    out.append('/-- module constants: (python name, prim, annots) -/\n'
               'def constPrims : List (String × String × List String) := ' +
               lean_list(f'({lean_str(n)}, {lean_str(p)}, {lean_list(lean_str(a) for a in an)})' for n, p, an in consts) + '\n\n')
    v = find_assign(tree, 'FAIL')
    fail = None
    if isinstance(v, ast.List) and len(v.elts) == 1 and isinstance(v.elts[0], ast.List) and all(isinstance(e, ast.Name) for e in v.elts[0].elts):
        fail = [e.id for e in v.elts[0].elts]
    status['constant FAIL'] = (fail is not None, 'ok' if fail is not None else 'not [[NAME, …]]')
    out.append('/-- `FAIL = [[…constant names…]]` -/\n'
               f'def failConst : Option (List String) := {"none" if fail is None else "some " + lean_list(lean_str(x) for x in fail)}\n\n')

    # ---- prim_tags keys
    tags = find_assign(parse('michelson/tags.py'), 'prim_tags')
    keys = None
    if isinstance(tags, ast.Dict) and all(isinstance(k, ast.Constant) and isinstance(k.value, str) for k in tags.keys):
        keys = [k.value for k in tags.keys]
        if not all(re.fullmatch(r'[A-Za-z0-9_]+', k) for k in keys):
            keys = None
    status['prim_tags keys'] = (keys is not None, f'{len(keys)} keys' if keys is not None else 'not a dict literal with plain string keys')
    out.append('/-- keys of `prim_tags` (michelson/tags.py), in source order -/\n'
               'def primTags : Option (List (List Char)) := ' +
               ('none' if keys is None else 'some [\n' + ',\n'.join('  ' + lean_chars(k) for k in keys) + ']') + '\n')
    return ''.join(out)
