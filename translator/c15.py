"""C15 — big maps and lazy diffs (src/pytezos/michelson/types/big_map.py, types/map.py, context/impl.py,
michelson/forge.py, instructions/struct.py).

Extracted (nothing is guessed; an unrecognised body gives `none` and a failed status line):
  * iterYieldsRemoved   `BigMapType.__iter__` yields the stored items and then every removed key as `(key, None)`
  * updateShape         what the two comprehensions of `BigMapType.update` iterate over (`self` — items AND removed
                        keys, the pinned defect — or `self.items`), and whether the "previous value exists, new value
                        given" branch inserts the key when it is known from the context only (pinned: the new value is
                        dropped); the rest of the body must be the transcribed one
  * getShape / containsShape / aggregateShape   `get`, `MapType.contains`, `aggregate_lazy_diff` have the transcribed
                        bodies (asserts and the `if dup:` guard are not part of the mirrored behaviour)
  * ctxShape            `register_big_map`, `get_tmp_big_map_id`, `get_big_map_diff`, `get_big_map_value` of
                        ExecutionContext have the transcribed bodies
  * instrShape          GET / MEM / UPDATE / GET_AND_UPDATE of instructions/struct.py call get / contains / update
  * keyHashPrefix / keyHashDigestSize   `forge_script_expr` = base58 `expr` of Blake2b with a 32-byte digest
  * packShape           `MichelsonType.pack` = `05 ‖ forge(legacy_optimized | optimized)`, `forge` = `forge_micheline(to_micheline_value(mode))`,
                        and `PairType.to_micheline_value` keeps `self.items` (two components, never a flattened comb) in the
                        `legacy_optimized` mode and writes them as one `Pair` primitive
  * duplicateShape      `BigMapType.duplicate` (DUP): same id, deep copies of the stored items and removed keys
  * mergeShape          how `merge_lazy_diff` (pytezos' own reading of an emitted diff) decides that an update carries a
                        value: `is not None` (repaired) or truthiness (pinned: an empty-sequence value — `{}` — reads as a removal)
"""
import ast
import copy

from translator.extract import find_class, find_func, generator, lean_str, parse


class _Strip(ast.NodeTransformer):
    """drop annotations, docstrings and asserts (asserts only reject; they are not part of the mirrored data flow)"""

    def visit_FunctionDef(self, node):
        self.generic_visit(node)
        node.returns = None
        node.decorator_list = []
        for a in node.args.args + node.args.kwonlyargs + node.args.posonlyargs:
            a.annotation = None
        body = list(node.body)
        if body and isinstance(body[0], ast.Expr) and isinstance(body[0].value, ast.Constant) and isinstance(body[0].value.value, str):
            body = body[1:]
        node.body = body or [ast.Pass()]
        return node

    def visit_AnnAssign(self, node):
        self.generic_visit(node)
        if node.value is None:
            return None
        return ast.copy_location(ast.Assign(targets=[node.target], value=node.value), node)

    def visit_Assert(self, node):
        return None

    def visit_Expr(self, node):
        self.generic_visit(node)
        f = node.value.func if isinstance(node.value, ast.Call) else None
        if isinstance(f, ast.Attribute) and f.attr.startswith('assert_'):     # x.assert_type_equal(…): rejects only
            return None
        return node

    def visit_If(self, node):
        self.generic_visit(node)
        if not node.body and not node.orelse:       # `if dup: assert …` became empty
            return None
        if not node.body:
            node.body = [ast.Pass()]
        return node


def norm(node):
    n = _Strip().visit(copy.deepcopy(node))
    ast.fix_missing_locations(n)
    return ast.unparse(n)


def canon(text):
    return ast.unparse(ast.parse(text.strip('\n')))


ITER = '''
def __iter__(self):
    yield from iter(self.items)
    for key in self.removed_keys:
        yield (key, None)
'''

GET = '''
def get(self, key, dup=True):
    val = next((v for k, v in self if k == key), Undefined)
    if val is Undefined:
        key_hash = forge_script_expr(key.pack(legacy=True))
        val_expr = self.context.get_big_map_value(self.ptr, key_hash)
        if val_expr is None:
            return None
        else:
            return self.args[1].from_micheline_value(val_expr)
    else:
        return val
'''

CONTAINS = '''
def contains(self, key):
    return self.get(key, dup=False) is not None
'''

UPDATE_FRAME = '''
def update(self, key, val):
    removed_keys = set(self.removed_keys)
    prev_val = self.get(key, dup=False)
    if prev_val is not None:
        if val is not None:
            %(replace)s
        else:
            items = [(k, v) for k, v in %(src)s if k != key]
            removed_keys.add(key)
    elif val is not None:
        items = sorted(self.items + [(key, val)], key=lambda x: x[0])
        if key in removed_keys:
            removed_keys.remove(key)
    else:
        items = self.items
    res = type(self)(items=items, ptr=self.ptr, removed_keys=list(removed_keys))
    res.context = self.context
    return (prev_val, res)
'''
REPLACE_PINNED = 'items = [(k, v if k != key else val) for k, v in %(src)s]'
REPLACE_INSERT = '''if any((k == key for k, _ in self.items)):
                items = [(k, v if k != key else val) for k, v in %(src)s]
            else:
                items = sorted(self.items + [(key, val)], key=lambda x: x[0])'''

AGGREGATE = '''
def aggregate_lazy_diff(self, lazy_diff, mode='readable'):
    if self.context:
        src_ptr, dst_ptr, action = self.context.get_big_map_diff(self.ptr)
    else:
        src_ptr, dst_ptr, action = (self.ptr, self.ptr, 'update')

    def make_update(key, val):
        update = {'key': key.to_micheline_value(mode=mode), 'key_hash': forge_script_expr(key.pack(legacy=True))}
        if val is not None:
            update['value'] = val.to_micheline_value(mode=mode)
        return update
    diff = {'action': action, 'updates': [make_update(key, val) for key, val in self]}
    if action == 'alloc':
        key_type, val_type = [arg.as_micheline_expr() for arg in self.args]
        diff['key_type'] = key_type
        diff['value_type'] = val_type
    elif action == 'copy':
        pass
    lazy_diff.append({'kind': 'big_map', 'id': str(dst_ptr), 'diff': diff})
    res = type(self)(items=[], ptr=dst_ptr)
    res.context = self.context
    return res
'''

ATTACH = '''
def attach_context(self, context, big_map_copy=False):
    self.context = context
    if self.ptr is None:
        self.ptr = context.get_tmp_big_map_id()
    else:
        self.ptr = context.register_big_map(self.ptr, copy=big_map_copy)
    if context.tzt:
        context.tzt_big_maps[self.ptr] = self
'''

CTX = {
    'register_big_map': '''
def register_big_map(self, ptr, copy=False):
    if copy:
        tmp_ptr = self.get_tmp_big_map_id()
        self.big_maps[tmp_ptr] = (ptr, True)
        return tmp_ptr
    else:
        self.big_maps[ptr] = (ptr, False)
        return ptr
''',
    'get_tmp_big_map_id': '''
def get_tmp_big_map_id(self):
    self.tmp_big_map_index += 1
    return -self.tmp_big_map_index
''',
    'get_big_map_diff': '''
def get_big_map_diff(self, ptr):
    if ptr in self.big_maps:
        src_big_map, copy = self.big_maps[ptr]
        if copy:
            dst_big_map = self.alloc_big_map_index
            self.alloc_big_map_index += 1
            return (src_big_map, dst_big_map, 'copy')
        else:
            return (src_big_map, src_big_map, 'update')
    else:
        big_map = self.alloc_big_map_index
        self.alloc_big_map_index += 1
        return (None, big_map, 'alloc')
''',
    'get_big_map_value': '''
def get_big_map_value(self, ptr, key_hash):
    if self.tzt or ptr not in self.big_maps:
        return None
    ptr, _ = self.big_maps[ptr]
    if ptr < 0:
        return None
    if self.shell is None:
        raise ValueError(f'Shell is undefined, cannot connect to network')
    try:
        return self.shell.blocks[self.block_id].context.big_maps[ptr][key_hash]()
    except RpcError:
        return None
''',
}

PACK = '''
def pack(self, legacy=False):
    data = self.forge(mode='legacy_optimized' if legacy else 'optimized')
    return b'\\x05' + data
'''

FORGE = '''
def forge(self, mode='readable'):
    val_expr = self.to_micheline_value(mode=mode)
    return forge_micheline(val_expr)
'''

PAIR_MICH = '''
def to_micheline_value(self, mode='readable', lazy_diff=False):
    if mode == 'legacy_optimized':
        items = self.items
    else:
        items = list(self.iter_comb())
    args = [arg.to_micheline_value(mode=mode, lazy_diff=lazy_diff) for arg in items]
    if mode in ['readable', 'legacy_optimized']:
        return {'prim': 'Pair', 'args': args}
    elif mode == 'optimized':
        if len(args) == 2:
            return {'prim': 'Pair', 'args': args}
        elif len(args) == 3:
            return {'prim': 'Pair', 'args': [args[0], {'prim': 'Pair', 'args': args[1:]}]}
        elif len(args) >= 4:
            return args
        else:
            raise AssertionError(f'unexpected number of args {len(args)}')
    else:
        raise AssertionError(f'unsupported mode {mode}')
'''

DUPLICATE = '''
def duplicate(self):
    res = type(self)(items=deepcopy(self.items), ptr=self.ptr, removed_keys=deepcopy(self.removed_keys))
    res.context = self.context
    return res
'''

MERGE = '''
def merge_lazy_diff(self, lazy_diff):
    diff = next((item for item in lazy_diff if item['kind'] == 'big_map' and item['id'] == str(self.ptr)), None)
    if diff:
        items = []
        removed_keys = []
        for update in diff['diff'].get('updates', []):
            key = self.args[0].from_micheline_value(update['key'])
            if %s:
                value = self.args[1].from_micheline_value(update['value'])
                items.append((key, value))
            else:
                removed_keys.append(key)
        res = type(self)(ptr=self.ptr, items=items, removed_keys=removed_keys)
        res.context = self.context
        return res
    else:
        return copy(self)
'''
MERGE_TESTS = (("update.get('value') is not None", 'isNotNone'), ("'value' in update", 'isNotNone'), ("update.get('value')", 'truthy'))

SCRIPT_EXPR = '''
def forge_script_expr(packed_key):
    data = blake2b_32(packed_key).digest()
    return base58_encode(data, b'expr').decode()
'''

BLAKE = '''
def blake2b_32(v=b''):
    return blake2b(scrub_input(v), digest_size=32)
'''


def _same(node, ref):
    return node is not None and norm(node) == canon(ref)


def classify_update(fn):
    """(iter, insertAbsent) or None"""
    if fn is None:
        return None
    got = norm(fn)
    for src, it in (('self', 'self'), ('self.items', 'items')):
        for repl, ins in ((REPLACE_PINNED, False), (REPLACE_INSERT, True)):
            ref = UPDATE_FRAME % {'replace': repl % {'src': src}, 'src': src}
            if got == canon(ref):
                return it, ins
    return None


def big_map_facts(status):
    """shared with C22's generator: the (iter, insertAbsent) shape of `update`, or None"""
    bm = find_class(parse('michelson/types/big_map.py'), 'BigMapType')
    shape = classify_update(find_func(bm, 'update'))
    status['BigMapType.update shape'] = (shape is not None,
                                         f'iterates {shape[0]}, inserts context-only key: {shape[1]}' if shape else
                                         'unrecognised body: ' + ast.unparse(find_func(bm, 'update'))[:400])
    it = _same(find_func(bm, '__iter__'), ITER)
    status['BigMapType.__iter__ yields items then (removed key, None)'] = (it, '' if it else 'unrecognised body')
    return shape, it


@generator('C15')
def gen_c15(status):
    out = []
    bm = find_class(parse('michelson/types/big_map.py'), 'BigMapType')
    mp = find_class(parse('michelson/types/map.py'), 'MapType')
    ctx = find_class(parse('context/impl.py'), 'ExecutionContext')
    shape, it = big_map_facts(status)

    out.append('/-- what the comprehensions of `BigMapType.update` iterate over -/\n'
               'inductive IterOver\n  | self    -- `for k, v in self`: stored items AND removed keys as `(k, None)`\n'
               '  | items   -- `for k, v in self.items`\n  deriving DecidableEq, Repr\n')
    out.append('/-- `insertAbsent`: the replace branch inserts a key that is known from the context only -/\n'
               'structure UpdateShape where\n  iter : IterOver\n  insertAbsent : Bool\n  deriving DecidableEq, Repr\n')
    out.append('def updateShape : Option UpdateShape := '
               + (f'some ⟨.{shape[0]}, {"true" if shape[1] else "false"}⟩' if shape else 'none') + '\n')
    out.append('/-- `__iter__` = items, then every removed key paired with `None` -/\n'
               f'def iterYieldsRemoved : Option Bool := {"some true" if it else "none"}\n')

    def flag(name, lean_name, ok, doc):
        status[name] = (ok, '' if ok else 'unrecognised body')
        out.append(f'/-- {doc} -/\ndef {lean_name} : Option Unit := {"some ()" if ok else "none"}\n')

    flag('BigMapType.get shape', 'getShape', _same(find_func(bm, 'get'), GET),
         '`get`: first match in `self` (items, then removed keys), else the context value')
    flag('MapType.contains shape', 'containsShape',
         _same(find_func(mp, 'contains'), CONTAINS) and find_func(bm, 'contains') is None,
         '`contains` = `get(...) is not None`, inherited from MapType')
    flag('BigMapType.aggregate_lazy_diff shape', 'aggregateShape', _same(find_func(bm, 'aggregate_lazy_diff'), AGGREGATE),
         'one diff entry: id/action from `get_big_map_diff`, one update per element of `self`, result = empty map at the new id')
    flag('BigMapType.attach_context shape', 'attachShape', _same(find_func(bm, 'attach_context'), ATTACH),
         '`attach_context`: temporary id for a literal, `register_big_map` for an id')
    base = find_class(parse('michelson/types/base.py'), 'MichelsonType')
    pair = find_class(parse('michelson/types/pair.py'), 'PairType')
    flag('pack(legacy) = 05 + forge_micheline(legacy_optimized form), pairs unflattened', 'packShape',
         _same(find_func(base, 'pack'), PACK) and _same(find_func(base, 'forge'), FORGE) and _same(find_func(pair, 'to_micheline_value'), PAIR_MICH),
         '`pack(legacy=True)` = `05 ‖ forge_micheline(to_micheline_value(legacy_optimized))`; a pair keeps its two components')
    flag('BigMapType.duplicate shape', 'duplicateShape', _same(find_func(bm, 'duplicate'), DUPLICATE),
         '`duplicate` (DUP): same id, deep copies of the stored items and of the removed keys')
    mfn = find_func(bm, 'merge_lazy_diff')
    mshape = next((name for test, name in MERGE_TESTS if _same(mfn, MERGE % test)), None)
    status['BigMapType.merge_lazy_diff shape'] = (
        mshape is not None, 'value test: is not None' if mshape == 'isNotNone' else
        'truthiness test: an update whose value is an empty sequence is read as a removal' if mshape == 'truthy' else 'unrecognised body')
    out.append('/-- how `merge_lazy_diff` decides that an update of the diff carries a value -/\n'
               'inductive MergeTest\n  | isNotNone   -- `update.get(\'value\') is not None`\n'
               '  | truthy      -- `if update.get(\'value\')`: an empty Micheline sequence is falsy\n  deriving DecidableEq, Repr\n')
    out.append(f'def mergeShape : Option MergeTest := {"some ." + mshape if mshape else "none"}\n')
    ok = all(_same(find_func(ctx, n), ref) for n, ref in CTX.items())
    bad = [n for n, ref in CTX.items() if not _same(find_func(ctx, n), ref)]
    status['ExecutionContext big_map functions shape'] = (ok, '' if ok else 'unrecognised: ' + ', '.join(bad))
    out.append('/-- register_big_map / get_tmp_big_map_id / get_big_map_diff / get_big_map_value have the transcribed bodies -/\n'
               f'def ctxShape : Option Unit := {"some ()" if ok else "none"}\n')

    st = parse('michelson/instructions/struct.py')
    calls = {
        'GetInstruction': 'src.get(key, dup=True)',
        'MemInstruction': 'src.contains(key)',
        'UpdateInstruction': 'src.update(key, None if val.is_none() else val.get_some())',
        'GetAndUpdateInstruction': 'src.update(key, None if val.is_none() else val.get_some())',
    }
    bad = []
    for cls, call in calls.items():
        fn = find_func(find_class(st, cls), 'execute')
        if fn is None or call not in ast.unparse(fn):
            bad.append(cls)
    status['GET/MEM/UPDATE/GET_AND_UPDATE dispatch'] = (not bad, '' if not bad else 'unrecognised: ' + ', '.join(bad))
    out.append('/-- GET/MEM/UPDATE/GET_AND_UPDATE call get/contains/update with the popped key and option -/\n'
               f'def instrShape : Option Unit := {"some ()" if not bad else "none"}\n')

    fs = find_func(parse('michelson/forge.py'), 'forge_script_expr')
    bl = find_func(parse('crypto/key.py'), 'blake2b_32')
    ok = _same(fs, SCRIPT_EXPR) and _same(bl, BLAKE)
    status['forge_script_expr = base58 expr of blake2b-256'] = (ok, '' if ok else 'unrecognised body')
    out.append('/-- human prefix and digest size (bytes) of `forge_script_expr` -/\n'
               f'def keyHashPrefix : Option String := {"some " + lean_str("expr") if ok else "none"}\n'
               f'def keyHashDigestSize : Option Nat := {"some 32" if ok else "none"}\n')
    return '\n'.join(out)
