"""C20 — what the ticket machinery checks at run time.

Extracted (ast only):
  * the primitive lists of `MichelsonType.is_duplicable / is_comparable / is_pushable` (prims that make a type
    non-duplicable / non-comparable / non-pushable) and that `MichelsonType.duplicate` asserts `is_duplicable()`;
  * `TicketType.split`: is a zero part rejected?  do split / join build their results with the ticket's own class
    (`type(self)` / `type(left)`) or with the bare `TicketType`?
  * `BigMapType.get`: is `dup` honoured (`if dup: assert self.args[1].is_duplicable()`) as in `MapType.get`?
  * `BigMapType.update` / `__iter__`: are they the mirrored bodies (update as repaired for C15: comprehensions over
    `self.items`, `removed_keys` a set)?
  * DUP / DUP n: is `is_duplicable()` asserted by the instruction itself (`BigMapType.duplicate` overrides
    `MichelsonType.duplicate` without the check) — or by `BigMapType.duplicate`?
  * the bodies of TICKET / READ_TICKET / SPLIT_TICKET / JOIN_TICKETS and of MapType.get / update are the mirrored ones.
Anything unrecognised -> `none` / false + a failed status entry; nothing is guessed."""
import ast

from translator.extract import all_type_args_forms, find_class, find_func, generator, lean_list, lean_str, parse, strip_docstring


def _body(fn):
    return [ast.unparse(s) for s in strip_docstring(fn.body)]


def _no_stdout(lines):
    return [ln for ln in lines if not ln.startswith('stdout.append(format_stdout(')]


def _prim_rule(fn, name, mt=None):
    """`if cls.prim in [...]: return False [elif cls.prim == 'lambda': return True]` + `return all(map(lambda x: x.<name>(), cls.args))`"""
    body = strip_docstring(fn.body)
    if len(body) != 2 or not isinstance(body[0], ast.If):
        return None
    if ast.unparse(body[1]) not in all_type_args_forms(mt, name):
        return None
    first = body[0]
    t = first.test
    if not (isinstance(t, ast.Compare) and ast.unparse(t.left) == 'cls.prim' and len(t.ops) == 1 and isinstance(t.ops[0], ast.In)
            and isinstance(t.comparators[0], ast.List) and all(isinstance(e, ast.Constant) and isinstance(e.value, str) for e in t.comparators[0].elts)):
        return None
    if [ast.unparse(s) for s in first.body] != ['return False']:
        return None
    if first.orelse:
        if [ast.unparse(s) for s in first.orelse] != ["if cls.prim == 'lambda':\n    return True"]:
            return None
    return [e.value for e in t.comparators[0].elts]


def _opt_list(v):
    return 'none' if v is None else 'some ' + lean_list(lean_str(x) for x in v)


def _opt_bool(v):
    return 'none' if v is None else f'some {str(v).lower()}'


ZERO_TESTS = {'{x} == 0', '{x} <= 0', '{x} < 1', 'not {x}', '0 == {x}'}


def _split_shape(fn):
    """-> (zero_check, keeps_class) or None"""
    body = strip_docstring(fn.body)
    if len(body) != 1 or not isinstance(body[0], ast.If) or [ast.unparse(s) for s in body[0].body] != ['return None']:
        return None
    test = body[0].test
    conds = [ast.unparse(v) for v in test.values] if isinstance(test, ast.BoolOp) and isinstance(test.op, ast.Or) else [ast.unparse(test)]
    if 'amount_left + amount_right != self.amount' not in conds:
        return None
    rest = [c for c in conds if c != 'amount_left + amount_right != self.amount']
    zl = any(c in {z.format(x='amount_left') for z in ZERO_TESTS} for c in rest)
    zr = any(c in {z.format(x='amount_right') for z in ZERO_TESTS} for c in rest)
    known = {z.format(x=x) for z in ZERO_TESTS for x in ('amount_left', 'amount_right')}
    if any(c not in known for c in rest) or zl != zr:
        return None
    els = [ast.unparse(s) for s in body[0].orelse]
    shapes = {}
    for ctor, keeps in (('TicketType', False), ('type(self)', True)):
        shapes[(f'left = {ctor}(ticketer=self.ticketer, item=copy(self.item), amount=amount_left)',
                f'right = {ctor}(ticketer=self.ticketer, item=copy(self.item), amount=amount_right)',
                'return (left, right)')] = keeps
    keeps = shapes.get(tuple(els))
    if keeps is None:
        return None
    return zl, keeps


def _join_shape(fn):
    body = _body(fn)
    for ctor, keeps in (('TicketType', False), ('type(left)', True)):
        if body == ['left.assert_type_equal(type(right))',
                    'if left.ticketer != right.ticketer or left.item != right.item:\n    return None\nelse:\n'
                    f'    return {ctor}(ticketer=left.ticketer, item=left.item, amount=left.amount + right.amount)']:
            return keeps
    return None


BIGMAP_GET_TAIL = [
    'val = next((v for k, v in self if k == key), Undefined)',
    "if val is Undefined:\n    assert self.context, f'context is not attached'\n    key_hash = forge_script_expr(key.pack(legacy=True))\n"
    '    val_expr = self.context.get_big_map_value(self.ptr, key_hash)\n    if val_expr is None:\n        return None\n    else:\n'
    '        return self.args[1].from_micheline_value(val_expr)\nelse:\n    return val']
DUP_ASSERT = "if dup:\n    assert self.args[1].is_duplicable(), f'use GET_AND_UPDATE instead'"

MAP_GET = ['self.args[0].assert_type_equal(type(key))', DUP_ASSERT, 'return next((v for k, v in self.items if k == key), None)']
MAP_UPDATE = ['prev_val = self.get(key, dup=False)',
              'if prev_val is not None:\n    if val is not None:\n        items = [(k, v if k != key else val) for k, v in self.items]\n    else:\n'
              '        items = [(k, v) for k, v in self.items if k != key]\nelif val is not None:\n'
              '    items = sorted(self.items + [(key, val)], key=lambda x: x[0])\nelse:\n    items = self.items',
              'return (prev_val, type(self)(items))']

BIGMAP_UPDATE = [
    'removed_keys = set(self.removed_keys)', 'prev_val = self.get(key, dup=False)',
    'if prev_val is not None:\n    if val is not None:\n        if any((k == key for k, _ in self.items)):\n'
    '            items = [(k, v if k != key else val) for k, v in self.items]\n        else:\n'
    '            items = sorted(self.items + [(key, val)], key=lambda x: x[0])\n    else:\n'
    '        items = [(k, v) for k, v in self.items if k != key]\n        removed_keys.add(key)\nelif val is not None:\n'
    '    items = sorted(self.items + [(key, val)], key=lambda x: x[0])\n    if key in removed_keys:\n        removed_keys.remove(key)\n'
    'else:\n    items = self.items',
    'res = type(self)(items=items, ptr=self.ptr, removed_keys=list(removed_keys))', 'res.context = self.context', 'return (prev_val, res)']

TICKET_INSTR = {
    'JoinTicketsInstruction': [
        'pair = cast(PairType, stack.pop1())', 'pair.assert_type_in(PairType)', 'left, right = tuple(pair)',
        "assert isinstance(left, TicketType), f'expected ticket on the left, got {left.prim}'",
        "assert isinstance(right, TicketType), f'expected ticket on the right, got {right.prim}'",
        'res = TicketType.join(left, right)',
        'if res is None:\n    res = OptionType.none(type(left))\nelse:\n    res = OptionType.from_some(res)',
        'stack.push(res)', 'return cls(stack_items_added=1)'],
    'ReadTicketInstruction': [
        'ticket = cast(TicketType, stack.pop1())', 'ticket.assert_type_in(TicketType)', 'res = ticket.to_comb()',
        'stack.push(ticket)', 'stack.push(res)', 'return cls(stack_items_added=2)'],
    'SplitTicketInstruction': [
        'ticket, amounts = cast(Tuple[TicketType, PairType], stack.pop2())', 'ticket.assert_type_in(TicketType)',
        'amounts.assert_type_in(PairType)', 'a, b = cast(Tuple[NatType, NatType], tuple(amounts))',
        'a.assert_type_equal(NatType)', 'b.assert_type_equal(NatType)', 'res = ticket.split(int(a), int(b))',
        'if res is None:\n    res = OptionType.none(PairType.create_type(args=[type(ticket), type(ticket)]))\nelse:\n'
        '    res = OptionType.from_some(PairType.from_comb(list(res)))',
        'stack.push(res)', 'return cls(stack_items_added=1)'],
    'TicketInstruction': [
        'item, amount = cast(Tuple[MichelsonType, NatType], stack.pop2())', 'amount.assert_type_equal(NatType)',
        'address = context.get_self_address()',
        'if int(amount) > 0:\n    ticket = TicketType.create(address, item, int(amount))\n    res = OptionType.from_some(ticket)\nelse:\n'
        '    ticket_ty = TicketType.create_type(args=[item.get_anon_type()])\n    res = OptionType.none(ticket_ty)',
        'stack.push(res)', 'return cls(stack_items_added=1)'],
}

DUP_PLAIN = ['res = stack.peek().duplicate()', 'stack.push(res)', 'return cls(stack_items_added=1)']
DUP_CHECKED = ['top = stack.peek()', "assert top.is_duplicable(), f'{top.prim} is not duplicable'", 'res = top.duplicate()',
               'stack.push(res)', 'return cls(stack_items_added=1)']
DUPN_HEAD = ['depth = cls.args[0].get_int() - 1', 'stack.protect(count=depth)']
DUPN_TAIL = ['stack.restore(count=depth)', 'stack.push(res)', 'return cls(stack_items_added=1)']


@generator('C20')
def gen(status):
    out = []
    base = find_class(parse('michelson/types/base.py'), 'MichelsonType')
    for py, lean, doc in (('is_duplicable', 'nonDuplicablePrims', 'a type with one of these prims is not duplicable'),
                          ('is_comparable', 'nonComparablePrims', 'not comparable'),
                          ('is_pushable', 'nonPushablePrims', 'not pushable')):
        fn = find_func(base, py)
        prims = _prim_rule(fn, py, base) if fn is not None else None
        status[f'MichelsonType.{py} rule'] = (prims is not None, str(prims) if prims is not None else 'unrecognised: ' + (ast.unparse(fn)[:300] if fn else 'missing'))
        out.append(f'/-- `MichelsonType.{py}`: {doc} (otherwise: `lambda` is, and any other type is iff all its arguments are) -/')
        out.append(f'def {lean} : Option (List String) := {_opt_list(prims)}')
    fn = find_func(base, 'duplicate')
    dup_ok = fn is not None and _body(fn) == ["assert self.is_duplicable(), f'{self.prim} is not duplicable'", 'return deepcopy(self)']
    status['MichelsonType.duplicate asserts is_duplicable'] = (dup_ok, 'recognised' if dup_ok else 'unrecognised body')
    out.append(f'def duplicateAsserts : Bool := {str(dup_ok).lower()}')

    ticket = find_class(parse('michelson/types/ticket.py'), 'TicketType')
    sp = _split_shape(find_func(ticket, 'split')) if find_func(ticket, 'split') is not None else None
    status['TicketType.split shape'] = (sp is not None, f'zero part rejected={sp[0]}, keeps class={sp[1]}' if sp else 'unrecognised: ' + ast.unparse(find_func(ticket, 'split'))[:400])
    out.append('/-- does `split` return None when a requested part is zero? -/')
    out.append(f'def splitRejectsZero : Option Bool := {_opt_bool(sp[0] if sp else None)}')
    jn = _join_shape(find_func(ticket, 'join')) if find_func(ticket, 'join') is not None else None
    status['TicketType.join shape'] = (jn is not None, f'keeps class={jn}' if jn is not None else 'unrecognised: ' + ast.unparse(find_func(ticket, 'join'))[:400])
    out.append('/-- do split / join build their results with the ticket\'s own class (`type(self)`) rather than the bare `TicketType`? -/')
    out.append(f'def splitKeepsClass : Option Bool := {_opt_bool(sp[1] if sp else None)}')
    out.append(f'def joinKeepsClass : Option Bool := {_opt_bool(jn)}')
    cr = find_func(ticket, 'create')
    cr_ok = cr is not None and _body(cr) == ['cls = TicketType.create_type(args=[item.get_anon_type()])', 'return cls(ticketer, item, amount)']
    status['TicketType.create shape'] = (cr_ok, 'recognised' if cr_ok else 'unrecognised body')

    bm = find_class(parse('michelson/types/big_map.py'), 'BigMapType')
    g = find_func(bm, 'get')
    gb = _body(g) if g is not None else []
    honours = None
    if gb[:1] == ['self.args[0].assert_type_equal(type(key))']:
        if gb[1:] == BIGMAP_GET_TAIL:
            honours = False
        elif gb[1:] == [DUP_ASSERT] + BIGMAP_GET_TAIL:
            honours = True
    status['BigMapType.get shape'] = (honours is not None, f'dup honoured={honours}' if honours is not None else 'unrecognised: ' + (ast.unparse(g)[:400] if g else 'missing'))
    out.append('/-- does `BigMapType.get` assert the value type is duplicable when `dup` (as `MapType.get` does)? -/')
    out.append(f'def bigMapGetHonoursDup : Option Bool := {_opt_bool(honours)}')
    u = find_func(bm, 'update')
    upd_ok = u is not None and _body(u) == BIGMAP_UPDATE
    status['BigMapType.update body'] = (upd_ok, 'recognised (walks self.items; removed_keys kept as a set)' if upd_ok else 'unrecognised: ' + (ast.unparse(u)[:600] if u else 'missing'))
    it = find_func(bm, '__iter__')
    iter_ok = it is not None and _body(it) == ['yield from iter(self.items)', 'for key in self.removed_keys:\n    yield (key, None)']
    status['BigMapType.__iter__ body'] = (iter_ok, 'recognised' if iter_ok else 'unrecognised')
    out.append('/-- are `BigMapType.update` (the C15-repaired shape: comprehensions over `self.items`) and `__iter__` the mirrored bodies? -/')
    out.append(f'def bigMapUpdateRecognised : Bool := {str(upd_ok and iter_ok).lower()}')
    d = find_func(bm, 'duplicate')
    bm_dup_asserts = d is not None and any(isinstance(s, ast.Assert) and 'is_duplicable()' in ast.unparse(s.test) for s in d.body)

    mp = find_class(parse('michelson/types/map.py'), 'MapType')
    map_ok = [n for n, want in (('get', MAP_GET), ('update', MAP_UPDATE)) if find_func(mp, n) is None or _body(find_func(mp, n)) != want]
    status['MapType.get / update bodies'] = (not map_ok, 'recognised' if not map_ok else 'changed: ' + ', '.join(map_ok))
    out.append(f'def mapBodiesRecognised : Bool := {str(not map_ok).lower()}')

    st = parse('michelson/instructions/stack.py')
    dup = find_func(find_class(st, 'DupInstruction'), 'execute')
    dupn = find_func(find_class(st, 'DupnInstruction'), 'execute')
    b1, b2 = _no_stdout(_body(dup)), _no_stdout(_body(dupn))
    checks = None
    if b1 == DUP_PLAIN and b2 == DUPN_HEAD + DUP_PLAIN[:1] + DUPN_TAIL:
        checks = bm_dup_asserts
    elif b1 == DUP_CHECKED and b2 == DUPN_HEAD + DUP_CHECKED[:3] + DUPN_TAIL:
        checks = True
    status['DUP / DUP n shape'] = (checks is not None, f'duplicability of a big_map operand checked={checks}' if checks is not None else 'unrecognised bodies')
    out.append('/-- is `is_duplicable()` checked when DUP / DUP n copy a *big_map* (whose `duplicate` override has no assert)? -/')
    out.append(f'def dupChecksBigMap : Option Bool := {_opt_bool(checks)}')

    ti = parse('michelson/instructions/ticket.py')
    bad = []
    for name, want in TICKET_INSTR.items():
        cls = find_class(ti, name)
        fn = find_func(cls, 'execute') if cls is not None else None
        if fn is None or _no_stdout(_body(fn)) != want:
            bad.append(name)
    status['ticket instruction bodies'] = (not bad, 'recognised' if not bad else 'changed: ' + ', '.join(bad))
    out.append(f'def ticketInstrsRecognised : Bool := {str(not bad and cr_ok).lower()}')
    return '\n'.join(out) + '\n'
