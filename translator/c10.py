"""C10 — src/pytezos/michelson/forge.py -> Generated/C10.lean

Extracted (with `ast`, nothing imported from pytezos):
* `forge_address`: the textual-prefix rule (`4 if value.startswith('txr1') else 3`), the if/elif chain
  prefix -> (bytes put in front, bytes appended), the `tz_only` cut;
* `unforge_address`: the `tz_prefixes` dict, the startswith/endswith chain for originated kinds, and whether
  21-byte input is dispatched on its LENGTH before the content tests (repaired) or not (pinned tree);
* `forge_contract` / `unforge_contract`: how the value is split at '%' and the 22-byte cut;
* `forge_public_key` chain and `unforge_public_key` dict;
* `unforge_chain_id`, `unforge_signature` (prefix chosen, possibly by length), `forge_base58`.
The base58 table itself is C09's (`Generated/C09.lean`), regenerated here as well so that both are current.
Unrecognised construct -> reported, flag `false`, nothing guessed."""
import ast
import re

from translator import extract
from translator.extract import find_func, generator, lean_list, parse, strip_docstring


def _b(x):
    return lean_list(str(c) for c in x)


def _src(stmts):
    return [re.sub(r'\s+', ' ', ast.unparse(s)) for s in stmts]


def _const(node, typ):
    return node.value if isinstance(node, ast.Constant) and isinstance(node.value, typ) else None


def _chain(node, test_of):
    """if/elif/…/else chain -> ([(key, body stmts)], else body)"""
    out = []
    while True:
        if not isinstance(node, ast.If):
            return None
        k = test_of(node.test)
        if k is None:
            return None
        out.append((k, node.body))
        if len(node.orelse) == 1 and isinstance(node.orelse[0], ast.If):
            node = node.orelse[0]
        else:
            return out, node.orelse


def _eq_prefix(test):
    if isinstance(test, ast.Compare) and isinstance(test.left, ast.Name) and test.left.id == 'prefix' \
            and len(test.ops) == 1 and isinstance(test.ops[0], ast.Eq):
        return _const(test.comparators[0], str)
    return None


def _concat_address(expr, var):
    """b'..' + var [+ b'..'] -> (pre, post)"""
    parts = []

    def flat(e):
        if isinstance(e, ast.BinOp) and isinstance(e.op, ast.Add):
            flat(e.left)
            flat(e.right)
        else:
            parts.append(e)
    flat(expr)
    names = [i for i, p in enumerate(parts) if isinstance(p, ast.Name) and p.id == var]
    if len(names) != 1:
        return None
    i = names[0]
    pre, post = parts[:i], parts[i + 1:]
    if not all(_const(p, bytes) is not None for p in pre + post):
        return None
    return b''.join(p.value for p in pre), b''.join(p.value for p in post)


def forge_address_info(fn):
    body = strip_docstring(fn.body)
    src = _src(body)
    if len(body) != 5 or src[0] != "prefix_len = 4 if value.startswith('txr1') else 3" or src[1] != 'prefix = value[:prefix_len]' \
            or src[2] != 'address = base58.b58decode_check(value)[prefix_len:]' or src[4] != 'return res[1:] if tz_only else res':
        return None
    ch = _chain(body[3], _eq_prefix)
    if ch is None:
        return None
    rows, orelse = ch
    if not (len(orelse) == 1 and isinstance(orelse[0], ast.Raise) and ast.unparse(orelse[0]).startswith('raise ValueError(')):
        return None
    out = []
    for k, b in rows:
        if not (len(b) == 1 and isinstance(b[0], ast.Assign) and ast.unparse(b[0].targets[0]) == 'res'):
            return None
        pp = _concat_address(b[0].value, 'address')
        if pp is None:
            return None
        out.append((k.encode(), pp[0], pp[1]))
    return out


def unforge_address_info(fn):
    """(tz_prefixes [(bin, human)], originated [(start, end, human)], length_first)"""
    body = strip_docstring(fn.body)
    if not body or not (isinstance(body[0], ast.Assign) and ast.unparse(body[0].targets[0]) == 'tz_prefixes' and isinstance(body[0].value, ast.Dict)):
        return None
    tz = []
    for k, v in zip(body[0].value.keys, body[0].value.values):
        kb, vb = _const(k, bytes), _const(v, bytes)
        if kb is None or vb is None:
            return None
        tz.append((kb, vb))
    rest = body[1:]
    length_first = False
    lf = "if len(data) == 21: return base58_encode(data[1:], tz_prefixes[b'\\x00' + data[:1]]).decode()"
    if rest and _src(rest[:1])[0] == lf:
        length_first = True
        rest = rest[1:]
    if len(rest) != 2:
        return None
    loop = ("for bin_prefix, tz_prefix in tz_prefixes.items(): if data.startswith(bin_prefix): "
            "return base58_encode(data[2:], tz_prefix).decode()")
    if _src(rest[:1])[0] != loop:
        return None

    def test_of(t):
        m = re.fullmatch(r"data\.startswith\((b'[^']*')\) and data\.endswith\((b'[^']*')\)", ast.unparse(t))
        return (ast.literal_eval(m.group(1)), ast.literal_eval(m.group(2))) if m else None
    ch = _chain(rest[1], test_of)
    if ch is None:
        return None
    rows, orelse = ch
    if _src(orelse) != ["return base58_encode(data[1:], tz_prefixes[b'\\x00' + data[:1]]).decode()"]:
        return None
    orig = []
    for (st, en), b in rows:
        m = re.fullmatch(r"return base58_encode\(data\[1:-1\], (b'[^']*')\)\.decode\(\)", ast.unparse(b[0])) if len(b) == 1 else None
        if not m or len(st) != 1 or len(en) != 1:
            return None
        orig.append((st, en, ast.literal_eval(m.group(1))))
    return tz, orig, length_first


def public_key_info(fn_forge, fn_unforge):
    body = strip_docstring(fn_forge.body)
    src = _src(body)
    if len(body) != 4 or src[0] != 'prefix = value[:4]' or src[1] != 'res = base58.b58decode_check(value)[4:]' \
            or not src[3].startswith('raise ValueError('):
        return None
    ch = _chain(body[2], _eq_prefix)
    if ch is None or ch[1]:
        return None
    tags = []
    for k, b in ch[0]:
        if not (len(b) == 1 and isinstance(b[0], ast.Return)):
            return None
        pp = _concat_address(b[0].value, 'res')
        if pp is None or pp[1] or len(pp[0]) != 1:
            return None
        tags.append((k.encode(), pp[0]))
    body = strip_docstring(fn_unforge.body)
    if len(body) != 2 or not (isinstance(body[0], ast.Assign) and ast.unparse(body[0].targets[0]) == 'key_prefix' and isinstance(body[0].value, ast.Dict)) \
            or _src(body[1:]) != ['return base58_encode(data[1:], key_prefix[data[:1]]).decode()']:
        return None
    rev = []
    for k, v in zip(body[0].value.keys, body[0].value.values):
        kb, vb = _const(k, bytes), _const(v, bytes)
        if kb is None or vb is None or len(kb) != 1:
            return None
        rev.append((kb, vb))
    return tags, rev


def signature_info(fn):
    """[(length or None, prefix)]: first entry whose length matches (None = any)"""
    src = _src(strip_docstring(fn.body))
    if len(src) != 1:
        return None
    m = re.fullmatch(r"return base58_encode\(data, (b'[^']*')\)\.decode\(\)", src[0])
    if m:
        return [(None, ast.literal_eval(m.group(1)))]
    m = re.fullmatch(r"return base58_encode\(data, (b'[^']*') if len\(data\) == (\d+) else (b'[^']*')\)\.decode\(\)", src[0])
    if m:
        return [(int(m.group(2)), ast.literal_eval(m.group(1))), (None, ast.literal_eval(m.group(3)))]
    return None


@generator('C10')
def gen(status):
    # C10's model sits on the base58 table: keep Generated/C09.lean current too
    for k, v in extract.generate('C09').items():
        status['C09:' + k] = v
    tree = parse('michelson/forge.py')
    out = []

    def flag(name, ok):
        out.append(f'def {name} : Bool := {"true" if ok else "false"}')

    fa = forge_address_info(find_func(tree, 'forge_address'))
    status['forge_address chain'] = (fa is not None, f'{len(fa)} prefixes' if fa else 'unrecognised')
    flag('forgeAddressRecognised', fa is not None)
    out.append("/-- `forge_address`: textual prefix -> (bytes in front of the hash, bytes after it); prefix = `value[:4]` for `txr1`, else `value[:3]` -/")
    out.append('def forgeAddressChain : List (List Nat × List Nat × List Nat) := ' + lean_list(f'({_b(k)}, {_b(a)}, {_b(z)})' for k, a, z in (fa or [])))
    out.append('def longTextPrefix : List Nat := ' + _b(b'txr1'))

    ua = unforge_address_info(find_func(tree, 'unforge_address'))
    status['unforge_address shape'] = (ua is not None, f'tz_prefixes {len(ua[0])}, originated {len(ua[1])}, 21-byte input dispatched on length: {ua[2]}' if ua else 'unrecognised')
    flag('unforgeAddressRecognised', ua is not None)
    out.append('/-- `tz_prefixes` (insertion order): binary prefix -> human prefix -/')
    out.append('def tzPrefixes : List (List Nat × List Nat) := ' + lean_list(f'({_b(k)}, {_b(v)})' for k, v in (ua[0] if ua else [])))
    out.append('/-- the `startswith(a) and endswith(z)` chain: (a, z, human prefix) -/')
    out.append('def originatedChain : List (Nat × Nat × List Nat) := ' + lean_list(f'({a[0]}, {z[0]}, {_b(h)})' for a, z, h in (ua[1] if ua else [])))
    out.append('/-- is 21-byte input (the key-hash form) recognised by its length before any content test? -/')
    flag('unforgeLengthFirst', bool(ua and ua[2]))

    fc = _src(strip_docstring(find_func(tree, 'forge_contract').body))
    tail = ["address, entrypoint = (parts[0], parts[1]) if len(parts) == 2 else (parts[0], 'default')", 'res = forge_address(address)',
            "if entrypoint != 'default': res += entrypoint.encode()", 'return res']
    split = {"parts = value.split('%')": False, "parts = value.split('%', 1)": True}.get(fc[0]) if len(fc) == 5 and fc[1:] == tail else None
    status['forge_contract shape'] = (split is not None, f"split at the first '%' only: {split}" if split is not None else 'unrecognised: ' + ' | '.join(fc)[:300])
    flag('forgeContractRecognised', split is not None)
    out.append("/-- `true`: `value.split('%', 1)`; `false`: `value.split('%')` with the `len(parts) == 2` test -/")
    flag('splitFirstOnly', bool(split))

    uc = _src(strip_docstring(find_func(tree, 'unforge_contract').body))
    uc_ok = uc == ['res = unforge_address(data[:22])', "if len(data) > 22: res += f'%{data[22:].decode()}'", 'return res']
    status['unforge_contract shape'] = (uc_ok, '22-byte address then entrypoint' if uc_ok else 'unrecognised: ' + ' | '.join(uc)[:300])
    flag('unforgeContractRecognised', uc_ok)

    pk = public_key_info(find_func(tree, 'forge_public_key'), find_func(tree, 'unforge_public_key'))
    status['public key maps'] = (pk is not None, f'{len(pk[0])} / {len(pk[1])} entries' if pk else 'unrecognised')
    flag('publicKeyRecognised', pk is not None)
    out.append('/-- `forge_public_key`: textual prefix (`value[:4]`) -> tag byte -/')
    out.append('def keyTagOfPrefix : List (List Nat × Nat) := ' + lean_list(f'({_b(k)}, {t[0]})' for k, t in (pk[0] if pk else [])))
    out.append('/-- `unforge_public_key`: `key_prefix` dict, tag byte -> human prefix -/')
    out.append('def keyPrefixOfTag : List (Nat × List Nat) := ' + lean_list(f'({t[0]}, {_b(h)})' for t, h in (pk[1] if pk else [])))

    ci = _src(strip_docstring(find_func(tree, 'unforge_chain_id').body))
    m = re.fullmatch(r"return base58_encode\(data, (b'[^']*')\)\.decode\(\)", ci[0]) if len(ci) == 1 else None
    status['unforge_chain_id shape'] = (m is not None, m.group(1) if m else 'unrecognised')
    flag('chainIdRecognised', m is not None)
    out.append('def chainIdPrefix : List Nat := ' + _b(ast.literal_eval(m.group(1)) if m else b''))

    sg = signature_info(find_func(tree, 'unforge_signature'))
    status['unforge_signature shape'] = (sg is not None, str(sg) if sg else 'unrecognised')
    flag('signatureRecognised', sg is not None)
    out.append('/-- `unforge_signature`: (length test or none, human prefix), first match -/')
    out.append('def signaturePrefixes : List (Option Nat × List Nat) := ' + lean_list(f'({"none" if n is None else "some " + str(n)}, {_b(h)})' for n, h in (sg or [])))

    fb = _src(strip_docstring(find_func(tree, 'forge_base58').body))
    fb_ok = fb == ['return base58_decode(value.encode())']
    status['forge_base58 shape'] = (fb_ok, 'base58_decode(value.encode())' if fb_ok else 'unrecognised')
    flag('forgeBase58Recognised', fb_ok)
    return '\n'.join(out) + '\n'
