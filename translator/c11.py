"""C11 — src/pytezos/michelson/types/*.py, format.py -> Generated/C11.lean

* `PairType.iter_comb`: is the right component spliced in only when its class is unannotated
  (`not (item.field_name or item.type_name)`, pinned) or whenever it is a pair (C17's repair)?
* `PairType.to_micheline_value` / `from_micheline_value`: recognised statement by statement (modes, the 2 / 3 / >= 4
  layouts of the optimized form, the accepted arities, `assert not annots` on a `Pair` node, `issubclass(cls.args[1],
  PairType)` before three or more arguments go to the right component) — the Lean mirror is written against exactly this text;
* `parse_micheline_value` (annotated data nodes rejected, then the handler lookup) and `StringType.from_value` (ASCII;
  newline or 0x20..0x7e), statement by statement as well;
* `TimestampType.to_micheline_value`: the range guard of the readable branch (none on the pinned tree) with its bounds;
* `format_timestamp`: is the year zero-padded (`%Y` of glibc is not)?
* `optimize_timestamp` / `TimestampType.from_micheline_value`: the string handler is
  `int(strict_rfc3339.rfc3339_to_timestamp(s))` with the `int(s)` fallback (mirrored by `Civil.parseTimestamp` + `pyInt`);
* the handler tables `parse_micheline_value(val_expr, {...})` / `parse_micheline_literal(val_expr, {...})` of every
  class (which (prim, arity) pairs / literal kinds `from_micheline_value` accepts);
* `BLS12_381_FrType.modulus`, the bit width checked by `MutezType.from_value`.
Nothing is imported from pytezos; an unrecognised construct is reported and never guessed."""
import ast

from translator.extract import find_assign, find_class, find_func, generator, lean_list, lean_str, parse, strip_docstring


def _body(fn):
    return [ast.unparse(s) for s in strip_docstring(fn.body)]


def _class_prim(cls):
    for kw in cls.keywords:
        if kw.arg == 'prim' and isinstance(kw.value, ast.Constant):
            return kw.value.value
    return None


def _const_int(node, module):
    """int literal, -literal, or a module-level name bound to one"""
    if isinstance(node, ast.Constant) and type(node.value) is int:
        return node.value
    if isinstance(node, ast.UnaryOp) and isinstance(node.op, ast.USub):
        v = _const_int(node.operand, module)
        return None if v is None else -v
    if isinstance(node, ast.Name):
        v = find_assign(module, node.id)
        return None if v is None else _const_int(v, module)
    return None


PAIR_TO_MICH = [
    "if mode == 'legacy_optimized':\n    items = self.items\nelse:\n    items = list(self.iter_comb())",
    "args = [arg.to_micheline_value(mode=mode, lazy_diff=lazy_diff) for arg in items]",
    "if mode in ['readable', 'legacy_optimized']:\n    return {'prim': 'Pair', 'args': args}\n"
    "elif mode == 'optimized':\n"
    "    if len(args) == 2:\n        return {'prim': 'Pair', 'args': args}\n"
    "    elif len(args) == 3:\n        return {'prim': 'Pair', 'args': [args[0], {'prim': 'Pair', 'args': args[1:]}]}\n"
    "    elif len(args) >= 4:\n        return args\n"
    "    else:\n        raise AssertionError(MSG)\n"
    "else:\n    raise AssertionError(MSG)",
]

PAIR_FROM_MICH = [
    # a `Pair` node that carries annotations is not a value (3f5c1d7) ...
    "if isinstance(val_expr, dict):\n    prim, args = (val_expr.get('prim'), val_expr.get('args', []))\n    assert prim == 'Pair', MSG\n"
    "    assert not val_expr.get('annots'), MSG\n"
    "elif isinstance(val_expr, list):\n    args = val_expr\nelse:\n    raise AssertionError(MSG)",
    # ... and three or more arguments need a pair type on the right (1138dca)
    "if len(args) == 2:\n    value = tuple((cls.args[i].from_micheline_value(arg) for i, arg in enumerate(args)))\n"
    "elif len(args) > 2:\n    assert issubclass(cls.args[1], PairType), MSG\n"
    "    value = (cls.args[0].from_micheline_value(args[0]), cls.args[1].from_micheline_value(args[1:]))\n"
    "else:\n    raise AssertionError(MSG)",
    "return cls(value)",
]

# `parse_micheline_value` (micheline.py): the reader behind unit / bool / option / or / the `Elt` of map and big_map.  The
# mirror (`Impl.Value.leafOfMich` / `ofMichCore` / `mapElts`) rejects an annotated node before it looks the (prim, arity)
# pair up, as this text does
PARSE_VALUE = [
    "assert isinstance(val_expr, dict), MSG",
    "prim, args = (val_expr.get('prim'), val_expr.get('args', []))",
    "assert not val_expr.get('annots'), MSG",
    "expected = ' or '.join(map(lambda x: f'{x[0]} ({x[1]} args)', handlers))",
    "assert (prim, len(args)) in handlers, MSG",
    "handler = handlers[prim, len(args)]",
    "return handler(args)",
]

# `StringType.from_value`: ASCII, and every character is a newline or printable (45078c3) — `VC.asciiOnly`
STRING_FROM_VALUE = [
    "assert isinstance(value, str), MSG",
    "assert len(value) == len(value.encode()), MSG",
    "assert all((c == '\\n' or ' ' <= c <= '~' for c in value)), MSG",
    "return cls(value)",
]


class _BlankMessages(ast.NodeTransformer):
    """assertion / exception messages are not observable through the error class"""

    def visit_Assert(self, node):
        self.generic_visit(node)
        if node.msg is not None:
            node.msg = ast.Name(id='MSG', ctx=ast.Load())
        return node

    def visit_Raise(self, node):
        self.generic_visit(node)
        if isinstance(node.exc, ast.Call) and node.exc.args:
            node.exc.args = [ast.Name(id='MSG', ctx=ast.Load())]
        return node


def _norm_body(fn):
    import copy
    fn = _BlankMessages().visit(copy.deepcopy(fn))
    return _body(fn)


def _handler_keys(fn, callee):
    """keys of the dict literal passed as 2nd argument to `callee(val_expr, {...})` inside fn (exactly one call)"""
    calls = [n for n in ast.walk(fn) if isinstance(n, ast.Call) and isinstance(n.func, ast.Name) and n.func.id == callee]
    if len(calls) != 1 or len(calls[0].args) != 2 or not isinstance(calls[0].args[1], ast.Dict):
        return None
    keys = []
    for k in calls[0].args[1].keys:
        if isinstance(k, ast.Constant) and isinstance(k.value, str):
            keys.append(k.value)
        elif isinstance(k, ast.Tuple) and len(k.elts) == 2 and all(isinstance(e, ast.Constant) for e in k.elts) \
                and isinstance(k.elts[0].value, str) and type(k.elts[1].value) is int:
            keys.append((k.elts[0].value, k.elts[1].value))
        else:
            return None
    return keys


VALUE_CLASSES = [('types/core.py', 'BoolType', 'from_micheline_value'), ('types/core.py', 'UnitType', 'from_micheline_value'),
                 ('types/option.py', 'OptionType', 'from_micheline_value'), ('types/sum.py', 'OrType', 'from_micheline_value'),
                 ('types/map.py', 'MapType', 'parse_micheline_value')]
LITERAL_CLASSES = [('types/core.py', 'StringType'), ('types/core.py', 'IntType'), ('types/core.py', 'NatType'),
                   ('types/core.py', 'BytesType'), ('types/domain.py', 'TimestampType'), ('types/domain.py', 'AddressType'),
                   ('types/domain.py', 'TXRAddress'), ('types/domain.py', 'KeyType'), ('types/domain.py', 'KeyHashType'),
                   ('types/domain.py', 'SignatureType'), ('types/domain.py', 'ChainIdType'), ('types/bls.py', 'BLS12_381_FrType'),
                   ('types/big_map.py', 'BigMapType'), ('types/sapling.py', 'SaplingStateType')]


@generator('C11')
def gen(status):
    out = []
    trees = {}

    def tree(rel):
        if rel not in trees:
            trees[rel] = parse('michelson/' + rel)
        return trees[rel]

    # --- iter_comb
    pair = find_class(tree('types/pair.py'), 'PairType')
    it = find_func(pair, 'iter_comb')
    flag = None
    ifs = [n for n in ast.walk(it) if isinstance(n, ast.If)]
    tests = [ast.unparse(n.test) for n in ifs]
    if len(tests) == 2 and tests[0] == 'include_nodes':
        if tests[1] == 'i == 1 and isinstance(item, PairType) and (not (item.field_name or item.type_name))':
            flag = True
        elif tests[1] == 'i == 1 and isinstance(item, PairType)':
            flag = False
    status['PairType.iter_comb splice test'] = (flag is not None, f'consults annotations: {flag}' if flag is not None else f'unrecognised tests {tests}')
    out.append('/-- does `iter_comb` splice the right component in only when its class is unannotated? -/')
    out.append('def combConsultsAnnots : Option Bool := ' + ('none' if flag is None else f'some {str(flag).lower()}'))

    # --- PairType.to_micheline_value / from_micheline_value, statement by statement
    tm = _norm_body(find_func(pair, 'to_micheline_value'))
    ok_t = tm == PAIR_TO_MICH
    status['PairType.to_micheline_value shape'] = (ok_t, 'recognised' if ok_t else 'differs from the mirrored text: ' + ' | '.join(tm)[:400])
    out.append(f'def pairToMichRecognised : Bool := {str(ok_t).lower()}')
    fm = _norm_body(find_func(pair, 'from_micheline_value'))
    ok_f = fm == PAIR_FROM_MICH
    status['PairType.from_micheline_value shape'] = (ok_f, 'recognised' if ok_f else 'differs from the mirrored text: ' + ' | '.join(fm)[:400])
    out.append(f'def pairFromMichRecognised : Bool := {str(ok_f).lower()}')
    pv_fn = find_func(tree('micheline.py'), 'parse_micheline_value')
    pv = _norm_body(pv_fn) if pv_fn is not None else []
    ok_pv = pv == PARSE_VALUE
    status['parse_micheline_value shape'] = (ok_pv, 'recognised (annotated data nodes rejected)' if ok_pv
                                             else 'differs from the mirrored text: ' + ' | '.join(pv)[:400])
    out.append('/-- `parse_micheline_value`: dict, no annotations, `(prim, len(args))` looked up in the handler table -/')
    out.append(f'def parseValueRecognised : Bool := {str(ok_pv).lower()}')
    sfv_cls = find_class(tree('types/core.py'), 'StringType')
    sfv_fn = find_func(sfv_cls, 'from_value') if sfv_cls is not None else None
    sfv = _norm_body(sfv_fn) if sfv_fn is not None else []
    ok_sfv = sfv == STRING_FROM_VALUE
    status['StringType.from_value shape'] = (ok_sfv, 'recognised (ASCII; newline or 0x20..0x7e)' if ok_sfv
                                             else 'differs from the mirrored text: ' + ' | '.join(sfv)[:400])
    out.append('/-- `StringType.from_value`: `len(s) == len(s.encode())` and every character is `\\n` or in `\' \' … \'~\'` -/')
    out.append(f'def stringFromValueRecognised : Bool := {str(ok_sfv).lower()}')

    # --- TimestampType.to_micheline_value
    dom = tree('types/domain.py')
    ts = find_func(find_class(dom, 'TimestampType'), 'to_micheline_value')
    guard = 'none'
    detail = 'unrecognised body'
    body = strip_docstring(ts.body)
    if len(body) == 1 and isinstance(body[0], ast.If):
        top = body[0]
        if ast.unparse(top.test) == "mode in ['optimized', 'legacy_optimized']" and [ast.unparse(s) for s in top.body] == ["return {'int': str(self.value)}"] \
                and len(top.orelse) == 1 and isinstance(top.orelse[0], ast.If) and ast.unparse(top.orelse[0].test) == "mode == 'readable'" \
                and len(top.orelse[0].orelse) == 1 and isinstance(top.orelse[0].orelse[0], ast.Raise):
            rb = top.orelse[0].body
            if [ast.unparse(s) for s in rb] == ["return {'string': format_timestamp(self.value)}"]:
                guard, detail = 'some none', 'no range guard (pinned shape)'
            elif len(rb) == 2 and isinstance(rb[0], ast.If) and not rb[0].orelse \
                    and [ast.unparse(s) for s in rb[0].body] == ["return {'string': format_timestamp(self.value)}"] \
                    and ast.unparse(rb[1]) == "return {'int': str(self.value)}":
                t = rb[0].test
                if isinstance(t, ast.Compare) and len(t.ops) == 2 and all(isinstance(o, ast.LtE) for o in t.ops) \
                        and ast.unparse(t.comparators[0]) == 'self.value':
                    lo, hi = _const_int(t.left, dom), _const_int(t.comparators[1], dom)
                    if lo is not None and hi is not None:
                        guard, detail = f'some (some (({lo} : Int), ({hi} : Int)))', f'range guard [{lo}, {hi}]'
    status['TimestampType.to_micheline_value shape'] = (guard != 'none', detail)
    out.append('/-- `some none`: the readable branch always formats; `some (some (lo, hi))`: RFC 3339 text only inside the range, integer outside -/')
    out.append(f'def tsGuard : Option (Option (Int × Int)) := {guard}')

    # --- format_timestamp
    ft = _body(find_func(tree('format.py'), 'format_timestamp'))
    padded = None
    if ft == ['dt = datetime.fromtimestamp(timestamp, timezone.utc)', "return dt.strftime('%Y-%m-%dT%H:%M:%SZ')"]:
        padded = False
    elif ft == ['dt = datetime.fromtimestamp(timestamp, timezone.utc)', "return f'{dt.year:04d}' + dt.strftime('-%m-%dT%H:%M:%SZ')"]:
        padded = True
    status['format_timestamp shape'] = (padded is not None, f'year zero-padded: {padded}' if padded is not None else 'unrecognised: ' + ' | '.join(ft)[:300])
    out.append('/-- is the year of `format_timestamp` zero-padded to four digits (glibc `%Y` is not)? -/')
    out.append('def yearPadded : Option Bool := ' + ('none' if padded is None else f'some {str(padded).lower()}'))

    # --- optimize_timestamp (the 'string' handler of TimestampType.from_micheline_value) and the string handler itself
    ot_fn = find_func(tree('forge.py'), 'optimize_timestamp')
    ot = _body(ot_fn) if ot_fn is not None else []
    tfm_fn = find_func(find_class(dom, 'TimestampType'), 'from_micheline_value')
    tfm = _body(tfm_fn) if tfm_fn is not None else []
    ot_ok = ot == ['assert isinstance(value, str)',
                   'with suppress(strict_rfc3339.InvalidRFC3339Error):\n    return int(strict_rfc3339.rfc3339_to_timestamp(value))',
                   'return int(value)'] \
        and tfm == ["value = parse_micheline_literal(val_expr, {'int': int, 'string': optimize_timestamp})", 'return cls.from_value(value)']
    status['optimize_timestamp shape'] = (ot_ok, 'int(strict_rfc3339.rfc3339_to_timestamp(s)), else int(s)' if ot_ok
                                          else 'unrecognised: ' + ' | '.join(ot + tfm)[:300])
    out.append('/-- a timestamp string is read by `int(strict_rfc3339.rfc3339_to_timestamp(s))`, falling back to `int(s)` -/')
    out.append(f'def tsParseRecognised : Bool := {str(ot_ok).lower()}')

    # --- constants
    fr = find_class(tree('types/bls.py'), 'BLS12_381_FrType')
    mod = next((s.value.value for s in fr.body if isinstance(s, ast.Assign) and ast.unparse(s.targets[0]) == 'modulus'
                and isinstance(s.value, ast.Constant) and type(s.value.value) is int), None)
    frv = _body(find_func(fr, 'from_value'))
    mod_ok = mod is not None and frv == ['return cls(value % cls.modulus)']
    status['BLS12_381_FrType modulus'] = (mod_ok, str(mod) if mod_ok else 'unrecognised')
    out.append('def frModulus : Option Nat := ' + (f'some {mod}' if mod_ok else 'none'))
    mz = _norm_body(find_func(find_class(dom, 'MutezType'), 'from_value'))
    bits = None
    if len(mz) == 3 and mz[0] == 'assert value >= 0, MSG' and mz[2] == 'return cls(value)':
        import re
        m = re.fullmatch(r'if value\.bit_length\(\) > (\d+):\n    raise OverflowError\(MSG\)', mz[1])
        if m:
            bits = int(m.group(1))
    status['MutezType.from_value width'] = (bits is not None, f'{bits} bits' if bits is not None else 'unrecognised: ' + ' | '.join(mz)[:300])
    out.append('def mutezBits : Option Nat := ' + ('none' if bits is None else f'some {bits}'))

    # --- handler tables
    rows, ok = [], True
    for rel, cname, fname in VALUE_CLASSES:
        cls = find_class(tree(rel), cname)
        keys = _handler_keys(find_func(cls, fname), 'parse_micheline_value') if cls is not None else None
        if keys is None or not all(isinstance(k, tuple) for k in keys):
            ok = False
            continue
        rows.append((_class_prim(cls), keys))
    status['parse_micheline_value handler tables'] = (ok, f'{len(rows)} classes' if ok else 'a handler dict is not a literal of (prim, arity) keys')
    out.append('def valueHandlers : List (String × List (String × Nat)) := ' + (lean_list(
        f'({lean_str(p)}, {lean_list(f"({lean_str(a)}, {n})" for a, n in keys)})' for p, keys in rows) if ok else '[]'))
    rows, ok = [], True
    for rel, cname in LITERAL_CLASSES:
        cls = find_class(tree(rel), cname)
        fn = find_func(cls, 'from_micheline_value') if cls is not None else None
        keys = _handler_keys(fn, 'parse_micheline_literal') if fn is not None else None
        if keys is None or not all(isinstance(k, str) for k in keys):
            ok = False
            continue
        rows.append((_class_prim(cls), keys))
    status['parse_micheline_literal handler tables'] = (ok, f'{len(rows)} classes' if ok else 'a handler dict is not a literal of str keys')
    out.append('def literalHandlers : List (String × List String) := ' + (lean_list(
        f'({lean_str(p)}, {lean_list(lean_str(k) for k in keys)})' for p, keys in rows) if ok else '[]'))
    return '\n'.join(out) + '\n'
