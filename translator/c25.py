"""C25 — how pytezos computes the counters of an operation group.

Structural facts read from the source (unrecognised construct => `none` + failed status line):
  context/impl.py   get_counter     cached counter: fetched from the node only when the cache is empty, then incremented
                                    and returned                                     -> getCounterCached
                    reset           clears the cache                                 -> resetClearsCache
                    get_counter_offset  counts the contents whose source is the key's address over
                                    mempool['applied'] ++ mempool['unprocessed']    -> offsetCountsOwnPending
  operation/group.py fill           counter of a content left at '' / '0' := str(get_counter()); does fill start from an
                                    empty cache? does it add the mempool offset?      -> fillResetsCache, fillUsesMempool
                    autofill        fill -> run (simulation) -> get_counter_offset -> counter += offset for every content
                                                                                       -> autofillAddsOffset
                    inject          `self.context.reset()` executed before anything else (so also when the group is
                                    not signed or the node refuses)                   -> injectResetsFirst
"""
import ast

from translator.extract import drop_logging, find_class, find_func, generator, parse, strip_docstring


def _u(node):
    return ast.unparse(node).replace(' ', '').replace('\n', '')


def _b(v):
    return 'none' if v is None else ('some true' if v else 'some false')


@generator('C25')
def gen_c25(status):
    impl = parse('context/impl.py')
    group = parse('operation/group.py')
    ctx = find_class(impl, 'ExecutionContext')
    out = []

    # ---- get_counter -------------------------------------------------------------------------------------
    body = [_u(s) for s in strip_docstring(find_func(ctx, 'get_counter').body)]
    want = ["ifself.counterisNone:ifnotself.key:raiseException('keyisundefined')ifnotself.shell:raiseException('shellisundefined')"
            "key_hash=self.key.public_key_hash()self.counter=int(self.shell.contracts[key_hash]()['counter'])",
            'self.counter+=1', 'returnself.counter']
    ok = body == want
    status['ExecutionContext.get_counter shape'] = (ok, 'cache / fetch-if-empty / increment / return' if ok else ' | '.join(body)[:400])
    out.append('/-- get_counter: `if self.counter is None: self.counter = <counter on the node>`; `self.counter += 1`; return it -/')
    out.append(f'def getCounterCached : Option Bool := {_b(True if ok else None)}')

    # ---- reset / set_counter -----------------------------------------------------------------------------
    rbody = [_u(s) for s in strip_docstring(find_func(ctx, 'reset').body)]
    ok = 'self.counter=None' in rbody
    sbody = [_u(s) for s in strip_docstring(find_func(ctx, 'set_counter').body)]
    ok2 = sbody == ['self.counter=counter']
    status['ExecutionContext.reset / set_counter'] = (ok and ok2, 'reset clears the cached counter' if ok and ok2 else f'{rbody} {sbody}'[:300])
    out.append(f'def resetClearsCache : Option Bool := {_b(True if ok and ok2 else None)}')

    # ---- get_counter_offset ------------------------------------------------------------------------------
    obody = drop_logging(strip_docstring(find_func(ctx, 'get_counter_offset').body))
    texts = [_u(s) for s in obody]
    want_tail = ['counter_offset=0', 'key_hash=self.key.public_key_hash()', 'mempool=self.shell.mempool.pending_operations()']
    loop_ok = False
    for s in obody:
        if isinstance(s, ast.For) and _u(s.iter) == "chain(mempool.get('applied',[]),mempool.get('unprocessed',[]))":
            inner = drop_logging(s.body)
            it = [_u(x) for x in inner]
            if len(inner) == 2 and it[0] == 'ifisinstance(operation,list):operation=operation[1]' and isinstance(inner[1], ast.For) \
                    and _u(inner[1].iter) == "operation.get('contents',[])":
                ib = drop_logging(inner[1].body)
                if len(ib) == 1 and isinstance(ib[0], ast.If) and _u(ib[0].test) == "content.get('source')==key_hash" \
                        and [_u(x) for x in drop_logging(ib[0].body)] == ['counter_offset+=1']:
                    loop_ok = True
    ok = loop_ok and all(t in texts for t in want_tail) and texts[-1] == 'returncounter_offset'
    status['ExecutionContext.get_counter_offset shape'] = (ok, 'counts own contents in applied ++ unprocessed' if ok else ' | '.join(texts)[:400])
    out.append(f'def offsetCountsOwnPending : Option Bool := {_b(True if ok else None)}')

    # ---- fill ------------------------------------------------------------------------------------------------
    cls = find_class(group, 'OperationGroup')
    fill = find_func(cls, 'fill')
    ftexts = [_u(s) for s in fill.body]
    rm = None
    for s in fill.body:
        if isinstance(s, ast.Assign) and _u(s.targets[0]) == 'replace_map' and isinstance(s.value, ast.Dict):
            rm = dict(zip([k.value for k in s.value.keys if isinstance(k, ast.Constant)], s.value.values))
    set_ok = 'ifcounterisnotNone:self.context.set_counter(counter-1)' in ftexts
    resets = None
    uses_mempool = None
    if rm is not None and 'counter' in rm:
        c = _u(rm['counter'])
        if c == 'lambdai,x:str(self.context.get_counter())':
            uses_mempool = False
        elif c in ('lambdai,x:str(self.context.get_counter()+counter_offset)', 'lambdai,x:str(counter_offset+self.context.get_counter())') \
                and any(t.startswith('counter_offset=') and 'get_counter_offset()' in t for t in ftexts):
            uses_mempool = True
    if set_ok:
        resets = False
    elif 'ifcounterisnotNone:self.context.set_counter(counter-1)else:self.context.set_counter(None)' in ftexts \
            or 'self.context.set_counter(counter-1ifcounterisnotNoneelseNone)' in ftexts:
        resets = True
    fc = find_func(fill, 'fill_content')
    fc_ok = fc is not None and [_u(s) for s in fc.body] == [
        'content=content.copy()',
        "fork,vinreplace_map.items():ifcontent.get(k)in['','0']:content[k]=v(idx,content)ifcallable(v)elsev",
        'returncontent']
    spawn_ok = any(t.startswith('returnself._spawn(contents=[fill_content(idx=i,content=x)fori,xinenumerate(self.contents)]') for t in ftexts)
    ok = resets is not None and uses_mempool is not None and fc_ok and spawn_ok
    status['OperationGroup.fill counter handling'] = (ok, f'resets cache first: {resets}; adds mempool offset: {uses_mempool}' if ok else
                                                      f'resets={resets} uses_mempool={uses_mempool} fill_content_ok={fc_ok} spawn_ok={spawn_ok}')
    out.append('/-- does `fill()` forget the cached counter before computing counters (pinned: no — it continues from the cache) -/')
    out.append(f'def fillResetsCache : Option Bool := {_b(resets if ok else None)}')
    out.append('/-- does `fill()` add the number of own pending operations (pinned: no) -/')
    out.append(f'def fillUsesMempool : Option Bool := {_b(uses_mempool if ok else None)}')

    # ---- autofill ------------------------------------------------------------------------------------------
    af = find_func(cls, 'autofill')
    atexts = [_u(s) for s in af.body]
    order = ['opg=self.fill(counter=counter,ttl=ttl)', 'opg_with_metadata=opg.run()',
             'ifnotOperationResult.is_applied(opg_with_metadata):raiseRpcError.from_errors(OperationResult.errors(opg_with_metadata))',
             'counter_offset=self.context.get_counter_offset()']
    pos = [atexts.index(t) if t in atexts else -1 for t in order]
    ord_ok = all(p >= 0 for p in pos) and pos == sorted(pos)
    upd_ok = False
    for s in ast.walk(af):
        if isinstance(s, ast.Call) and _u(s.func) == 'content.update':
            kw = {k.arg: _u(k.value) for k in s.keywords}
            if kw.get('counter') == 'str(current_counter+counter_offset)':
                upd_ok = True
    cur_ok = any("current_counter=int(content['counter'])" in t for t in [_u(s) for s in ast.walk(af) if isinstance(s, ast.Assign)])
    ok = ord_ok and upd_ok and cur_ok
    status['OperationGroup.autofill counter handling'] = (ok, 'fill -> simulate -> offset -> counter += offset' if ok else
                                                          f'order={pos} update_ok={upd_ok} current_ok={cur_ok}')
    out.append('/-- autofill: counters of the simulated contents are moved by the mempool offset, for every content -/')
    out.append(f'def autofillAddsOffset : Option Bool := {_b(True if ok else None)}')

    # ---- inject --------------------------------------------------------------------------------------------
    inj = find_func(cls, 'inject')
    ibody = drop_logging(strip_docstring(inj.body))
    it = [_u(s) for s in ibody]
    first = None
    if len(it) >= 2 and it[1].startswith('opg_hash=self.shell.injection.operation.post(operation=self.binary_payload(),'):
        if it[0] == 'self.context.reset()':
            first = True
    bp = [_u(s) for s in strip_docstring(find_func(cls, 'binary_payload').body)]
    bp_ok = bp == ["ifnotself.signature:raiseValueError('Notsigned')", 'returnbytes.fromhex(self.forge())+forge_base58(self.signature)']
    ok = first is not None and bp_ok
    status['OperationGroup.inject shape'] = (ok, 'context.reset() first, then post(binary_payload())' if ok else ' | '.join(it[:3])[:300] + f' bp_ok={bp_ok}')
    out.append('/-- inject: `self.context.reset()` runs before the payload is built and posted (so also on "Not signed" and on refusal) -/')
    out.append(f'def injectResetsFirst : Option Bool := {_b(first if ok else None)}')
    return '\n'.join(out) + '\n'
