"""C18 — Michelson text formatter / lexer / parser tables.

Reads `michelson/format.py`, `michelson/parse.py`, `michelson/tags.py` with `ast` only and regenerates
`Generated/C18.lean`:

* `lineSize`, the `is_framed` rule (pinned shape: two prim sets; repaired shape: "applied or annotated"),
  the `is_complex` / `is_inline` / `is_script` constants;
* every `t_*` lexer rule as a string, the PLY master-regex order (string rules sorted by decreasing regex
  length, ties in `dir()` order), and each regex *classified* into the character classes the Lean lexer model
  consumes (a small regex reader; a regex of another shape is never guessed: the table becomes `none`);
* the grammar: every `@doc` production with its action is compared with the productions the hand-written
  recursive-descent model transcribes (`grammarRecognised`);
* the `prim_tags` key list.
"""
import ast

from translator.extract import find_assign, find_class, find_func, generator, lean_list, lean_str, parse


# ---------------------------------------------------------------------------------------------------------
# a reader for the regex subset used by the lexer
class RxError(ValueError):
    pass


def _read_class(s, i):
    """s[i] == '['; returns ((neg, ranges), next index); ranges = sorted list of (lo, hi) code points"""
    i += 1
    neg = False
    if s[i] == '^':
        neg = True
        i += 1
    items = []
    while s[i] != ']':
        if s[i] == '\\':
            c = s[i + 1]
            if c == 'n':
                c = '\n'
            elif c.isalnum():
                raise RxError(f'class escape \\{c}')
            i += 2
        else:
            c = s[i]
            i += 1
        if s[i] == '-' and s[i + 1] != ']':
            hi = s[i + 1]
            if hi == '\\':
                raise RxError('escaped range end')
            items.append((ord(c), ord(hi)))
            i += 2
        else:
            items.append((ord(c), ord(c)))
    return ('cls', neg, sorted(items)), i + 1


def rx_read(s):
    """regex string -> list (sequence) of nodes:
    ('chr', c) | ('cls', neg, ranges) | ('dot',) | ('grp', [alt sequences]) each optionally wrapped in
    ('star'|'plus'|'opt', node)"""
    def seq(i, closing):
        alts, cur = [], []
        while i < len(s):
            ch = s[i]
            if ch == ')':
                if not closing:
                    raise RxError('unbalanced )')
                alts.append(cur)
                return alts, i + 1
            if ch == '|':
                alts.append(cur)
                cur = []
                i += 1
                continue
            if ch == '(':
                if s[i + 1:i + 2] == '?':
                    raise RxError('group extension')
                inner, i = seq(i + 1, True)
                node = ('grp', inner)
            elif ch == '[':
                node, i = _read_class(s, i)
            elif ch == '\\':
                c = s[i + 1]
                if c.isalnum():
                    raise RxError(f'escape \\{c}')
                node = ('chr', c)
                i += 2
            elif ch == '.':
                node = ('dot',)
                i += 1
            elif ch in '*+?{}^$':
                raise RxError(f'unexpected {ch!r}')
            else:
                node = ('chr', ch)
                i += 1
            if i < len(s) and s[i] in '*+?':
                node = ({'*': 'star', '+': 'plus', '?': 'opt'}[s[i]], node)
                i += 1
                if i < len(s) and s[i] in '*+?':
                    raise RxError('lazy/possessive quantifier')
            cur.append(node)
        if closing:
            raise RxError('unbalanced (')
        alts.append(cur)
        return alts, i
    alts, _ = seq(0, False)
    if len(alts) != 1:
        raise RxError('top-level alternation')
    return alts[0]


def _is_cls(n, neg=False):
    return n[0] == 'cls' and n[1] == neg


def _ranges(n):
    return list(n[2])


def classify(name, rx):
    """-> dict of extracted classes for the rule, or raises RxError"""
    t = rx_read(rx)
    if name == 'INT':          # -?[0-9]+
        if len(t) == 2 and t[0] == ('opt', ('chr', '-')) and t[1][0] == 'plus' and _is_cls(t[1][1]):
            return {'intDigits': _ranges(t[1][1])}
    elif name == 'BYTE':       # 0x[A-Fa-f0-9]*
        if len(t) == 3 and t[0] == ('chr', '0') and t[1] == ('chr', 'x') and t[2][0] == 'star' and _is_cls(t[2][1]):
            return {'byteDigits': _ranges(t[2][1])}
    elif name == 'STR':        # \"(\\.|[^\"])*\"
        q = ('chr', '"')
        body = ('star', ('grp', [[('chr', '\\'), ('dot',)], [('cls', True, [(34, 34)])]]))
        if t == [q, body, q]:
            return {'strShape': True}
    elif name == 'ANNOT':      # [:@%]+([body]*)?   or   [:@%]+([first][rest]*)?
        if len(t) == 2 and t[0][0] == 'plus' and _is_cls(t[0][1]) and t[1][0] == 'opt' and t[1][1][0] == 'grp' \
                and len(t[1][1][1]) == 1:
            inner = t[1][1][1][0]
            if len(inner) == 1 and inner[0][0] == 'star' and _is_cls(inner[0][1]):
                return {'annotHead': _ranges(t[0][1]), 'annotFirst': _ranges(inner[0][1]), 'annotRest': _ranges(inner[0][1])}
            if len(inner) == 2 and _is_cls(inner[0]) and inner[1][0] == 'star' and _is_cls(inner[1][1]):
                return {'annotHead': _ranges(t[0][1]), 'annotFirst': _ranges(inner[0]), 'annotRest': _ranges(inner[1][1])}
    elif name == 'PRIM':       # [A-Za-z][A-Za-z0-9_]+
        if len(t) == 2 and _is_cls(t[0]) and t[1][0] == 'plus' and _is_cls(t[1][1]):
            return {'primHead': _ranges(t[0]), 'primTail': _ranges(t[1][1])}
    elif name in PUNCT:
        if t == [('chr', PUNCT[name])]:
            return {}
    elif name == 'ignore_MULTI_COMMENT':   # /\*[^*]*\*/
        if t == [('chr', '/'), ('chr', '*'), ('star', ('cls', True, [(42, 42)])), ('chr', '*'), ('chr', '/')]:
            return {}
    elif name == 'ignore_COMMENT':         # #[^\n]*
        if t == [('chr', '#'), ('star', ('cls', True, [(10, 10)]))]:
            return {}
    raise RxError(f'shape of {name} not recognised: {rx!r}')


PUNCT = {'LEFT_CURLY': '{', 'RIGHT_CURLY': '}', 'LEFT_PAREN': '(', 'RIGHT_PAREN': ')', 'SEMI': ';'}
TOKENS = ('INT', 'BYTE', 'STR', 'ANNOT', 'PRIM', 'LEFT_CURLY', 'RIGHT_CURLY', 'LEFT_PAREN', 'RIGHT_PAREN', 'SEMI')

# the productions (and their actions, as normalised source) that the Lean recursive-descent model transcribes
GRAMMAR = [
    ('p_instr', 'instr : expr | empty', 'p[0] = p[1]'),
    ('p_instr_int', 'instr : INT', "p[0] = {'int': p[1]}"),
    ('p_instr_byte', 'instr : BYTE', "p[0] = {'bytes': p[1][2:]}"),
    ('p_instr_str', 'instr : STR', "p[0] = {'string': json.loads(p[1])}"),
    ('p_instr_list', 'instr : instr SEMI instr',
     'p[0] = []\nfor i in [p[1], p[3]]:\n    if type(i) is list:\n        p[0].extend(i)\n    elif i is not None:\n        p[0].append(i)'),
    ('p_instr_subseq', 'instr : LEFT_CURLY instr RIGHT_CURLY',
     'p[0] = Sequence()\nif type(p[2]) is list:\n    p[0].extend(p[2])\nelif p[2] is not None:\n    p[0].append(p[2])'),
    ('p_expr', 'expr : PRIM annots args',
     'prim = p[1]\nif prim in prim_tags or prim in self.extra_primitives:\n    expr = make_expr(prim=prim, annots=p[2] or [], args=p[3] or [])\n'
     'else:\n    try:\n        expr = expand_macro(prim=prim, annots=p[2] or [], args=p[3] or [])\n'
     '    except AssertionError as e:\n        raise MichelsonParserError(p.slice[1], str(e)) from e\n'
     'p[0] = Sequence(expr) if isinstance(expr, list) else expr'),
    ('p_annots', 'annots : annot | empty', 'if p[1] is not None:\n    p[0] = [p[1]]'),
    ('p_annots_list', 'annots : annots annot',
     'p[0] = []\nif type(p[1]) == list:\n    p[0].extend(p[1])\nif p[2] is not None:\n    p[0].append(p[2])'),
    ('p_annot', 'annot : ANNOT', 'p[0] = p[1]'),
    ('p_args', 'args : arg | empty', 'p[0] = []\nif p[1] is not None:\n    p[0].append(p[1])'),
    ('p_args_list', 'args : args arg',
     'p[0] = []\nif type(p[1]) == list:\n    p[0].extend(p[1])\nif p[2] is not None:\n    p[0].append(p[2])'),
    ('p_arg_prim', 'arg : PRIM', "p[0] = {'prim': p[1]}"),
    ('p_arg_int', 'arg : INT', "p[0] = {'int': p[1]}"),
    ('p_arg_byte', 'arg : BYTE', "p[0] = {'bytes': p[1][2:]}"),
    ('p_arg_str', 'arg : STR', "p[0] = {'string': json.loads(p[1])}"),
    ('p_arg_subseq', 'arg : LEFT_CURLY instr RIGHT_CURLY',
     'if type(p[2]) == list:\n    p[0] = p[2]\nelif p[2] is not None:\n    p[0] = [p[2]]\nelse:\n    p[0] = []'),
    ('p_arg_group', 'arg : LEFT_PAREN expr RIGHT_PAREN', 'p[0] = p[2]'),
    ('p_empty', 'empty :', '...'),
]
PARSE_BODY = "if len(code) > 0 and code[0] == '(' and (code[-1] == ')'):\n    code = code[1:-1]\nreturn self.parser.parse(code)"
MAKE_EXPR = 'return {k: v for k, v in kwargs.items() if v}'


def lean_ranges(rs):
    return lean_list(f'({a}, {b})' for a, b in rs)


def opt(v):
    return 'none' if v is None else f'some {v}'


def _body_src(fn):
    body = fn.body
    if body and isinstance(body[0], ast.Expr) and isinstance(body[0].value, ast.Constant) and isinstance(body[0].value.value, str):
        body = body[1:]
    return '\n'.join(ast.unparse(s) for s in body)


def _str_set(node):
    if isinstance(node, (ast.Set, ast.List, ast.Tuple)) and all(isinstance(e, ast.Constant) and isinstance(e.value, str) for e in node.elts):
        return [e.value for e in node.elts]
    return None


def framed_rule(fn):
    """-> ('byPrim', always, ifAnnots) | ('appliedOrAnnotated',) | None"""
    body = [s for s in fn.body if not (isinstance(s, ast.Expr) and isinstance(s.value, ast.Constant))]
    if len(body) == 1 and isinstance(body[0], ast.Return):
        src = ast.unparse(body[0].value).replace(' ', '')
        if src in ("bool(node.get('args'))orbool(node.get('annots'))",
                   "bool(node.get('annots'))orbool(node.get('args'))",
                   "bool(node.get('args')ornode.get('annots'))",
                   "bool(node.get('annots')ornode.get('args'))"):
            return ('appliedOrAnnotated',)
        return None
    if len(body) == 2 and isinstance(body[0], ast.If) and ast.unparse(body[1]) == 'return False':
        i1 = body[0]

        def prim_in(test):
            if isinstance(test, ast.Compare) and ast.unparse(test.left) == "node['prim']" and len(test.ops) == 1 \
                    and isinstance(test.ops[0], ast.In):
                return _str_set(test.comparators[0])
            return None
        a = prim_in(i1.test)
        if a is None or len(i1.body) != 1 or ast.unparse(i1.body[0]) != 'return True':
            return None
        if len(i1.orelse) != 1 or not isinstance(i1.orelse[0], ast.If):
            return None
        i2 = i1.orelse[0]
        b = prim_in(i2.test)
        if b is None or i2.orelse or len(i2.body) != 1 or ast.unparse(i2.body[0]) != "return 'annots' in node":
            return None
        return ('byPrim', a, b)
    return None


@generator('C18')
def gen_c18(status):
    out = []
    # ---- format.py ---------------------------------------------------------------------------------
    ftree = parse('michelson/format.py')
    ls = find_assign(ftree, 'line_size')
    ok = isinstance(ls, ast.Constant) and isinstance(ls.value, int) and not isinstance(ls.value, bool) and ls.value >= 0
    status['format.line_size'] = (ok, ast.unparse(ls) if ls is not None else 'missing')
    out.append(f'def lineSize : Option Nat := {opt(ls.value if ok else None)}\n')

    fr = framed_rule(find_func(ftree, 'is_framed'))
    status['format.is_framed shape'] = (fr is not None, fr[0] if fr else 'unrecognised: ' + ast.unparse(find_func(ftree, 'is_framed'))[:300])
    out.append('/-- `some none`: an argument is parenthesised iff it has args or annots (repaired shape);\n'
               '`some (some (always, ifAnnots))`: parenthesised by primitive name (pinned shape); `none`: not recognised -/')
    if fr is None:
        out.append('def framedRule : Option (Option (List String × List String)) := none\n')
    elif fr[0] == 'appliedOrAnnotated':
        out.append('def framedRule : Option (Option (List String × List String)) := some none\n')
    else:
        out.append('def framedRule : Option (Option (List String × List String)) :=\n  some (some (%s,\n    %s))\n'
                   % (lean_list(map(lean_str, fr[1])), lean_list(map(lean_str, fr[2]))))

    cx = find_func(ftree, 'is_complex')
    src = _body_src(cx)
    okc = src == "return node['prim'] == 'LAMBDA' or node['prim'].startswith('IF')"
    # generic reading: disjunction of  node['prim'] == K  and  node['prim'].startswith(K)
    eqs, prefs = [], []
    try:
        ret = [s for s in cx.body if isinstance(s, ast.Return)][0].value
        terms = ret.values if isinstance(ret, ast.BoolOp) and isinstance(ret.op, ast.Or) else [ret]
        for t in terms:
            if isinstance(t, ast.Compare) and ast.unparse(t.left) == "node['prim']" and isinstance(t.ops[0], ast.Eq) \
                    and isinstance(t.comparators[0], ast.Constant):
                eqs.append(t.comparators[0].value)
            elif isinstance(t, ast.Call) and ast.unparse(t.func) == "node['prim'].startswith" and len(t.args) == 1 \
                    and isinstance(t.args[0], ast.Constant) and isinstance(t.args[0].value, str):
                prefs.append(t.args[0].value)
            else:
                raise ValueError(ast.unparse(t))
        okc = len(cx.body) == 1 or okc
    except Exception as e:  # noqa
        okc = False
    status['format.is_complex'] = (okc, src[:200])
    out.append('/-- `is_complex`: (names compared with `==`, prefixes tested with `startswith`) -/')
    out.append('def complexRule : Option (List String × List String) := %s\n'
               % (opt('(%s, %s)' % (lean_list(map(lean_str, eqs)), lean_list(map(lean_str, prefs)))) if okc else 'none'))

    il = find_func(ftree, 'is_inline')
    src = _body_src(il)
    inl = None
    if len(il.body) == 1 and isinstance(il.body[0], ast.Return):
        r = il.body[0].value
        if isinstance(r, ast.Compare) and ast.unparse(r.left) == "node['prim']" and len(r.ops) == 1 and isinstance(r.ops[0], ast.Eq) \
                and isinstance(r.comparators[0], ast.Constant) and isinstance(r.comparators[0].value, str):
            inl = [r.comparators[0].value]
    status['format.is_inline'] = (inl is not None, src[:200])
    out.append('def inlinePrims : Option (List String) := %s\n' % opt(lean_list(map(lean_str, inl)) if inl is not None else None))

    sc = find_func(ftree, 'is_script')
    secs = None
    src = ast.unparse(sc.body[-1]).replace(' ', '').replace('\n', '')
    lists = [n for n in ast.walk(sc) if isinstance(n, ast.List)]
    if len(lists) == 1 and _str_set(lists[0]) is not None and \
            src == "returnall(map(lambdax:isinstance(x,dict)andx.get('prim')in%s,node))" % ast.unparse(lists[0]).replace(' ', ''):
        secs = _str_set(lists[0])
    status['format.is_script'] = (secs is not None, src[:200])
    out.append('def scriptSections : Option (List String) := %s\n' % opt(lean_list(map(lean_str, secs)) if secs is not None else None))

    # ---- parse.py: lexer -----------------------------------------------------------------------------
    ptree = parse('michelson/parse.py')
    lx = find_class(ptree, 'SimpleMichelsonLexer')
    rules = {}
    tokens = None
    for n in lx.body:
        if isinstance(n, ast.Assign) and len(n.targets) == 1 and isinstance(n.targets[0], ast.Name):
            nm = n.targets[0].id
            if nm == 'tokens':
                tokens = _str_set(n.value)
            elif nm.startswith('t_') and isinstance(n.value, ast.Constant) and isinstance(n.value.value, str):
                rules[nm[2:]] = n.value.value
    funcs = [n.name for n in lx.body if isinstance(n, ast.FunctionDef) and n.name.startswith('t_') and n.name != 't_error']
    status['lexer.tokens'] = (tuple(tokens or ()) == TOKENS and not funcs, f'{tokens} function rules {funcs}')
    ignore = rules.pop('ignore', None)
    # reflags: PLY's default is re.VERBOSE (would change the meaning of '#', spaces); the model assumes it is replaced by MULTILINE
    init = find_func(lx, '__init__')
    lexcall = [n for n in ast.walk(init) if isinstance(n, ast.Call) and ast.unparse(n.func) == 'lex']
    okf = len(lexcall) == 1 and ast.unparse(lexcall[0]).replace(' ', '') == 'lex(module=self,reflags=re.MULTILINE)'
    status['lexer.reflags'] = (okf, ast.unparse(lexcall[0]) if lexcall else 'no lex() call')
    terr = find_func(lx, 't_error')
    oke = terr is not None and _body_src(terr) == 't.type = t.value[0]\nt.value = t.value[0]\nt.lexer.skip(1)\nreturn t'
    status['lexer.t_error'] = (oke, 'returns a one-character token of an undeclared type (always a syntax error)')

    # PLY: string rules sorted by decreasing regex length; sort is stable over dir(module) = alphabetical order
    order = sorted(sorted(rules), key=lambda k: len(rules[k]), reverse=True)
    classes = {}
    all_ok = okf and oke and tuple(tokens or ()) == TOKENS and not funcs and ignore is not None
    expected = set(TOKENS) | {'ignore_MULTI_COMMENT', 'ignore_COMMENT'}
    if set(rules) != expected:
        all_ok = False
        status['lexer.rules'] = (False, f'rule set {sorted(rules)}')
    out.append('/-- lexer rules as written in the source (name, regex), in PLY master-regex order -/')
    out.append('def lexRegexes : List (String × String) := %s\n'
               % lean_list('(%s, %s)' % (lean_str(k), lean_str(rules[k])) for k in order))
    for k in order:
        try:
            classes.update(classify(k, rules[k]))
            status[f'lexer.t_{k}'] = (True, rules[k])
        except (RxError, IndexError) as e:
            status[f'lexer.t_{k}'] = (False, str(e))
            all_ok = False
    out.append('/-- order in which PLY tries the rules (first match wins); `none` if any rule was not recognised -/')
    out.append('def lexOrder : Option (List String) := %s\n' % opt(lean_list(map(lean_str, order)) if all_ok else None))
    out.append('def lexIgnore : Option (List Nat) := %s\n'
               % opt(lean_list(str(ord(c)) for c in ignore) if (all_ok and ignore is not None) else None))
    for nm in ('intDigits', 'byteDigits', 'annotHead', 'annotFirst', 'annotRest', 'primHead', 'primTail'):
        v = classes.get(nm) if all_ok else None
        out.append(f'def {nm} : Option (List (Nat × Nat)) := {opt(lean_ranges(v) if v is not None else None)}')
    out.append('def strShape : Option Unit := %s\n' % ('some ()' if all_ok and classes.get('strShape') else 'none'))

    # ---- parse.py: grammar -----------------------------------------------------------------------------
    pc = find_class(ptree, 'MichelsonParser')
    found = []
    for n in pc.body:
        if isinstance(n, ast.FunctionDef) and n.name.startswith('p_') and n.name != 'p_error':
            d = None
            for dec in n.decorator_list:
                if isinstance(dec, ast.Call) and ast.unparse(dec.func) == 'doc' and len(dec.args) == 1 and isinstance(dec.args[0], ast.Constant):
                    d = ' '.join(dec.args[0].value.split())
            found.append((n.name, d, _body_src(n)))
    bad = [a for a, b in zip(found, GRAMMAR) if a != b] if len(found) == len(GRAMMAR) else [('count', len(found), len(GRAMMAR))]
    perr = find_func(pc, 'p_error')
    ok_err = perr is not None and _body_src(perr) == 'raise MichelsonParserError(p)'
    pm = find_func(pc, 'parse')
    ok_parse = pm is not None and _body_src(pm) == PARSE_BODY
    toks_ok = any(isinstance(n, ast.Assign) and ast.unparse(n) == 'tokens = SimpleMichelsonLexer.tokens' for n in pc.body)
    mtree = parse('michelson/macros.py')
    mk = find_func(mtree, 'expr')
    ok_mk = mk is not None and _body_src(mk) == MAKE_EXPR
    m2m = find_func(ptree, 'michelson_to_micheline')
    ok_m2m = m2m is not None and _body_src(m2m) == 'if parser is None:\n    parser = MichelsonParser()\nreturn parser.parse(data)'
    g_ok = not bad and ok_err and ok_parse and toks_ok and ok_mk and ok_m2m
    status['parser.grammar'] = (g_ok, 'all productions/actions as transcribed' if g_ok else
                                f'differs: {bad[:2]} p_error={ok_err} parse={ok_parse} tokens={toks_ok} make_expr={ok_mk} m2m={ok_m2m}')
    out.append('\n/-- productions of the PLY grammar, as written (`name`, `production`) -/')
    out.append('def grammar : List (String × String) := %s\n'
               % lean_list('(%s, %s)' % (lean_str(a), lean_str(b or '?')) for a, b, _ in found))
    out.append('/-- every production and action (and `p_error`, `parse`, `macros.expr`) is the one the recursive-descent model transcribes -/')
    out.append(f'def grammarRecognised : Bool := {"true" if g_ok else "false"}\n')

    # ---- tags.py ----------------------------------------------------------------------------------------
    ttree = parse('michelson/tags.py')
    pt = find_assign(ttree, 'prim_tags')
    keys = None
    if isinstance(pt, ast.Dict) and all(isinstance(k, ast.Constant) and isinstance(k.value, str) for k in pt.keys):
        keys = [k.value for k in pt.keys]
    status['tags.prim_tags'] = (keys is not None and len(set(keys)) == len(keys), f'{len(keys or [])} keys')
    out.append('def primTags : Option (List String) := %s\n' % opt(lean_list(map(lean_str, keys)) if keys is not None else None))
    return '\n'.join(out)
