"""C13 — entrypoints.  Reads (ast only):
  * the two reserved names of `ParameterSection.create_type` (`'root' if 'default' in flat_args else 'default'`);
  * the shape of `ParameterSection.to_parameters`: leaf lookup through `get_flat_values` (pinned tree: KeyError on
    an unannotated leaf) / walk to the deepest annotated node / the same walk skipping names equal to the root name;
  * that the other mirrored functions (`list_entrypoints`, `from_parameters`, `OrType.iter_type_args`,
    `OrType.iter_values`, `OrType.from_micheline_value`, `wrap_parameters`, the `entrypoints=True` path of
    `get_type_layout`) still have the statement-for-statement shape the hand-written mirror was made from.
Anything else => `none` (the model refuses to run and the theorems' side condition fails to close)."""
import ast

from translator.extract import find_class, find_func, generator, lean_str, parse, strip_docstring


def body_src(fn):
    return [ast.unparse(s) for s in strip_docstring(fn.body)]


CREATE_TYPE = [
    "assert not annots, 'top level parameter annotations not supported'",
    'root_type = cast(Type[MichelsonType], args[0])',
    None,  # the if/else that computes root_name (matched structurally below)
    'res = type(cls.__name__, (cls,), dict(args=args, root_name=root_name, **kwargs))',
    "return cast(Type['ParameterSection'], res)",
]

LIST_ENTRYPOINTS = [
    'entrypoints = {}',
    'root_type = cls.args[0]',
    "if issubclass(root_type, OrType):\n    flat_args = root_type.get_flat_args(entrypoints=True)\n"
    "    assert isinstance(flat_args, dict), f'expected dict of named entrypoints'\n"
    "    for name, arg in flat_args.items():\n        entrypoints[name] = arg.get_anon_type()",
    'entrypoints[cls.root_name] = root_type',
    'return entrypoints',
]

FROM_PARAMETERS = [
    "if len(parameters) == 0:\n    parameters = {'entrypoint': 'default', 'value': {'prim': 'Unit'}}",
    "assert isinstance(parameters, dict) and parameters.keys() == {'entrypoint', 'value'}, f'expected {{entrypoint, value}}, got {parameters}'",
    "entrypoint = parameters['entrypoint']",
    "if entrypoint == cls.root_name:\n    res = cls.from_micheline_value(parameters['value'])\n    return cast(ParameterSection, res)\n"
    "else:\n    root_type = cls.args[0]\n    assert issubclass(root_type, OrType), f'expected `{cls.root_name}`, got `{entrypoint}`'\n"
    "    _, key_to_path, _ = root_type.get_type_layout(entrypoints=True)\n"
    "    assert entrypoint in key_to_path, f'unexpected entrypoint `{entrypoint}`'\n"
    "    val_expr = wrap_parameters(parameters['value'], key_to_path[entrypoint])\n"
    "    item = root_type.from_micheline_value(val_expr)\n    return cls(item)",
]

ITER_TYPE_ARGS = [
    "for i, arg in enumerate(cls.args):\n    if issubclass(arg, OrType):\n        if entrypoints and arg.field_name:\n"
    "            yield (path + str(i), arg)\n        yield from arg.iter_type_args(entrypoints=entrypoints, path=path + str(i))\n"
    "    elif entrypoints is False or arg.field_name:\n        yield (path + str(i), arg)",
]

ITER_VALUES = [
    "for i, arg in enumerate(self.items):\n    if isinstance(arg, OrType):\n        yield from arg.iter_values(path + str(i))\n"
    "    elif isinstance(arg, MichelsonType):\n        yield (path + str(i), arg)\n    else:\n"
    "        assert arg == Undefined, f'expected Michelson type or undefined, got {arg}'",
]

OR_FROM_MICHELINE = [
    "value = parse_micheline_value(val_expr, {('Left', 1): lambda x: (cls.args[0].from_micheline_value(x[0]), Undefined), "
    "('Right', 1): lambda x: (Undefined, cls.args[1].from_micheline_value(x[0]))})",
    'return cls(value)',
]

WRAP_PARAMETERS = [
    "if len(path) == 0:\n    return expr\nelif path[0] == '0':\n    return {'prim': 'Left', 'args': [wrap_parameters(expr, path[1:])]}\n"
    "elif path[0] == '1':\n    return {'prim': 'Right', 'args': [wrap_parameters(expr, path[1:])]}\nelse:\n    raise AssertionError(path)",
]

TO_PARAMETERS_HEAD = 'entrypoint, item = (self.root_name, self.item)'
TO_PARAMETERS_TAIL = "return {'entrypoint': entrypoint, 'value': item.to_micheline_value(mode=mode, lazy_diff=None)}"
TO_PARAMETERS_PINNED = [
    'flat_values = self.item.get_flat_values(entrypoints=True)',
    "assert isinstance(flat_values, dict) and len(flat_values) == 1, f'expected named type'",
    'entrypoint, item = next(iter(flat_values.items()))',
]
TO_PARAMETERS_WALK = [
    'path_to_key, _, _ = self.item.get_type_layout(entrypoints=True)',
    "assert isinstance(path_to_key, dict), f'expected named type'",
    "node, path = (self.item, '')",
]
WALK_LOOP = ['idx = 0 if node.is_left() else 1', 'node, path = (node.items[idx], path + str(idx))']
WALK_ASSIGN = ['entrypoint, item = (path_to_key[path], node)']
WALK_COND_PLAIN = 'path in path_to_key'
WALK_COND_SKIP = ['path in path_to_key and path_to_key[path] != self.root_name',
                  'path in path_to_key and self.root_name != path_to_key[path]']


SECOND_LOOP = ("for bin_path in generated:\n    name = path_to_key[bin_path]\n    while name in taken:\n        name += '_'\n"
               "    taken.add(name)\n    path_to_key[bin_path] = name")


def layout_entrypoints_path(fn):
    """the part of get_type_layout that `entrypoints=True` runs through (the name generator of the `else` branch
    belongs to C12 and may change).  Two shapes are recognised: the pinned one, and the one after fix ef4d743, whose
    extra statements only concern paths recorded in `generated` — a list that is appended to in the `else` branch
    AFTER the `entrypoints is False` assertion, hence empty whenever `entrypoints=True` returns at all."""
    b = strip_docstring(fn.body)
    src = [ast.unparse(s) for s in b]
    if len(b) == 9:
        # repaired shape: drop `generated = []`, `taken = set(reserved)` and the renaming loop over `generated`
        if src[2] != 'generated = []' or src[4] != 'taken = set(reserved)' or src[5] != SECOND_LOOP:
            return False
        loop = b[3]
        if not isinstance(loop, ast.For) or len(loop.body) != 3 or not isinstance(loop.body[2], ast.If):
            return False
        tail = [ast.unparse(x) for x in loop.body[2].orelse]
        if len(tail) != 3 or tail[2] != 'generated.append(bin_path)' or 'generated' in tail[0] + tail[1]:
            return False
        b = [b[0], b[1], b[3], b[6], b[7], b[8]]
        src = [ast.unparse(x) for x in b]
    if len(b) != 6 or src[0] != 'reserved = set()' or src[1] != 'path_to_key = {}' or not isinstance(b[2], ast.For):
        return False
    loop = b[2]
    if ast.unparse(loop.target) != '(i, (bin_path, arg))' or ast.unparse(loop.iter) != 'enumerate(flat_args)' or len(loop.body) != 3:
        return False
    l = [ast.unparse(s) for s in loop.body]
    if l[0] != 'key = arg.field_name' or l[1] != 'if key is None and (not entrypoints):\n    key = arg.type_name':
        return False
    br = loop.body[2]
    if not isinstance(br, ast.If) or ast.unparse(br.test) != 'key is not None and key not in reserved':
        return False
    if [ast.unparse(s) for s in br.body] != ['reserved.add(key)', 'path_to_key[bin_path] = key']:
        return False
    if not br.orelse or ast.unparse(br.orelse[0]) != "assert entrypoints is False, f'duplicate key {key}'":
        return False
    if src[3] != 'idx_to_path = dict(enumerate(path_to_key))':
        return False
    if src[4] != ('if len(reserved) == 0 and infer_names is False and (entrypoints is False):\n    path_to_key = None\n    key_to_path = None\n'
                  'else:\n    key_to_path = {name: path for path, name in path_to_key.items()}'):
        return False
    return src[5] == 'return (path_to_key, key_to_path, idx_to_path)'


@generator('C13')
def gen(status):
    out = []
    par = find_class(parse('michelson/sections/parameter.py'), 'ParameterSection')
    orty = find_class(parse('michelson/types/sum.py'), 'OrType')
    adt = parse('michelson/types/adt.py')

    # ---- reserved names in create_type
    dflt = alias = None
    ct = body_src(find_func(par, 'create_type'))
    ct_nodes = strip_docstring(find_func(par, 'create_type').body)
    if len(ct) == 5 and all(e is None or e == g for e, g in zip(CREATE_TYPE, ct)) and isinstance(ct_nodes[2], ast.If):
        br = ct_nodes[2]
        if ast.unparse(br.test) == 'issubclass(root_type, OrType)' and len(br.body) == 2 and len(br.orelse) == 1 \
                and ast.unparse(br.body[0]) == 'root_name = root_type.field_name' and isinstance(br.body[1], ast.If) \
                and ast.unparse(br.body[1].test) == 'not root_name' and not br.body[1].orelse and len(br.body[1].body) == 3 \
                and ast.unparse(br.body[1].body[0]) == 'flat_args = root_type.get_flat_args(entrypoints=True)' \
                and isinstance(br.body[1].body[1], ast.Assert):
            asg = br.body[1].body[2]
            els = br.orelse[0]
            if isinstance(asg, ast.Assign) and ast.unparse(asg.targets[0]) == 'root_name' and isinstance(asg.value, ast.IfExp):
                v = asg.value
                if isinstance(v.body, ast.Constant) and isinstance(v.orelse, ast.Constant) and isinstance(v.test, ast.Compare) \
                        and len(v.test.ops) == 1 and isinstance(v.test.ops[0], ast.In) and isinstance(v.test.left, ast.Constant) \
                        and ast.unparse(v.test.comparators[0]) == 'flat_args' and v.test.left.value == v.orelse.value \
                        and isinstance(v.body.value, str) and isinstance(v.orelse.value, str):
                    if ast.unparse(els) == f'root_name = root_type.field_name or {v.orelse.value!r}':
                        dflt, alias = v.orelse.value, v.body.value
    status['create_type root-name rule'] = (dflt is not None, f'default={dflt!r} alias={alias!r}' if dflt is not None else 'unrecognised: ' + '\n'.join(ct)[:300])
    out.append('/-- `root_name = <rootAlias> if <defaultName> in flat_args else <defaultName>` -/')
    out.append('def defaultName : Option String := ' + ('none' if dflt is None else 'some ' + lean_str(dflt)))
    out.append('def rootAlias : Option String := ' + ('none' if alias is None else 'some ' + lean_str(alias)))

    # ---- to_parameters shape
    deepest = skip = None
    tp = strip_docstring(find_func(par, 'to_parameters').body)
    tps = [ast.unparse(s) for s in tp]
    if len(tp) == 3 and tps[0] == TO_PARAMETERS_HEAD and tps[2] == TO_PARAMETERS_TAIL and isinstance(tp[1], ast.If) \
            and ast.unparse(tp[1].test) == 'isinstance(self.item, OrType)' and not tp[1].orelse:
        inner = tp[1].body
        isrc = [ast.unparse(s) for s in inner]
        if isrc == TO_PARAMETERS_PINNED:
            deepest, skip = False, False
        elif len(inner) == 4 and isrc[:3] == TO_PARAMETERS_WALK and isinstance(inner[3], ast.While) \
                and ast.unparse(inner[3].test) == 'isinstance(node, OrType)' and not inner[3].orelse and len(inner[3].body) == 3:
            lb = inner[3].body
            if [ast.unparse(s) for s in lb[:2]] == WALK_LOOP and isinstance(lb[2], ast.If) and not lb[2].orelse \
                    and [ast.unparse(s) for s in lb[2].body] == WALK_ASSIGN:
                cond = ast.unparse(lb[2].test)
                if cond == WALK_COND_PLAIN:
                    deepest, skip = True, False
                elif cond in WALK_COND_SKIP:
                    deepest, skip = True, True
    status['to_parameters shape'] = (deepest is not None, f'deepest={deepest} skipsRootName={skip}' if deepest is not None else 'unrecognised: ' + '\n'.join(tps)[:400])
    out.append('/-- does `to_parameters` resolve to the deepest annotated node on the value path (false: looks up the leaf path, KeyError on an unannotated leaf) -/')
    out.append('def toParametersDeepest : Option Bool := ' + ('none' if deepest is None else f'some {str(deepest).lower()}'))
    out.append('/-- … ignoring nodes whose name equals the root name (shadowed in `from_parameters`) -/')
    out.append('def toParametersSkipsRootName : Option Bool := ' + ('none' if skip is None else f'some {str(skip).lower()}'))

    # ---- the rest of the mirrored code is unchanged
    checks = {
        'list_entrypoints': body_src(find_func(par, 'list_entrypoints')) == LIST_ENTRYPOINTS,
        'from_parameters': body_src(find_func(par, 'from_parameters')) == FROM_PARAMETERS,
        'OrType.iter_type_args': body_src(find_func(orty, 'iter_type_args')) == ITER_TYPE_ARGS,
        'OrType.iter_values': body_src(find_func(orty, 'iter_values')) == ITER_VALUES,
        'OrType.from_micheline_value': body_src(find_func(orty, 'from_micheline_value')) == OR_FROM_MICHELINE,
        'wrap_parameters': body_src(find_func(adt, 'wrap_parameters')) == WRAP_PARAMETERS,
        'get_type_layout (entrypoints path)': layout_entrypoints_path(find_func(adt, 'get_type_layout')),
    }
    for k, ok in checks.items():
        status[f'mirror source: {k}'] = (ok, 'statement-for-statement as mirrored' if ok else 'body differs from the mirrored text')
    out.append('/-- the other mirrored functions have the shape the hand-written mirror was made from -/')
    out.append('def sourceRecognised : Option Unit := ' + ('some ()' if all(checks.values()) else 'none'))
    return '\n'.join(out) + '\n'
