"""C13 — entrypoints.  Reads (ast only):
  * the two reserved names of `ParameterSection.create_type` (`'root' if 'default' in flat_args else 'default'`);
  * the shape of `ParameterSection.to_parameters`: leaf lookup through `get_flat_values` (pinned tree: KeyError on
    an unannotated leaf) / walk to the deepest annotated node / the same walk skipping names equal to the root name;
  * that the other mirrored functions (`list_entrypoints`, `from_parameters`, `OrType.iter_type_args`,
    `OrType.iter_values`, `OrType.from_micheline_value`, `wrap_parameters`, the `entrypoints=True` path of
    `get_type_layout`) still have the statement-for-statement shape the hand-written mirror was made from.
  * (extension) the same for what `lean/PytezosModel/Michelson/EntrypointsPy.lean` mirrors: `parse_name`,
    `MichelsonType.create_type`, `Micheline.match`, `parse_micheline_prim` (which annotation names a node, what is refused),
    `ParameterSection.from_python_object / to_python_object`, `OrType.from_python_object / to_python_object / create_type`
    (`is_enum`), `wrap_or`, `ADTMixin.get_flat_values / get_type_layout`, the whole of `get_type_layout` (display names),
    `UnitType.from_python_object / to_python_object`.
Anything else => `none` (the model refuses to run and the theorems' side condition fails to close)."""
import ast

from translator.extract import find_class, find_func, generator, lean_str, parse, strip_docstring


def body_src(fn):
    return [ast.unparse(s) for s in strip_docstring(fn.body)]


CREATE_TYPE = [
    "assert not annots, 'top level parameter annotations not supported'",
    'root_type = cast(Type[MichelsonType], args[0])',
    None,  # the if/else that computes root_name (matched structurally below)
    'res = type(cls.__name__, (cls,), dict(args=args, root_name=root_name, **kwargs))',
    "return cast(Type['ParameterSection'], res)",
]

LIST_ENTRYPOINTS = [
    'entrypoints = {}',
    'root_type = cls.args[0]',
    "if issubclass(root_type, OrType):\n    flat_args = root_type.get_flat_args(entrypoints=True)\n"
    "    assert isinstance(flat_args, dict), f'expected dict of named entrypoints'\n"
    "    for name, arg in flat_args.items():\n        entrypoints[name] = arg.get_anon_type()",
    'entrypoints[cls.root_name] = root_type',
    'return entrypoints',
]

FROM_PARAMETERS = [
    "if len(parameters) == 0:\n    parameters = {'entrypoint': 'default', 'value': {'prim': 'Unit'}}",
    "assert isinstance(parameters, dict) and parameters.keys() == {'entrypoint', 'value'}, f'expected {{entrypoint, value}}, got {parameters}'",
    "entrypoint = parameters['entrypoint']",
    "if entrypoint == cls.root_name:\n    res = cls.from_micheline_value(parameters['value'])\n    return cast(ParameterSection, res)\n"
    "else:\n    root_type = cls.args[0]\n    assert issubclass(root_type, OrType), f'expected `{cls.root_name}`, got `{entrypoint}`'\n"
    "    _, key_to_path, _ = root_type.get_type_layout(entrypoints=True)\n"
    "    assert entrypoint in key_to_path, f'unexpected entrypoint `{entrypoint}`'\n"
    "    val_expr = wrap_parameters(parameters['value'], key_to_path[entrypoint])\n"
    "    item = root_type.from_micheline_value(val_expr)\n    return cls(item)",
]

ITER_TYPE_ARGS = [
    "for i, arg in enumerate(cls.args):\n    if issubclass(arg, OrType):\n        if entrypoints and arg.field_name:\n"
    "            yield (path + str(i), arg)\n        yield from arg.iter_type_args(entrypoints=entrypoints, path=path + str(i))\n"
    "    elif entrypoints is False or arg.field_name:\n        yield (path + str(i), arg)",
]

ITER_VALUES = [
    "for i, arg in enumerate(self.items):\n    if isinstance(arg, OrType):\n        yield from arg.iter_values(path + str(i))\n"
    "    elif isinstance(arg, MichelsonType):\n        yield (path + str(i), arg)\n    else:\n"
    "        assert arg == Undefined, f'expected Michelson type or undefined, got {arg}'",
]

OR_FROM_MICHELINE = [
    "value = parse_micheline_value(val_expr, {('Left', 1): lambda x: (cls.args[0].from_micheline_value(x[0]), Undefined), "
    "('Right', 1): lambda x: (Undefined, cls.args[1].from_micheline_value(x[0]))})",
    'return cls(value)',
]

WRAP_PARAMETERS = [
    "if len(path) == 0:\n    return expr\nelif path[0] == '0':\n    return {'prim': 'Left', 'args': [wrap_parameters(expr, path[1:])]}\n"
    "elif path[0] == '1':\n    return {'prim': 'Right', 'args': [wrap_parameters(expr, path[1:])]}\nelse:\n    raise AssertionError(path)",
]

TO_PARAMETERS_HEAD = 'entrypoint, item = (self.root_name, self.item)'
TO_PARAMETERS_TAIL = "return {'entrypoint': entrypoint, 'value': item.to_micheline_value(mode=mode, lazy_diff=None)}"
TO_PARAMETERS_PINNED = [
    'flat_values = self.item.get_flat_values(entrypoints=True)',
    "assert isinstance(flat_values, dict) and len(flat_values) == 1, f'expected named type'",
    'entrypoint, item = next(iter(flat_values.items()))',
]
TO_PARAMETERS_WALK = [
    'path_to_key, _, _ = self.item.get_type_layout(entrypoints=True)',
    "assert isinstance(path_to_key, dict), f'expected named type'",
    "node, path = (self.item, '')",
]
WALK_LOOP = ['idx = 0 if node.is_left() else 1', 'node, path = (node.items[idx], path + str(idx))']
WALK_ASSIGN = ['entrypoint, item = (path_to_key[path], node)']
WALK_COND_PLAIN = 'path in path_to_key'
WALK_COND_SKIP = ['path in path_to_key and path_to_key[path] != self.root_name',
                  'path in path_to_key and self.root_name != path_to_key[path]']


SECOND_LOOP = ("for bin_path in generated:\n    name = path_to_key[bin_path]\n    while name in taken:\n        name += '_'\n"
               "    taken.add(name)\n    path_to_key[bin_path] = name")


def layout_entrypoints_path(fn):
    """the part of get_type_layout that `entrypoints=True` runs through (the name generator of the `else` branch
    belongs to C12 and may change).  Two shapes are recognised: the pinned one, and the one after fix ef4d743, whose
    extra statements only concern paths recorded in `generated` — a list that is appended to in the `else` branch
    AFTER the `entrypoints is False` assertion, hence empty whenever `entrypoints=True` returns at all."""
    b = strip_docstring(fn.body)
    src = [ast.unparse(s) for s in b]
    if len(b) == 9:
        # repaired shape: drop `generated = []`, `taken = set(reserved)` and the renaming loop over `generated`
        if src[2] != 'generated = []' or src[4] != 'taken = set(reserved)' or src[5] != SECOND_LOOP:
            return False
        loop = b[3]
        if not isinstance(loop, ast.For) or len(loop.body) != 3 or not isinstance(loop.body[2], ast.If):
            return False
        tail = [ast.unparse(x) for x in loop.body[2].orelse]
        if len(tail) != 3 or tail[2] != 'generated.append(bin_path)' or 'generated' in tail[0] + tail[1]:
            return False
        b = [b[0], b[1], b[3], b[6], b[7], b[8]]
        src = [ast.unparse(x) for x in b]
    if len(b) != 6 or src[0] != 'reserved = set()' or src[1] != 'path_to_key = {}' or not isinstance(b[2], ast.For):
        return False
    loop = b[2]
    if ast.unparse(loop.target) != '(i, (bin_path, arg))' or ast.unparse(loop.iter) != 'enumerate(flat_args)' or len(loop.body) != 3:
        return False
    l = [ast.unparse(s) for s in loop.body]
    if l[0] != 'key = arg.field_name' or l[1] != 'if key is None and (not entrypoints):\n    key = arg.type_name':
        return False
    br = loop.body[2]
    if not isinstance(br, ast.If) or ast.unparse(br.test) != 'key is not None and key not in reserved':
        return False
    if [ast.unparse(s) for s in br.body] != ['reserved.add(key)', 'path_to_key[bin_path] = key']:
        return False
    if not br.orelse or ast.unparse(br.orelse[0]) != "assert entrypoints is False, f'duplicate key {key}'":
        return False
    if src[3] != 'idx_to_path = dict(enumerate(path_to_key))':
        return False
    if src[4] != ('if len(reserved) == 0 and infer_names is False and (entrypoints is False):\n    path_to_key = None\n    key_to_path = None\n'
                  'else:\n    key_to_path = {name: path for path, name in path_to_key.items()}'):
        return False
    return src[5] == 'return (path_to_key, key_to_path, idx_to_path)'


# ---- extension: bodies mirrored by Michelson/EntrypointsPy.lean (ast.unparse of every statement, docstrings stripped)
PARSE_NAME = [
    'if not annots:\n    return None',
    'sub_annots = [x[1:] for x in annots if x.startswith(prefix)]',
    'assert len(sub_annots) <= 1, f\'multiple "{prefix}" annotations are not allowed: {sub_annots}\'',
    'return sub_annots[0] if sub_annots else None',
]

MT_CREATE_TYPE = [
    'type_args = [arg for arg in args if issubclass(arg, MichelsonType)]',
    "if cls.prim in ['list', 'set', 'map', 'big_map', 'option', 'contract', 'lambda']:\n    for arg in type_args:\n        assert arg.field_name is None, f'{cls.prim} argument type cannot be annotated: %{arg.field_name}'",
    "if cls.prim in ['set', 'map', 'big_map', 'ticket']:\n    assert type_args[0].is_comparable(), f'{cls.prim} key type has to be comparable (not {type_args[0].prim})'",
    "if cls.prim == 'big_map':\n    assert type_args[0].is_big_map_friendly(), f'impossible big_map value type'",
    "res = type(cls.__name__, (cls,), dict(field_name=parse_name(annots, '%'), type_name=parse_name(annots, ':'), args=args, **kwargs))",
    "return cast(Type['MichelsonType'], res)",
]

PS_FROM_PY = [
    "if isinstance(py_obj, str):\n    entrypoint = py_obj\n    py_obj = {entrypoint: Unit}\nelse:\n    if not isinstance(py_obj, dict) or len(py_obj) != 1:\n        raise TypeError(f'expected dict with a single key, got {type(py_obj).__name__} `{py_obj}`')\n    entrypoint = next(iter(py_obj))",
    "if entrypoint == cls.root_name:\n    item = cls.args[0].from_python_object(py_obj[entrypoint])\nelse:\n    if not issubclass(cls.args[0], OrType):\n        raise TypeError(f'Unexpected entrypoint `{entrypoint}`: parameter is not of sum type')\n    _, key_to_path, _ = cls.args[0].get_type_layout(infer_names=True, entrypoints=True)\n    if not key_to_path:\n        raise TypeError('sum type has to be named (in the scope of PyTezos)')\n    item = cls.args[0].from_python_object(wrap_or(py_obj[entrypoint], key_to_path[entrypoint]))",
    'return cls(item)',
]

PS_TO_PY = [
    'py_obj = self.item.to_python_object(try_unpack=try_unpack, lazy_diff=None)',
    'if issubclass(self.args[0], OrType):\n    return py_obj\nelse:\n    return {self.root_name: py_obj}',
]

OR_FROM_PY = [
    "if isinstance(py_obj, list):\n    py_obj = tuple(py_obj)\nelif isinstance(py_obj, str):\n    assert cls.is_enum, 'string values allowed for enums only'\n    py_obj = {py_obj: Unit}\nelif isinstance(py_obj, tuple):\n    assert len(py_obj) == 2, f'expected `(entrypoint, value)`, got {py_obj}'\n    py_obj = {py_obj[0]: py_obj[1]}",
    "if isinstance(py_obj, dict):\n    assert len(py_obj) == 1, f'single key expected, got {len(py_obj)}'\n    entrypoint = next(iter(py_obj))\n    _, key_to_path, _ = cls.get_type_layout(infer_names=True)\n    assert key_to_path, f'sum type has to be named (in the scope of PyTezos)'\n    return cls.from_python_object(wrap_or(py_obj[entrypoint], key_to_path[entrypoint]))\nelif isinstance(py_obj, Nested):\n    value = tuple((Undefined if py_obj[i] is Undefined else cls.args[i].from_python_object(py_obj[i]) for i in [0, 1]))\n    return cls(value)\nelse:\n    raise AssertionError(f'expected list, tuple, or dict, got `{py_obj}`')",
]

OR_TO_PY = [
    'flat_values = self.get_flat_values(infer_names=True)',
    "assert isinstance(flat_values, dict) and len(flat_values) == 1, f'sum type has to be named (in the scope of PyTezos)'",
    'entrypoint = next(iter(flat_values))',
    'if self.is_enum:\n    return entrypoint\nelse:\n    py_obj = flat_values[entrypoint].to_python_object(try_unpack=try_unpack, lazy_diff=lazy_diff, comparable=comparable)\n    return (entrypoint, py_obj) if comparable else {entrypoint: py_obj}',
]

OR_CREATE_TYPE = [
    "def all_units(arguments: List[Type['Micheline']]):\n    for arg in arguments:\n        if issubclass(arg, OrType):\n            if not all_units(arg.args):\n                return False\n        elif not issubclass(arg, UnitType):\n            return False\n    return True",
    'is_enum = all_units(args)',
    'res = super(OrType, cls).create_type(args=args, annots=annots, is_enum=is_enum, **kwargs)',
    "return cast(Type['OrType'], res)",
]

WRAP_OR = [
    "if len(path) == 0:\n    return obj\nelif path[0] == '0':\n    return Nested(wrap_or(obj, path[1:]), Undefined)\nelif path[0] == '1':\n    return Nested(Undefined, wrap_or(obj, path[1:]))\nelse:\n    raise AssertionError(path)",
]

GET_FLAT_VALUES = [
    'path_to_key, _, _ = self.get_type_layout(infer_names=infer_names, entrypoints=entrypoints)',
    'flat_values = list(self.iter_values())',
    'if force_tuple is False and isinstance(path_to_key, dict):\n    return {path_to_key[path]: arg for path, arg in flat_values}\nelse:\n    return [arg for _, arg in flat_values]',
]

GET_TYPE_LAYOUT = [
    'reserved = set()',
    'path_to_key = {}',
    'generated = []',
    "for i, (bin_path, arg) in enumerate(flat_args):\n    key = arg.field_name\n    if key is None and (not entrypoints):\n        key = arg.type_name\n    if key is not None and key not in reserved:\n        reserved.add(key)\n        path_to_key[bin_path] = key\n    else:\n        assert entrypoints is False, f'duplicate key {key}'\n        path_to_key[bin_path] = f'{arg.prim}_{i}'\n        generated.append(bin_path)",
    'taken = set(reserved)',
    "for bin_path in generated:\n    name = path_to_key[bin_path]\n    while name in taken:\n        name += '_'\n    taken.add(name)\n    path_to_key[bin_path] = name",
    'idx_to_path = dict(enumerate(path_to_key))',
    'if len(reserved) == 0 and infer_names is False and (entrypoints is False):\n    path_to_key = None\n    key_to_path = None\nelse:\n    key_to_path = {name: path for path, name in path_to_key.items()}',
    'return (path_to_key, key_to_path, idx_to_path)',
]

MIXIN_LAYOUT = [
    'flat_args = list(cls.iter_type_args(entrypoints=entrypoints))',
    'return get_type_layout(flat_args, infer_names=infer_names, entrypoints=entrypoints)',
]

MATCH = [
    "if isinstance(expr, list):\n    args = [Micheline.match(arg) for arg in expr]\n    return MichelineSequence.create_type(args=args)\nelif isinstance(expr, dict):\n    if expr.get('prim'):\n        prim, args, annots = parse_micheline_prim(expr)\n        if prim == 'RUN':\n            if annots:\n                args = [{'string': annots[0][1:]}] + args\n                annots = []\n            else:\n                args = [{'string': 'default'}] + args\n        args_len = len(args)\n        if (prim, args_len) not in Micheline.classes:\n            args_len = None\n        assert (prim, args_len) in Micheline.classes, f'unregistered primitive {prim} ({args_len} args)'\n        cls = Micheline.classes[prim, args_len]\n        try:\n            return cls.create_type(args=list(map(Micheline.match, args)), annots=annots)\n        except Exception as e:\n            raise MichelsonRuntimeError(cls.prim, *e.args) from e\n    else:\n        literal = parse_micheline_literal(expr, {'int': int, 'string': str, 'bytes': bytes.fromhex})\n        return MichelineLiteral.create(literal=literal)\nelse:\n    raise MichelsonRuntimeError(f'malformed expression `{expr}`')",
]

PARSE_PRIM = [
    "assert isinstance(prim_expr, dict), f'expected dict, got {pformat(prim_expr)} (instr_expr)'",
    "prim = prim_expr.get('prim')",
    "assert prim is not None, f'prim field is absent'",
    "args = prim_expr.get('args', [])",
    "assert isinstance(args, list), f'{prim}: expected list of args, got {pformat(args)} (args)'",
    "annots = prim_expr.get('annots', [])",
    "assert isinstance(annots, list), f'{prim}: expected list of annots, got {pformat(annots)} (annots)'",
    'return (prim, args, annots)',
]

UNIT_FROM_PY = [
    "assert py_obj is None or isinstance(py_obj, unit), f'expected None or Unit, got {type(py_obj).__name__}'",
    'return cls()',
]

UNIT_TO_PY = [
    'return unit()',
]


@generator('C13')
def gen(status):
    out = []
    par = find_class(parse('michelson/sections/parameter.py'), 'ParameterSection')
    orty = find_class(parse('michelson/types/sum.py'), 'OrType')
    adt = parse('michelson/types/adt.py')

    # ---- reserved names in create_type
    dflt = alias = None
    ct = body_src(find_func(par, 'create_type'))
    ct_nodes = strip_docstring(find_func(par, 'create_type').body)
    if len(ct) == 5 and all(e is None or e == g for e, g in zip(CREATE_TYPE, ct)) and isinstance(ct_nodes[2], ast.If):
        br = ct_nodes[2]
        if ast.unparse(br.test) == 'issubclass(root_type, OrType)' and len(br.body) == 2 and len(br.orelse) == 1 \
                and ast.unparse(br.body[0]) == 'root_name = root_type.field_name' and isinstance(br.body[1], ast.If) \
                and ast.unparse(br.body[1].test) == 'not root_name' and not br.body[1].orelse and len(br.body[1].body) == 3 \
                and ast.unparse(br.body[1].body[0]) == 'flat_args = root_type.get_flat_args(entrypoints=True)' \
                and isinstance(br.body[1].body[1], ast.Assert):
            asg = br.body[1].body[2]
            els = br.orelse[0]
            if isinstance(asg, ast.Assign) and ast.unparse(asg.targets[0]) == 'root_name' and isinstance(asg.value, ast.IfExp):
                v = asg.value
                if isinstance(v.body, ast.Constant) and isinstance(v.orelse, ast.Constant) and isinstance(v.test, ast.Compare) \
                        and len(v.test.ops) == 1 and isinstance(v.test.ops[0], ast.In) and isinstance(v.test.left, ast.Constant) \
                        and ast.unparse(v.test.comparators[0]) == 'flat_args' and v.test.left.value == v.orelse.value \
                        and isinstance(v.body.value, str) and isinstance(v.orelse.value, str):
                    if ast.unparse(els) == f'root_name = root_type.field_name or {v.orelse.value!r}':
                        dflt, alias = v.orelse.value, v.body.value
    status['create_type root-name rule'] = (dflt is not None, f'default={dflt!r} alias={alias!r}' if dflt is not None else 'unrecognised: ' + '\n'.join(ct)[:300])
    out.append('/-- `root_name = <rootAlias> if <defaultName> in flat_args else <defaultName>` -/')
    out.append('def defaultName : Option String := ' + ('none' if dflt is None else 'some ' + lean_str(dflt)))
    out.append('def rootAlias : Option String := ' + ('none' if alias is None else 'some ' + lean_str(alias)))

    # ---- to_parameters shape
    deepest = skip = None
    tp = strip_docstring(find_func(par, 'to_parameters').body)
    tps = [ast.unparse(s) for s in tp]
    if len(tp) == 3 and tps[0] == TO_PARAMETERS_HEAD and tps[2] == TO_PARAMETERS_TAIL and isinstance(tp[1], ast.If) \
            and ast.unparse(tp[1].test) == 'isinstance(self.item, OrType)' and not tp[1].orelse:
        inner = tp[1].body
        isrc = [ast.unparse(s) for s in inner]
        if isrc == TO_PARAMETERS_PINNED:
            deepest, skip = False, False
        elif len(inner) == 4 and isrc[:3] == TO_PARAMETERS_WALK and isinstance(inner[3], ast.While) \
                and ast.unparse(inner[3].test) == 'isinstance(node, OrType)' and not inner[3].orelse and len(inner[3].body) == 3:
            lb = inner[3].body
            if [ast.unparse(s) for s in lb[:2]] == WALK_LOOP and isinstance(lb[2], ast.If) and not lb[2].orelse \
                    and [ast.unparse(s) for s in lb[2].body] == WALK_ASSIGN:
                cond = ast.unparse(lb[2].test)
                if cond == WALK_COND_PLAIN:
                    deepest, skip = True, False
                elif cond in WALK_COND_SKIP:
                    deepest, skip = True, True
    status['to_parameters shape'] = (deepest is not None, f'deepest={deepest} skipsRootName={skip}' if deepest is not None else 'unrecognised: ' + '\n'.join(tps)[:400])
    out.append('/-- does `to_parameters` resolve to the deepest annotated node on the value path (false: looks up the leaf path, KeyError on an unannotated leaf) -/')
    out.append('def toParametersDeepest : Option Bool := ' + ('none' if deepest is None else f'some {str(deepest).lower()}'))
    out.append('/-- … ignoring nodes whose name equals the root name (shadowed in `from_parameters`) -/')
    out.append('def toParametersSkipsRootName : Option Bool := ' + ('none' if skip is None else f'some {str(skip).lower()}'))

    # ---- the rest of the mirrored code is unchanged
    checks = {
        'list_entrypoints': body_src(find_func(par, 'list_entrypoints')) == LIST_ENTRYPOINTS,
        'from_parameters': body_src(find_func(par, 'from_parameters')) == FROM_PARAMETERS,
        'OrType.iter_type_args': body_src(find_func(orty, 'iter_type_args')) == ITER_TYPE_ARGS,
        'OrType.iter_values': body_src(find_func(orty, 'iter_values')) == ITER_VALUES,
        'OrType.from_micheline_value': body_src(find_func(orty, 'from_micheline_value')) == OR_FROM_MICHELINE,
        'wrap_parameters': body_src(find_func(adt, 'wrap_parameters')) == WRAP_PARAMETERS,
        'get_type_layout (entrypoints path)': layout_entrypoints_path(find_func(adt, 'get_type_layout')),
    }
    base = parse('michelson/types/base.py')
    mic = parse('michelson/micheline.py')
    unit = find_class(parse('michelson/types/core.py'), 'UnitType')
    mixin = find_class(adt, 'ADTMixin')
    checks.update({
        'parse_name': body_src(find_func(base, 'parse_name')) == PARSE_NAME,
        'MichelsonType.create_type': body_src(find_func(find_class(base, 'MichelsonType'), 'create_type')) == MT_CREATE_TYPE,
        'Micheline.match': body_src(find_func(find_class(mic, 'Micheline'), 'match')) == MATCH,
        'parse_micheline_prim': body_src(find_func(mic, 'parse_micheline_prim')) == PARSE_PRIM,
        'ParameterSection.from_python_object': body_src(find_func(par, 'from_python_object')) == PS_FROM_PY,
        'ParameterSection.to_python_object': body_src(find_func(par, 'to_python_object')) == PS_TO_PY,
        'OrType.from_python_object': body_src(find_func(orty, 'from_python_object')) == OR_FROM_PY,
        'OrType.to_python_object': body_src(find_func(orty, 'to_python_object')) == OR_TO_PY,
        'OrType.create_type (is_enum)': body_src(find_func(orty, 'create_type')) == OR_CREATE_TYPE,
        'wrap_or': body_src(find_func(adt, 'wrap_or')) == WRAP_OR,
        'ADTMixin.get_flat_values': body_src(find_func(mixin, 'get_flat_values')) == GET_FLAT_VALUES,
        'ADTMixin.get_type_layout': body_src(find_func(mixin, 'get_type_layout')) == MIXIN_LAYOUT,
        'get_type_layout (display names)': body_src(find_func(adt, 'get_type_layout')) == GET_TYPE_LAYOUT,
        'UnitType.from_python_object': body_src(find_func(unit, 'from_python_object')) == UNIT_FROM_PY,
        'UnitType.to_python_object': body_src(find_func(unit, 'to_python_object')) == UNIT_TO_PY,
    })
    for k, ok in checks.items():
        status[f'mirror source: {k}'] = (ok, 'statement-for-statement as mirrored' if ok else 'body differs from the mirrored text')
    out.append('/-- the other mirrored functions have the shape the hand-written mirror was made from -/')
    out.append('def sourceRecognised : Option Unit := ' + ('some ()' if all(checks.values()) else 'none'))
    return '\n'.join(out) + '\n'
