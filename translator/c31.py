"""C31 — crypto/hash.py: the in-place Merkle reduction and the three public hash functions.

Nothing is guessed: every statement of `_hash_tuple`, `_reduce_operation_hashes` (and its inner `step`) and of the
three API functions has to match the shape the Lean mirror (`Impl.Merkle`) was written after.  The numeric parameters
of the index arithmetic (`m = (n + 1) // 2`, `a[2 * i]`, `a[2 * i + 1]`) are *extracted* and consumed by the model, so
that an edit of one of them changes the model (and re-opens the proof obligation) instead of being pattern-rejected.
"""
import ast
import re

from translator.extract import find_func, generator, lean_str, parse, strip_docstring


def _n(node):
    return ast.unparse(node).replace(' ', '')


def _norm_body(fn):
    return [_n(s) for s in strip_docstring(fn.body)]


@generator('C31')
def gen_c31(status):
    tree = parse('crypto/hash.py')
    out = []

    # ---- which blake2b is bound in the module (the harness replaces exactly this name for the toy-hash run)
    imports = [_n(s) for s in tree.body if isinstance(s, (ast.Import, ast.ImportFrom))]
    ok_imp = 'fromhashlibimportblake2b' in imports
    status['hash.py binds hashlib.blake2b'] = (ok_imp, '; '.join(imports))

    # ---- _hash_tuple(left=b'', right=b'') = blake2b(left + right, digest_size=32).digest()
    ht = find_func(tree, '_hash_tuple')
    ok_ht = False
    digest = None
    if ht is not None:
        args = [a.arg for a in ht.args.args]
        defaults = [_n(d) for d in ht.args.defaults]
        body = _norm_body(ht)
        m = re.fullmatch(r'returnblake2b\(left\+right,digest_size=(\d+)\)\.digest\(\)', body[0]) if len(body) == 1 else None
        if args == ['left', 'right'] and defaults == ["b''", "b''"] and m:
            ok_ht, digest = True, int(m.group(1))
    status['_hash_tuple = H(left ++ right), defaults empty'] = (ok_ht, ast.unparse(ht)[:300] if ht is not None else 'missing')

    # ---- _reduce_operation_hashes
    params = None
    detail = ''
    fn = find_func(tree, '_reduce_operation_hashes')
    try:
        assert fn is not None, 'function missing'
        assert [a.arg for a in fn.args.args] == ['hashes'], 'signature'
        body = strip_docstring(fn.body)
        assert len(body) == 3, f'{len(body)} top-level statements'
        assert _n(body[0]) in ('a:List[bytes]=[]', 'a=[]'), _n(body[0])
        step = body[1]
        assert isinstance(step, ast.FunctionDef) and step.name == 'step' and [a.arg for a in step.args.args] == ['n'], 'inner step(n)'
        sb = strip_docstring(step.body)
        assert len(sb) == 5, f'step has {len(sb)} statements'
        assert _n(sb[0]) == 'nonlocala', _n(sb[0])
        m1 = re.fullmatch(r'm=\(n\+(\d+)\)//(\d+)', _n(sb[1]))
        assert m1, _n(sb[1])
        loop = sb[2]
        assert isinstance(loop, ast.For) and _n(loop.target) == 'i' and _n(loop.iter) == 'range(m)' and not loop.orelse \
            and len(loop.body) == 1, 'pair loop'
        m2 = re.fullmatch(r'a\[i\]=_hash_tuple\(a\[(\d+)\*i(?:\+(\d+))?\],a\[(\d+)\*i(?:\+(\d+))?\]\)', _n(loop.body[0]))
        assert m2, _n(loop.body[0])
        assert _n(sb[3]) == 'a[m]=_hash_tuple(a[n],a[n])', _n(sb[3])
        br = sb[4]
        assert isinstance(br, ast.If) and _n(br.test) == 'm==1' and [_n(s) for s in br.body] == ['returna[0]'], 'm == 1 branch'
        assert len(br.orelse) == 1 and isinstance(br.orelse[0], ast.If), 'elif'
        br2 = br.orelse[0]
        assert _n(br2.test) == 'm%2==0' and [_n(s) for s in br2.body] == ['returnstep(m)'], 'even branch'
        assert [_n(s) for s in br2.orelse] == ['a[m+1]=a[m]', 'returnstep(m+1)'], 'odd branch: ' + str([_n(s) for s in br2.orelse])
        top = body[2]
        assert isinstance(top, ast.If) and _n(top.test) == 'len(hashes)==0' and [_n(s) for s in top.body] == ['return_hash_tuple()'], 'empty case'
        assert len(top.orelse) == 1 and isinstance(top.orelse[0], ast.If), 'elif len == 1'
        t2 = top.orelse[0]
        assert _n(t2.test) == 'len(hashes)==1' and [_n(s) for s in t2.body] == ['return_hash_tuple(hashes[0])'], 'singleton case'
        assert [_n(s) for s in t2.orelse] == ['res=list(map(lambdax:_hash_tuple(x),hashes))', 'a=res+[res[-1]]',
                                              'returnstep(len(hashes))'], 'general case: ' + str([_n(s) for s in t2.orelse])
        params = dict(halfAdd=int(m1.group(1)), halfDiv=int(m1.group(2)),
                      lMul=int(m2.group(1)), lAdd=int(m2.group(2) or 0), rMul=int(m2.group(3)), rAdd=int(m2.group(4) or 0))
    except AssertionError as e:
        detail = f'unrecognised: {e}'
    status['_reduce_operation_hashes shape'] = (params is not None, detail or str(params))

    out.append('structure Params where\n  halfAdd : Nat\n  halfDiv : Nat\n  lMul : Nat\n  lAdd : Nat\n  rMul : Nat\n  rAdd : Nat\n  deriving Repr, DecidableEq\n')
    out.append('/-- `step`: `m = (n + halfAdd) // halfDiv`; loop body `a[i] = H(a[lMul*i+lAdd] ++ a[rMul*i+rAdd])`; every other\n'
               'statement of `_reduce_operation_hashes` matched the mirrored shape literally (`none` otherwise) -/')
    if params is not None and ok_ht:
        fields = ', '.join(f'{k} := {v}' for k, v in params.items())
        out.append(f'def reduceShape : Option Params := some {{ {fields} }}\n')
    else:
        out.append('def reduceShape : Option Params := none\n')
    out.append(f'def digestSize : Option Nat := {"some " + str(digest) if digest is not None else "none"}\n')

    # ---- the three API functions
    def api(name, expected, label):
        f = find_func(tree, name)
        got = _norm_body(f) if f is not None else None
        pref = None
        if got is not None and len(got) == len(expected):
            ok = True
            for g, e in zip(got, expected):
                m = re.fullmatch(e, g)
                if not m:
                    ok = False
                    break
                if m.groups():
                    pref = m.group(1)
            if not ok:
                pref = None
        status[label] = (pref is not None, str(got)[:400])
        return pref

    p_lo = api('operation_list_hash', [
        re.escape('raw_items=list(map(lambdax:base58_decode(x.encode()),operation_hashes))'),
        re.escape('res=_reduce_operation_hashes(raw_items)'),
        r"returnbase58_encode\(res,b'(\w+)'\)\.decode\(\)"], 'operation_list_hash body')
    p_llo = api('operation_list_list_hash', [
        re.escape('lo_hashes=list(map(operation_list_hash,operations_hashes))'),
        re.escape('raw_items=list(map(lambdax:base58_decode(x.encode()),lo_hashes))'),
        re.escape('res=_reduce_operation_hashes(raw_items)'),
        r"returnbase58_encode\(res,b'(\w+)'\)\.decode\(\)"], 'operation_list_list_hash body')
    f = find_func(tree, 'block_payload_hash')
    p_vh, round_len = None, None
    if f is not None:
        got = _norm_body(f)
        if len(got) == 3:
            m0 = re.fullmatch(r"payload=\[base58_decode\(predecessor\.encode\(\)\),payload_round\.to_bytes\((\d+),'big'\),"
                              r"_reduce_operation_hashes\(\[base58_decode\(x\.encode\(\)\)forxinoperation_hashes\]\)\]", got[0])
            m1 = re.fullmatch(r"res=blake2b\(b''\.join\(payload\),digest_size=(\d+)\)\.digest\(\)", got[1])
            m2 = re.fullmatch(r"returnbase58_encode\(res,b'(\w+)'\)\.decode\(\)", got[2])
            if m0 and m1 and m2 and digest is not None and int(m1.group(1)) == digest:
                p_vh, round_len = m2.group(1), int(m0.group(1))
        status['block_payload_hash body'] = (p_vh is not None, str(got)[:500])
    else:
        status['block_payload_hash body'] = (False, 'missing')

    def opt_str(s):
        return 'some ' + lean_str(s) if s is not None else 'none'

    out.append(f'/-- human-readable base58 prefixes passed to `base58_encode` by the three API functions -/\n'
               f'def opListPrefix : Option String := {opt_str(p_lo)}\n'
               f'def opListListPrefix : Option String := {opt_str(p_llo)}\n'
               f'def payloadPrefix : Option String := {opt_str(p_vh)}\n'
               f'/-- `payload_round.to_bytes(k, \'big\')` -/\n'
               f'def roundBytes : Option Nat := {"some " + str(round_len) if round_len is not None else "none"}\n')
    return '\n'.join(out)
