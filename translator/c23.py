"""C23 — OperationGroup.sign / hash / binary_payload.

Read from the source: `validation_passes` (rpc/kind.py, literal dict), the rows `o` (operation hash) and `Net`
(chain id) of `base58_encodings`, and — as fixed shapes compared statement by statement — the bodies of
`OperationGroup.sign` (pass lookup, mixed-pass check, watermark choice with the two watermark bytes extracted,
`self.key.sign(message=…, generic=True)`), `binary_payload`, `hash`, `forge` (local part) and `forge_base58`."""
import ast
import re

from translator.c07 import b58_rows, body_of, lb, opt, rows_def
from translator.extract import find_assign, find_class, find_func, generator, lean_list, lean_str, parse


@generator('C23')
def gen(status):
    out = []
    rows = b58_rows()
    status['base58_encodings literal'] = (rows is not None, f'{len(rows)} rows' if rows else 'not a literal list of 5-tuples')
    rows = rows or []
    out.append(rows_def('hashRows', [r for r in rows if r[0] in (b'o', b'Net')], 'operation hash and chain id kinds'))

    # --- validation_passes
    kind = parse('rpc/kind.py')
    d = find_assign(kind, 'validation_passes')
    vp = None
    if isinstance(d, ast.Dict):
        vp = []
        for k, v in zip(d.keys, d.values):
            val = None
            if isinstance(v, ast.Constant) and isinstance(v.value, int):
                val = v.value
            elif isinstance(v, ast.UnaryOp) and isinstance(v.op, ast.USub) and isinstance(v.operand, ast.Constant) and isinstance(v.operand.value, int):
                val = -v.operand.value
            if not (isinstance(k, ast.Constant) and isinstance(k.value, str)) or val is None:
                vp = None
                break
            vp.append((k.value, val))
        if vp is not None and len({k for k, _ in vp}) != len(vp):
            vp = None
    status['validation_passes dict literal'] = (vp is not None, f'{len(vp)} kinds, consensus (pass 0): {[k for k, v in vp if v == 0]}' if vp else 'not a literal dict str -> int with unique keys')
    out.append('/-- `validation_passes`: operation kind -> validation pass (source order) -/')
    out.append('def validationPasses : Option (List (String × Int)) := ' + opt(vp, lambda t: lean_list(f'({lean_str(k)}, {v})' for k, v in t)))

    # --- OperationGroup.sign
    grp = parse('operation/group.py')
    cls = find_class(grp, 'OperationGroup')
    body = body_of(find_func(cls, 'sign'))
    texts = [ast.unparse(s) for s in body]
    wm = None
    if len(texts) == 6:
        m = re.fullmatch(r"if validation_pass == 0:\n    if self\.chain_id is None:\n        raise ValueError\('Chain ID is undefined, run \.fill first'\)\n"
                         r"    watermark = (b'\\x[0-9a-f]{2}') \+ base58_decode\(self\.chain_id\.encode\(\)\)\nelse:\n    watermark = (b'\\x[0-9a-f]{2}')", texts[2])
        if (m and texts[0] == "validation_pass = validation_passes[self.contents[0]['kind']]"
                and texts[1] == "if any(map(lambda x: validation_passes[x['kind']] != validation_pass, self.contents)):\n    raise ValueError('Mixed validation passes')"
                and texts[3] == 'message = watermark + bytes.fromhex(self.forge())'
                and texts[4] == 'signature = self.key.sign(message=message, generic=True)'
                and texts[5] == 'return self._spawn(signature=signature)'):
            wm = (ast.literal_eval(m.group(1))[0], ast.literal_eval(m.group(2))[0])
    status['OperationGroup.sign shape'] = (wm is not None, f'pass 0 -> {wm[0]:#04x} ++ chain id, otherwise {wm[1]:#04x}; key.sign(generic=True)' if wm else 'unrecognised body')
    out.append('/-- `OperationGroup.sign`: (watermark byte of pass-0 groups, followed by the decoded chain id; watermark byte of all other groups) -/')
    out.append('def signWatermarks : Option (Nat × Nat) := ' + opt(wm, lambda t: f'{t[0]}, {t[1]}'))

    ok_bp = [ast.unparse(s) for s in body_of(find_func(cls, 'binary_payload'))] == [
        "if not self.signature:\n    raise ValueError('Not signed')", 'return bytes.fromhex(self.forge()) + forge_base58(self.signature)']
    ok_h = [ast.unparse(s) for s in body_of(find_func(cls, 'hash'))] == [
        'hash_digest = blake2b_32(self.binary_payload()).digest()', "return base58_encode(hash_digest, b'o').decode()"]
    fb = find_func(parse('michelson/forge.py'), 'forge_base58')
    ok_fb = fb is not None and [ast.unparse(s) for s in body_of(fb)] == ['return base58_decode(value.encode())']
    fg = [ast.unparse(s) for s in body_of(find_func(cls, 'forge'))]
    ok_fg = (len(fg) == 4 and fg[0] == "payload = {'branch': self.branch, 'contents': self.contents}"
             and fg[1] == 'local_data = forge_operation_group(payload).hex()' and fg[2].startswith('if validate:') and fg[3] == 'return local_data')
    status['binary_payload / hash / forge_base58 / forge shape'] = (ok_bp and ok_h and ok_fb and ok_fg,
                                                                    'forged bytes ++ base58_decode(signature); base58 `o` of blake2b_32' if ok_bp and ok_h and ok_fb and ok_fg
                                                                    else f'unrecognised: binary_payload={ok_bp} hash={ok_h} forge_base58={ok_fb} forge={ok_fg}')
    out.append('/-- `binary_payload` = forged bytes ++ `base58_decode(signature)`, `hash` = `base58_encode(blake2b_32(binary_payload), b\'o\')` -/')
    out.append(f'def hashRecognised : Bool := {str(ok_bp and ok_h and ok_fb and ok_fg).lower()}')
    return '\n'.join(out) + '\n'
