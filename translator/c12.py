"""C12 — Python-object conversion.  Reads (ast only):
  * whether `class unit` (the `Unit` sentinel returned by `UnitType.to_python_object`) defines `__hash__`
    (pinned tree: no => a set element / map key containing Unit is unhashable);
  * the shape of `PairType.__lt__` (pinned tree: not lexicographic; only used by `sorted` in `from_python_object`);
  * the shape of the name generator in `get_type_layout` (repaired: generated names made different from the declared
    ones / pinned: not / anything else: unrecognised);
  * `BLS12_381_FrType.modulus`; which conversion methods the domain / bls12_381 classes inherit (`INHERITS`);
  * that every mirrored function still has the body the hand-written mirror was made from (hash of the unparsed
    statements, docstrings stripped).  A changed body => `sourceRecognised = none`: the model refuses to run and the
    side condition of the theorems does not close."""
import ast
import hashlib

from translator.extract import find_class, generator, parse, strip_docstring

MIRRORED = {
    ('michelson/types/adt.py', None, 'wrap_or'): '0cf31f47afd7074e',
    ('michelson/types/adt.py', None, 'wrap_pair'): 'dc4386fcacc6aae5',
    ('michelson/types/adt.py', 'ADTMixin', 'get_flat_values'): '744440c6571710f1',
    ('michelson/types/adt.py', 'ADTMixin', 'get_type_layout'): '78123dd429960781',
    ('michelson/types/pair.py', 'PairType', 'iter_type_args'): '5cb257d154cedd8e',
    ('michelson/types/pair.py', 'PairType', 'iter_values'): '1af968487dc95a20',
    ('michelson/types/pair.py', 'PairType', 'from_python_object'): '5eb69b0938cd6b9e',
    ('michelson/types/pair.py', 'PairType', 'to_python_object'): '54869b0254fc0d07',
    ('michelson/types/sum.py', 'OrType', 'iter_type_args'): 'a19c970ebbfab429',
    ('michelson/types/sum.py', 'OrType', 'iter_values'): '54490c593d791b06',
    ('michelson/types/sum.py', 'OrType', 'from_python_object'): '5e7c466cb9418e42',
    ('michelson/types/sum.py', 'OrType', 'to_python_object'): '6dd57209481d1fea',
    ('michelson/types/sum.py', 'OrType', 'create_type'): '63156cd008c49030',
    ('michelson/types/option.py', 'OptionType', 'from_python_object'): '1c2cfb6b88a13e87',
    ('michelson/types/option.py', 'OptionType', 'to_python_object'): 'ec02c942187e8a65',
    ('michelson/types/list.py', 'ListType', 'from_python_object'): '8faa7a9b3f9c55fc',
    ('michelson/types/list.py', 'ListType', 'to_python_object'): 'b3ad32d7a2e637da',
    ('michelson/types/set.py', 'SetType', 'from_python_object'): '679d776470e7bbd0',
    ('michelson/types/set.py', 'SetType', 'to_python_object'): '51fdb423b75ea791',
    ('michelson/types/map.py', 'MapType', 'parse_python_object'): 'd28b25ec0285738b',
    ('michelson/types/map.py', 'MapType', 'from_python_object'): '650aec35ad6b4131',
    ('michelson/types/map.py', 'MapType', 'to_python_object'): '0c5514a76a676725',
    ('michelson/types/big_map.py', 'BigMapType', 'from_python_object'): 'ad4e8d49076bd14c',
    ('michelson/types/big_map.py', 'BigMapType', 'to_python_object'): '8bd8ab1282448eb5',
    ('michelson/types/core.py', 'StringType', 'from_value'): 'ec0a5e1747e8308d',     # ASCII + printable-or-newline (45078c3) = 
    ('michelson/types/core.py', 'StringType', 'from_python_object'): 'f862d4003e66262b',
    ('michelson/types/core.py', 'StringType', 'to_python_object'): '7f5d4d09a4d6a552',
    ('michelson/types/core.py', 'IntType', 'from_python_object'): '39c3363934773c55',
    ('michelson/types/core.py', 'IntType', 'to_python_object'): '7f5d4d09a4d6a552',
    ('michelson/types/core.py', 'NatType', 'from_value'): '83cbc60e19a10d5e',
    ('michelson/types/core.py', 'NatType', 'from_python_object'): '9b0381efd6913d1f',
    ('michelson/types/core.py', 'BytesType', 'from_python_object'): 'e786a98ddc02c0fd',
    ('michelson/types/core.py', 'BytesType', 'to_python_object'): '03786899e640fd4b',
    ('michelson/types/core.py', 'BoolType', 'from_python_object'): '914616a06848aa29',
    ('michelson/types/core.py', 'BoolType', 'to_python_object'): '7f5d4d09a4d6a552',
    ('michelson/types/core.py', 'UnitType', 'from_python_object'): 'c1b31fefc02ea07d',
    ('michelson/types/core.py', 'UnitType', 'to_python_object'): '6e84f40e159bdbec',
    ('michelson/types/domain.py', 'TimestampType', 'from_value'): '97b9072a7f3d27f3',
    ('michelson/types/domain.py', 'TimestampType', 'from_python_object'): '5e52dcf6652c4dbd',
    ('michelson/types/domain.py', 'TimestampType', 'to_python_object'): '7f5d4d09a4d6a552',
    ('michelson/types/domain.py', 'MutezType', 'from_value'): 'ed02c8e5389f7031',
    ('michelson/types/domain.py', 'MutezType', 'from_python_object'): '5738a0c6090d8114',
    # ---- extension: domain leaves and the alternative input forms
    ('michelson/forge.py', None, 'optimize_timestamp'): '096b3717f58bf1c4',
    ('michelson/types/domain.py', 'AddressType', 'from_value'): '30e2486432343138',
    ('michelson/types/domain.py', 'AddressType', 'from_python_object'): 'f862d4003e66262b',
    ('michelson/types/domain.py', 'AddressType', 'to_python_object'): '7f5d4d09a4d6a552',
    ('michelson/types/domain.py', 'AddressType', '__lt__'): '2377a5f364e9f5f2',
    ('michelson/types/domain.py', 'AddressType', '_split'): '6ef675ca653895a9',
    ('michelson/types/domain.py', 'KeyType', 'from_value'): '53c041d4998450c4',
    ('michelson/types/domain.py', 'KeyType', 'to_python_object'): '7f5d4d09a4d6a552',
    ('michelson/types/domain.py', 'KeyType', '__lt__'): '03636012aacb3b26',
    ('michelson/types/domain.py', 'KeyType', 'raw'): 'b4270ca3cde19afe',
    ('michelson/types/domain.py', 'KeyType', 'prefix'): 'eaaf842696368991',
    ('michelson/types/domain.py', 'KeyHashType', 'from_value'): '38241f02640d6726',
    ('michelson/types/domain.py', 'KeyHashType', 'to_python_object'): '7f5d4d09a4d6a552',
    ('michelson/types/domain.py', 'SignatureType', 'from_value'): '762b4e49a816e269',
    ('michelson/types/domain.py', 'SignatureType', 'from_python_object'): 'f862d4003e66262b',
    ('michelson/types/domain.py', 'SignatureType', 'to_python_object'): '7f5d4d09a4d6a552',
    ('michelson/types/domain.py', 'SignatureType', '__lt__'): 'edd39173daf0258f',
    ('michelson/types/domain.py', 'SignatureType', '__eq__'): '34ff5434b7f9d995',
    ('michelson/types/domain.py', 'SignatureType', 'raw'): 'b4270ca3cde19afe',
    ('michelson/types/domain.py', 'ChainIdType', 'from_value'): '068ea1aacdfaadc1',
    ('michelson/types/domain.py', 'ChainIdType', 'from_python_object'): 'f862d4003e66262b',
    ('michelson/types/domain.py', 'ChainIdType', 'to_python_object'): '7f5d4d09a4d6a552',
    ('michelson/types/domain.py', 'ContractType', 'from_python_object'): 'e4481c16cbe2d2b3',
    ('michelson/types/domain.py', 'ContractType', 'to_python_object'): '0eb9c1f7a54f28fe',
    ('michelson/types/core.py', 'StringType', '__lt__'): '5445d6d443d5b06a',
    ('michelson/types/bls.py', 'BLS12_381_FrType', 'bytes_to_int'): 'fa3e13b894ac5018',
    ('michelson/types/bls.py', 'BLS12_381_FrType', 'from_value'): '76e8ecdf4dd3daf1',
    ('michelson/types/bls.py', 'BLS12_381_FrType', 'from_python_object'): 'c0ef773edda9099f',
    ('michelson/types/bls.py', 'BLS12_381_FrType', 'to_python_object'): '5208653feb7ac943',
    ('michelson/types/bls.py', 'BLS12_381_G1Type', 'to_python_object'): '1e06b3e1c9c8fdce',
    ('michelson/types/bls.py', 'BLS12_381_G2Type', 'to_python_object'): 'd0d43b03f16e4d9e',
    ('michelson/types/base.py', 'MichelsonType', 'from_python_object'): '0c823067a4f59cbf',
    # ---- extension: try_unpack=True (`blind_unpack` itself is recognised below: repaired / pinned)
    ('michelson/micheline.py', None, 'micheline_value_to_python_object'): '7f940772836bc667',
    ('michelson/forge.py', None, 'unforge_address'): '24b7c1cd4e200c82',
    ('michelson/forge.py', None, 'unforge_public_key'): '74849358039e968a',
    ('michelson/forge.py', None, 'unforge_chain_id'): '0b5184af09bb5600',
    ('michelson/forge.py', None, 'unforge_signature'): '0e5801b5504802df',
    # ---- extension: ticket, lambda (`TicketType.from_python_object` is recognised below: repaired / pinned)
    ('michelson/types/ticket.py', 'TicketType', 'to_python_object'): '4f21bffc70a8124d',
    ('michelson/types/domain.py', 'LambdaType', 'from_python_object'): '4f502615cddb0feb',
    ('michelson/types/domain.py', 'LambdaType', 'to_python_object'): '8372006ed6295473',
    ('michelson/types/domain.py', 'LambdaType', 'from_micheline_value'): '7a96394231c2ea15',
    ('michelson/types/domain.py', 'LambdaType', 'to_micheline_value'): '97c3ea76549aef51',
    ('contract/data.py', 'ContractData', 'decode'): 'e0c5d831d3830454',
    ('contract/data.py', 'ContractData', 'encode'): '6828d651262620a8',
}

# (file, class, base classes as written, methods the class must NOT define): the mirror relies on inheritance here —
# key / key_hash convert through `StringType.from_python_object` -> their own `from_value`; the bls12_381 points through
# `BytesType.from_python_object` (`cls(value)`: no `from_value`, no length check); `never` has no conversion at all
INHERITS = [
    ('michelson/types/domain.py', 'AddressType', ['StringType'], []),
    ('michelson/types/domain.py', 'KeyType', ['StringType'], ['from_python_object']),
    ('michelson/types/domain.py', 'KeyHashType', ['StringType'], ['from_python_object', '__lt__', '__eq__']),
    ('michelson/types/domain.py', 'SignatureType', ['StringType'], []),
    ('michelson/types/domain.py', 'ChainIdType', ['StringType'], ['__lt__', '__eq__']),
    ('michelson/types/domain.py', 'ContractType', ['AddressType'], ['from_value', '__lt__']),
    ('michelson/types/domain.py', 'TimestampType', ['IntType'], ['__lt__', '__eq__']),
    ('michelson/types/domain.py', 'MutezType', ['NatType'], ['to_python_object', '__lt__', '__eq__']),
    ('michelson/types/bls.py', 'BLS12_381_FrType', ['IntType'], ['__lt__', '__eq__']),
    ('michelson/types/bls.py', 'BLS12_381_G1Type', ['BytesType'], ['from_python_object', 'from_micheline_value', '__lt__', '__eq__']),
    ('michelson/types/bls.py', 'BLS12_381_G2Type', ['BytesType'], ['from_python_object', 'from_micheline_value', '__lt__', '__eq__']),
    ('michelson/types/core.py', 'NeverType', ['MichelsonType'], ['from_python_object', 'to_python_object', 'from_micheline_value']),
]

# get_type_layout (module-level function of adt.py): the body the mirror `Impl.PyConv.layoutGo / renameGo / fresh` was made
# from (fixes/C12-1: a second loop makes every generated `prim_i` name differ from all declared names and from the
# generated names before it), and the body of the pinned tree (first loop only: `pair (nat %nat_1) nat` -> two `nat_1`)
LAYOUT_FRESH = 'bc57edfef740368a'
LAYOUT_PINNED = 'f45adf8c82a80d26'

# blind_unpack (michelson/micheline.py): the body the mirror `Impl.PyConv.blindUnpack` was made from (fixes/C12-2: a value that
# starts with 0x05 and is not readable PACKed data goes on to the next reading whatever `unforge_micheline` raises:
# ValueError, AssertionError, IndexError, KeyError), and the body of the pinned tree (only ValueError / AssertionError
# suppressed: `to_python_object(try_unpack=True)` of the bytes 0x05 raises IndexError)
BLIND_UNPACK_FALLS_BACK = '941de18a19eea18d'
BLIND_UNPACK_PINNED = '47be26f240e58103'

# TicketType.from_python_object: the body the mirror was made from (fixes/C12-3: ticketer, item and amount are converted one by
# one, the way to_python_object shows them) and the pinned body (the object read as a value of `pair address (pair t nat)`,
# whose layout flattens an unnamed pair t: `ticket (pair nat nat)` did not convert back)
TICKET_COMPONENTWISE = 'daaab04caa33feda'
TICKET_PINNED = '3d2b52de886d843c'

PAIR_LT_PINNED = ['for i, item in enumerate(self.items):\n    if item > other.items[i]:\n        return False', 'return True']
PAIR_LT_LEX = ['for i, item in enumerate(self.items):\n    if item != other.items[i]:\n        return item < other.items[i]', 'return False']


def body_hash(fn):
    return hashlib.sha256('\n'.join(ast.unparse(s) for s in strip_docstring(fn.body)).encode()).hexdigest()[:16]


def get_fn(tree, cls, name):
    node = find_class(tree, cls) if cls else tree
    if node is None:
        return None
    return next((n for n in node.body if isinstance(n, ast.FunctionDef) and n.name == name), None)


@generator('C12')
def gen(status):
    out = []
    trees = {}

    def tree(rel):
        if rel not in trees:
            trees[rel] = parse(rel)
        return trees[rel]

    # ---- `unit` sentinel hashable?
    ucls = find_class(tree('michelson/types/core.py'), 'unit')
    uh = None
    if ucls is not None:
        names = [n.name for n in ucls.body if isinstance(n, ast.FunctionDef)]
        assigns = [ast.unparse(n) for n in ucls.body if isinstance(n, ast.Assign)]
        if '__eq__' in names and not any('__hash__' in a for a in assigns):
            uh = '__hash__' in names
    status['unit sentinel __hash__'] = (uh is not None, f'defines __hash__: {uh}' if uh is not None else 'class unit not recognised')
    out.append('/-- does `class unit` (the value `UnitType.to_python_object` returns) define `__hash__` next to `__eq__`? -/')
    out.append('def unitHashable : Option Bool := ' + ('none' if uh is None else f'some {str(uh).lower()}'))

    # ---- PairType.__lt__
    lt = get_fn(tree('michelson/types/pair.py'), 'PairType', '__lt__')
    lex = None
    if lt is not None:
        src = [ast.unparse(s) for s in strip_docstring(lt.body)]
        if src == PAIR_LT_PINNED:
            lex = False
        elif src == PAIR_LT_LEX:
            lex = True
    status['PairType.__lt__ shape'] = (lex is not None, f'lexicographic={lex}' if lex is not None else 'unrecognised body')
    out.append('/-- is `PairType.__lt__` the lexicographic order (first differing component decides)? -/')
    out.append('def pairLtLexicographic : Option Bool := ' + ('none' if lex is None else f'some {str(lex).lower()}'))

    # ---- name generator of get_type_layout
    gl = get_fn(tree('michelson/types/adt.py'), None, 'get_type_layout')
    fresh = None
    if gl is not None:
        h = body_hash(gl)
        if h == LAYOUT_FRESH:
            fresh = True     # while name in taken: name += '_'  (taken = declared names + generated names so far)
        elif h == LAYOUT_PINNED:
            fresh = False    # f'{arg.prim}_{i}' used as it is: may equal a declared name
    status['get_type_layout name generator'] = (
        fresh is True,
        'generated names made different from every declared name (second loop, as mirrored)' if fresh
        else "old shape: f'{arg.prim}_{i}' is never compared with the declared names (pair (nat %nat_1) nat -> nat_1, nat_1)" if fresh is False
        else 'unrecognised body')
    out.append('/-- name generator of `get_type_layout`: are the generated `prim_i` names made different from every declared name')
    out.append('(`some false`: the old shape, a generated name can equal a declared one; `none`: unrecognised body)? -/')
    out.append('def generatedNamesFresh : Option Bool := ' + ('none' if fresh is None else f'some {str(fresh).lower()}'))

    # ---- blind_unpack
    bu = get_fn(tree('michelson/micheline.py'), None, 'blind_unpack')
    falls = None
    if bu is not None:
        h = body_hash(bu)
        falls = True if h == BLIND_UNPACK_FALLS_BACK else False if h == BLIND_UNPACK_PINNED else None
    status['blind_unpack falls back on unreadable PACKed data'] = (
        falls is True,
        'IndexError / KeyError of unforge_micheline suppressed as well (as mirrored)' if falls
        else 'old shape: only ValueError / AssertionError are suppressed (bytes 0x05 -> IndexError, 0x0503af -> KeyError)' if falls is False
        else 'unrecognised body')
    out.append('/-- `blind_unpack` goes on to the next reading whenever `unforge_micheline` fails (`some false`: the old shape, IndexError /')
    out.append('KeyError escape; `none`: unrecognised body) -/')
    out.append('def blindUnpackFallsBack : Option Bool := ' + ('none' if falls is None else f'some {str(falls).lower()}'))

    # ---- TicketType.from_python_object
    tf = get_fn(tree('michelson/types/ticket.py'), 'TicketType', 'from_python_object')
    tick = None
    if tf is not None:
        h = body_hash(tf)
        tick = True if h == TICKET_COMPONENTWISE else False if h == TICKET_PINNED else None
    status['TicketType.from_python_object converts the three components'] = (
        tick is True,
        '(ticketer, item, amount) converted one by one (as mirrored)' if tick
        else 'old shape: the object is read as a value of pair address (pair t nat); a ticket of an unnamed pair does not convert back' if tick is False
        else 'unrecognised body')
    out.append('/-- `TicketType.from_python_object` converts ticketer, item and amount one by one (`some false`: the old comb shape) -/')
    out.append('def ticketComponentwise : Option Bool := ' + ('none' if tick is None else f'some {str(tick).lower()}'))

    # ---- bls12_381_fr modulus
    fr = find_class(tree('michelson/types/bls.py'), 'BLS12_381_FrType')
    mod = None
    if fr is not None:
        mod = next((n.value.value for n in fr.body if isinstance(n, ast.Assign) and ast.unparse(n.targets[0]) == 'modulus'
                    and isinstance(n.value, ast.Constant) and type(n.value.value) is int), None)
    status['BLS12_381_FrType.modulus'] = (mod is not None, str(mod) if mod is not None else 'not an integer literal')
    out.append('/-- `BLS12_381_FrType.modulus` -/')
    out.append('def frModulus : Option Nat := ' + (f'some {mod}' if mod is not None else 'none'))

    # ---- everything else that is mirrored
    bad = []
    for (rel, cls, name), want in MIRRORED.items():
        fn = get_fn(tree(rel), cls, name)
        if fn is None or body_hash(fn) != want:
            bad.append(f'{cls or rel}.{name}')
    for rel, cls, bases, absent in INHERITS:
        node = find_class(tree(rel), cls)
        if node is None or [ast.unparse(b) for b in node.bases] != bases:
            bad.append(f'{cls}: bases')
            continue
        have = {n.name for n in node.body if isinstance(n, ast.FunctionDef)}
        bad += [f'{cls}.{m} (now defined)' for m in absent if m in have]
    status['mirror source: to/from_python_object, iter_*, wrap_*, encode/decode'] = (
        not bad, f'{len(MIRRORED)} function bodies as mirrored' if not bad else 'changed: ' + ', '.join(bad))
    out.append('/-- the mirrored function bodies are the ones the hand-written mirror was made from -/')
    out.append('def sourceRecognised : Option Unit := ' + ('some ()' if not bad and fresh is not None else 'none'))
    return '\n'.join(out) + '\n'
