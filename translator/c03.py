"""C03 — the comparison code of the comparable runtime types.

Extracted from /repo/src (ast only; anything unrecognised -> `none` + a failed status, never a guess):
* `compare()` in instructions/compare.py: the `==` / `<` / else shape;
* `KeyType.__lt__`: the `curves` table (text prefix -> (rank, offset)) and the shape of the body;
* `AddressType.__lt__`: the `kinds` table (3-character prefix -> rank), whether the tie is broken on the whole text or on
  `(address, entrypoint or 'default')` (and that default literal);
* `PairType.__lt__` / `__eq__`, `OptionType.__lt__` / `__eq__`, `OrType.__lt__` / `__eq__`: structural shape
  (a normalised `ast.unparse` of the body is matched against the known shapes — the defective pinned shapes are
  recognised and named so that re-introducing one changes the generated constant);
* `UnitType.__eq__` (type check or constant True), whether class `unit` is hashable, whether `SignatureType`
  compares decoded bytes, the leaf `__lt__`/`__eq__` of String/Int/Bytes/Bool, which classes inherit them;
* the `is_comparable` list of non-comparable prims;
* `SetType.check_constraints` / `MapType.check_constraints` shape.
"""
import ast

from translator.extract import all_type_args_forms, find_class, find_func, generator, lean_list, parse, strip_docstring


def _n(node):
    return ast.unparse(node).replace(' ', '').replace('"', "'")


def _body(fn):
    return ';'.join(_n(s) for s in strip_docstring(fn.body))


def _code(s):
    return lean_list(str(ord(c)) for c in s)


def _opt_str(v):
    return 'none' if v is None else f'some {_code(v)} /- {v} -/'


def _opt_shape(v):
    return 'none' if v is None else f'some .{v}'


def _dict_table(fn, name):
    """`name = {'k': v, ...}` assigned inside fn -> [(k, v-node)]"""
    for s in ast.walk(fn):
        if isinstance(s, ast.Assign) and len(s.targets) == 1 and isinstance(s.targets[0], ast.Name) and s.targets[0].id == name \
                and isinstance(s.value, ast.Dict):
            out = []
            for k, v in zip(s.value.keys, s.value.values):
                if not (isinstance(k, ast.Constant) and isinstance(k.value, str)):
                    return None
                out.append((k.value, v))
            return out
    return None


def _without_assign(fn, name):
    return ';'.join(_n(s) for s in strip_docstring(fn.body)
                    if not (isinstance(s, ast.Assign) and isinstance(s.targets[0], ast.Name) and s.targets[0].id == name))


SHAPES = {
    'compare': {
        "ifa==b:\nreturn0\nelifa<b:\nreturn-1\nelse:\nreturn1": 'eqThenLt',
    },
    'pair_lt': {
        "fori,iteminenumerate(self.items):\nifitem!=other.items[i]:\nreturnitem<other.items[i];returnFalse": 'lexicographic',
        "fori,iteminenumerate(self.items):\nifitem>other.items[i]:\nreturnFalse;returnTrue": 'allNotGreater',
    },
    'pair_eq': {
        "ifnotisinstance(other,PairType):\nreturnFalse;returnall((item==other.items[i]fori,iteminenumerate(self.items)))": 'isinstanceAllEq',
    },
    'or_eq': {
        "ifnotisinstance(other,OrType):\nreturnFalse;returnall((item==other.items[i]fori,iteminenumerate(self.items)))": 'isinstanceAllEq',
    },
    'or_lt': {
        "ifself.is_left()andother.is_right():\nreturnTrue\nelifself.is_left()andother.is_left():\nreturnself.items[0]<other.items[0]\n"
        "elifself.is_right()andother.is_right():\nreturnself.items[1]<other.items[1]\nelse:\nreturnFalse": 'leftBeforeRight',
    },
    'option_lt': {
        "ifother.itemisNone:\nreturnFalse\nelifself.itemisNone:\nreturnTrue\nelse:\nreturnself.item<other.item": 'noneBeforeSome',
    },
    'option_eq': {
        "ifnotisinstance(other,OptionType):\nreturnFalse;returnself.item==other.item": 'isinstanceItemEq',
    },
    'unit_eq': {
        "returnisinstance(other,UnitType)": 'checksType',
        "returnTrue": 'alwaysTrue',
    },
    'unit_lt': {"returnFalse": 'alwaysFalse'},
    'key_lt': {
        "res=curves[self.prefix][0]-curves[other.prefix][0];ifres<0:\nreturnTrue\nelifres>0:\nreturnFalse\nelse:\n"
        "offset=curves[self.prefix][1]\nreturnself.raw[offset:]<other.raw[offset:]": 'rankThenRawFromOffset',
    },
    'addr_lt': {
        "res=kinds[self.value[:3]]-kinds[other.value[:3]];ifres<0:\nreturnTrue\nelifres>0:\nreturnFalse\nelse:\n"
        "returnself._split()<other._split()": 'kindThenSplit',
        "res=kinds[self.value[:3]]-kinds[other.value[:3]];ifres<0:\nreturnTrue\nelifres>0:\nreturnFalse\nelse:\n"
        "returnself.value<other.value": 'kindThenText',
        "ifis_pkh(self.value)andis_kt(other.value):\nreturnTrue\nelifis_kt(self.value)andis_pkh(other.value):\nreturnFalse\n"
        "else:\nreturnself.value<other.value": 'pkhBeforeKtThenText',
    },
    'sig_eq': {
        "ifnotisinstance(other,SignatureType):\nreturnFalse;returnself.raw==other.raw": 'rawBytes',
    },
    'sig_lt': {"returnself.raw<other.raw": 'rawBytes'},
    'sig_hash': {"returnhash(self.raw)": 'rawBytes'},
    'raw_prop': {"returnbase58_decode(self.value.encode())": 'decode'},
    'leaf_lt': {"returnself.value<other.value": 'valueLt'},
    'check_set': {
        "assertlen(set(items))==len(items),f'duplicateelementsfound';assertitems==sorted(items),f'setelementsarenotsorted'": 'dupThenSorted',
    },
    'check_map': {
        "keys=list(map(lambdax:x[0],items));assertlen(set(keys))==len(keys),f'duplicatekeysfound';"
        "assertkeys==sorted(keys),f'keysareunsorted'": 'dupThenSorted',
    },
}


def _shape(status, label, kind, text):
    name = SHAPES[kind].get(text)
    status[label] = (name is not None, name or ('unrecognised: ' + text[:300]))
    return name


def _leaf_eq_shape(cls_name, fn):
    want = f"ifnotisinstance(other,{cls_name}):\nreturnFalse;returnself.value==other.value"
    return 'isinstanceValueEq' if _body(fn) == want else None


def _own(cls, name):
    for s in cls.body:
        if isinstance(s, ast.FunctionDef) and s.name == name:
            return s
    return None


@generator('C03')
def gen_c03(status):
    out = []

    names = sorted({n for d in SHAPES.values() for n in d.values()} | {'valueCompare', 'text'})
    out.append('/-- names of the recognised code shapes -/\ninductive Shape\n' + ''.join(f'  | {n}\n' for n in names) + '  deriving DecidableEq, Repr\n')

    def emit_shape(lean_name, doc, value):
        out.append(f'/-- {doc} -/\ndef {lean_name} : Option Shape := {_opt_shape(value)}\n')

    # ---- compare() ------------------------------------------------------------------------------------------------
    cmp_fn = find_func(parse('michelson/instructions/compare.py'), 'compare')
    emit_shape('compareShape', '`compare(a, b)`: `a == b` -> 0, `a < b` -> -1, else 1',
               _shape(status, 'compare() shape', 'compare', _body(cmp_fn)))

    core = parse('michelson/types/core.py')
    domain = parse('michelson/types/domain.py')
    pair = find_class(parse('michelson/types/pair.py'), 'PairType')
    option = find_class(parse('michelson/types/option.py'), 'OptionType')
    or_ = find_class(parse('michelson/types/sum.py'), 'OrType')

    # ---- leaves: String / Int / Bytes / Bool ------------------------------------------------------------------------
    leaf_ok = True
    detail = []
    for cn in ('StringType', 'IntType', 'BytesType', 'BoolType'):
        c = find_class(core, cn)
        lt, eq = _own(c, '__lt__'), _own(c, '__eq__')
        ok = lt is not None and eq is not None and SHAPES['leaf_lt'].get(_body(lt)) == 'valueLt' and _leaf_eq_shape(cn, eq) is not None
        leaf_ok &= ok
        if not ok:
            detail.append(cn)
    # subclasses that must NOT override the comparison they inherit
    inherit = {'NatType': core, 'TimestampType': domain, 'MutezType': domain, 'KeyHashType': domain, 'ChainIdType': domain}
    for cn, tree in inherit.items():
        c = find_class(tree, cn)
        if c is None or _own(c, '__lt__') or _own(c, '__eq__') or _own(c, '__hash__'):
            leaf_ok = False
            detail.append(cn + ' overrides')
    bases_ok = all([
        _n(find_class(core, 'NatType').bases[0]) == 'IntType', _n(find_class(domain, 'TimestampType').bases[0]) == 'IntType',
        _n(find_class(domain, 'MutezType').bases[0]) == 'NatType',
        all(_n(find_class(domain, cn).bases[0]) == 'StringType' for cn in ('KeyHashType', 'ChainIdType', 'AddressType', 'KeyType', 'SignatureType')),
    ])
    leaf_ok &= bases_ok
    status['leaf __lt__/__eq__ (String/Int/Bytes/Bool, inherited by nat/timestamp/mutez/key_hash/chain_id)'] = (leaf_ok, 'valueLt/isinstanceValueEq' if leaf_ok else 'unrecognised: ' + ', '.join(detail))
    emit_shape('leafShape', 'String/Int/Bytes/Bool compare `.value`; nat, timestamp, mutez, key_hash, chain_id inherit it',
               'valueCompare' if leaf_ok else None)

    # ---- unit -----------------------------------------------------------------------------------------------------------
    unit_t = find_class(core, 'UnitType')
    emit_shape('unitEqShape', '`UnitType.__eq__`: `checksType` (isinstance) or `alwaysTrue` (pinned defect)',
               _shape(status, 'UnitType.__eq__ shape', 'unit_eq', _body(_own(unit_t, '__eq__'))))
    emit_shape('unitLtShape', '`UnitType.__lt__`', _shape(status, 'UnitType.__lt__ shape', 'unit_lt', _body(_own(unit_t, '__lt__'))))
    unit_c = find_class(core, 'unit')
    uh = _own(unit_t, '__hash__')
    hashable = None
    if uh is not None and _body(uh) == 'returnhash(Unit)':
        # `hash(Unit)` works only when class `unit` (which defines __eq__) also defines __hash__
        hashable = _own(unit_c, '__hash__') is not None or _own(unit_c, '__eq__') is None
    elif uh is not None and isinstance(uh.body[-1], ast.Return) and 'Unit' not in _body(uh):
        hashable = True
    status['UnitType.__hash__ usable'] = (hashable is not None, str(hashable))
    out.append(f'/-- can a `UnitType` value be hashed (needed by `len(set(items))` in check_constraints)? -/\n'
               f'def unitHashable : Option Bool := {"none" if hashable is None else "some " + str(hashable).lower()}\n')

    # ---- pair / option / or ------------------------------------------------------------------------------------------------
    emit_shape('pairLtShape', '`PairType.__lt__`: `lexicographic`, or the pinned `allNotGreater`',
               _shape(status, 'PairType.__lt__ shape', 'pair_lt', _body(_own(pair, '__lt__'))))
    emit_shape('pairEqShape', '`PairType.__eq__`', _shape(status, 'PairType.__eq__ shape', 'pair_eq', _body(_own(pair, '__eq__'))))
    emit_shape('optionLtShape', '`OptionType.__lt__`', _shape(status, 'OptionType.__lt__ shape', 'option_lt', _body(_own(option, '__lt__'))))
    emit_shape('optionEqShape', '`OptionType.__eq__`', _shape(status, 'OptionType.__eq__ shape', 'option_eq', _body(_own(option, '__eq__'))))
    emit_shape('orLtShape', '`OrType.__lt__`', _shape(status, 'OrType.__lt__ shape', 'or_lt', _body(_own(or_, '__lt__'))))
    emit_shape('orEqShape', '`OrType.__eq__`', _shape(status, 'OrType.__eq__ shape', 'or_eq', _body(_own(or_, '__eq__'))))

    # ---- key ----------------------------------------------------------------------------------------------------------------
    key = find_class(domain, 'KeyType')
    klt = _own(key, '__lt__')
    curves = _dict_table(klt, 'curves')
    rows = None
    if curves is not None:
        rows = []
        for k, v in curves:
            if isinstance(v, ast.Tuple) and len(v.elts) == 2 and all(isinstance(e, ast.Constant) and isinstance(e.value, int) and e.value >= 0 for e in v.elts):
                rows.append((k, v.elts[0].value, v.elts[1].value))
            else:
                rows = None
                break
    status['KeyType.__lt__ curves table'] = (rows is not None, str(rows))
    out.append('/-- `curves` of `KeyType.__lt__`: text prefix ↦ (rank, offset into the decoded bytes) -/\n'
               'def keyCurves : Option (List (List Nat × Nat × Nat)) := '
               + ('none' if rows is None else 'some ' + lean_list(f'({_code(k)} /- {k} -/, {r}, {o})' for k, r, o in rows)) + '\n')
    key_shape = _shape(status, 'KeyType.__lt__ shape', 'key_lt', _without_assign(klt, 'curves'))
    props_ok = (_body(find_func(key, 'raw')) == 'returnbase58_decode(self.value.encode())'
                and _body(find_func(key, 'prefix')) == 'returnself.value[:4]' and _own(key, '__eq__') is None and _own(key, '__hash__') is None)
    status['KeyType.raw / prefix / inherited __eq__'] = (props_ok, 'decode, value[:4], StringType.__eq__' if props_ok else 'unrecognised')
    emit_shape('keyLtShape', '`KeyType.__lt__`: rank difference, then `raw[offset:] < other.raw[offset:]`', key_shape if props_ok else None)

    # ---- address ----------------------------------------------------------------------------------------------------------------
    addr = find_class(domain, 'AddressType')
    alt = _own(addr, '__lt__')
    kinds = _dict_table(alt, 'kinds')
    krows = None
    if kinds is not None and all(isinstance(v, ast.Constant) and isinstance(v.value, int) and v.value >= 0 and len(k) == 3 for k, v in kinds):
        krows = [(k, v.value) for k, v in kinds]
    addr_shape = _shape(status, 'AddressType.__lt__ shape', 'addr_lt', _without_assign(alt, 'kinds'))
    if addr_shape in ('kindThenSplit', 'kindThenText'):
        status['AddressType.__lt__ kinds table'] = (krows is not None, str(krows))
    out.append('/-- `kinds` of `AddressType.__lt__`: 3-character text prefix ↦ rank (none: no such table, e.g. the pinned shape) -/\n'
               'def addrKinds : Option (List (List Nat × Nat)) := '
               + ('none' if krows is None else 'some ' + lean_list(f'({_code(k)} /- {k} -/, {r})' for k, r in krows)) + '\n')
    default_ep = None
    if addr_shape == 'kindThenSplit':
        sp = _own(addr, '_split')
        if sp is not None:
            b = strip_docstring(sp.body)
            if len(b) == 2 and _n(b[0]).strip('()').replace(')=', '=') == "address,_,entrypoint=self.value.partition('%'" and isinstance(b[1], ast.Return) \
                    and isinstance(b[1].value, ast.Tuple) and len(b[1].value.elts) == 2 and _n(b[1].value.elts[0]) == 'address' \
                    and isinstance(b[1].value.elts[1], ast.BoolOp) and isinstance(b[1].value.elts[1].op, ast.Or) \
                    and _n(b[1].value.elts[1].values[0]) == 'entrypoint' and isinstance(b[1].value.elts[1].values[1], ast.Constant):
                default_ep = b[1].value.elts[1].values[1].value
        status['AddressType._split'] = (default_ep is not None, str(default_ep))
    a_inherits = _own(addr, '__eq__') is None and _own(addr, '__hash__') is None
    status['AddressType inherits StringType.__eq__'] = (a_inherits, '')
    fv = find_func(addr, 'from_value')
    # only the exact entrypoint name `default` is dropped (fix C10-4); the pinned `endswith('%default')` + `split('%')[0]` also cut
    # `addr%x%default` down to `addr` and is not accepted any more
    strips = "address,_,entrypoint=value.partition('%');ifentrypoint=='default':\nvalue=address" in _body(fv)
    status["AddressType.from_value strips '%default'"] = (strips, '')
    emit_shape('addrLtShape', '`AddressType.__lt__`: `kindThenSplit` (kind rank, then (address, entrypoint or default)), `kindThenText`, or the pinned `pkhBeforeKtThenText`',
               addr_shape if (a_inherits and strips) else None)
    out.append(f"/-- the literal in `entrypoint or 'default'` -/\ndef addrDefaultEntrypoint : Option (List Nat) := {_opt_str(default_ep)}\n")

    # ---- signature --------------------------------------------------------------------------------------------------------------
    sig = find_class(domain, 'SignatureType')
    s_eq, s_lt, s_hash, s_raw = (_own(sig, n) for n in ('__eq__', '__lt__', '__hash__', 'raw'))
    if s_eq is None and s_lt is None and s_hash is None:
        sig_shape = 'text'          # inherits StringType: compares the base58 text (pinned defect)
        status['SignatureType comparison'] = (True, 'text')
    else:
        ok = all(x is not None for x in (s_eq, s_lt, s_hash, s_raw)) and SHAPES['sig_eq'].get(_body(s_eq)) and SHAPES['sig_lt'].get(_body(s_lt)) \
            and SHAPES['sig_hash'].get(_body(s_hash)) and SHAPES['raw_prop'].get(_body(s_raw))
        sig_shape = 'rawBytes' if ok else None
        status['SignatureType comparison'] = (bool(ok), sig_shape or 'unrecognised')
    emit_shape('sigShape', '`SignatureType`: `rawBytes` (==, <, hash on the decoded bytes) or `text` (inherited from StringType, pinned)', sig_shape)

    # ---- is_comparable ------------------------------------------------------------------------------------------------------------
    base = parse('michelson/types/base.py')
    ic = find_func(find_class(base, 'MichelsonType'), 'is_comparable')
    prims = None
    b = strip_docstring(ic.body)
    if len(b) == 2 and isinstance(b[0], ast.If) and isinstance(b[0].test, ast.Compare) and _n(b[0].test.left) == 'cls.prim' \
            and isinstance(b[0].test.ops[0], ast.In) and isinstance(b[0].test.comparators[0], (ast.List, ast.Tuple)) \
            and _n(b[0].body[0]) == 'returnFalse' and not b[0].orelse \
            and ast.unparse(b[1]) in all_type_args_forms(find_class(base, 'MichelsonType'), 'is_comparable'):
        elts = b[0].test.comparators[0].elts
        if all(isinstance(e, ast.Constant) and isinstance(e.value, str) for e in elts):
            prims = [e.value for e in elts]
    status['MichelsonType.is_comparable'] = (prims is not None, str(prims))
    out.append('/-- prims `is_comparable` rejects; every other prim is comparable iff all its type arguments are -/\n'
               'def nonComparable : Option (List (List Nat)) := '
               + ('none' if prims is None else 'some ' + lean_list(f'{_code(p)} /- {p} -/' for p in prims)) + '\n')

    # ---- check_constraints ------------------------------------------------------------------------------------------------------------
    setc = find_func(find_class(parse('michelson/types/set.py'), 'SetType'), 'check_constraints')
    mapc = find_func(find_class(parse('michelson/types/map.py'), 'MapType'), 'check_constraints')
    emit_shape('setCheckShape', '`SetType.check_constraints`: no `__eq__`-duplicates, then `items == sorted(items)`',
               _shape(status, 'SetType.check_constraints', 'check_set', _body(setc)))
    emit_shape('mapCheckShape', '`MapType.check_constraints`: the same on the keys',
               _shape(status, 'MapType.check_constraints', 'check_map', _body(mapc)))
    return '\n'.join(out)
